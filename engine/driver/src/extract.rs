use std::collections::HashSet;
use std::sync::{Mutex, OnceLock};

use rustc_data_structures::fx::FxIndexMap;
use rustc_driver::Compilation;
use rustc_hir::def::DefKind;
use rustc_hir::def_id::{DefId, LocalDefId};
use rustc_interface::interface;
use rustc_middle::mir::{
    AggregateKind, BasicBlock, Body, BorrowKind, Const, Operand, Place, ProjectionElem, Rvalue, StatementKind,
    TerminatorKind, UnwindAction,
};
use rustc_middle::ty::print::{with_no_trimmed_paths, with_no_visible_paths, with_resolve_crate_name};
use rustc_middle::ty::{self, GenericArgsRef, Instance, Ty, TyCtxt};
use rustc_span::def_id::LOCAL_CRATE;
use rustc_span::{ErrorGuaranteed, Span};

use crate::json::{arr, b, obj, opt, s};

static OUT: Mutex<Vec<String>> = Mutex::new(Vec::new());
static OUT_PATH: OnceLock<String> = OnceLock::new();
static SEEN: Mutex<Option<HashSet<u32>>> = Mutex::new(None);

type BorrowckFn = for<'tcx> fn(
    TyCtxt<'tcx>,
    LocalDefId,
) -> Result<&'tcx FxIndexMap<LocalDefId, ty::DefinitionSiteHiddenType<'tcx>>, ErrorGuaranteed>;
static ORIG: OnceLock<BorrowckFn> = OnceLock::new();

pub fn set_output(dir: &str, krate: &str) {
    let _ = OUT_PATH.set(format!("{}/{}.jsonl", dir, krate));
}

fn emit(line: String) {
    OUT.lock().unwrap().push(line);
}

pub struct Cb;

impl rustc_driver::Callbacks for Cb {
    fn config(&mut self, config: &mut interface::Config) {
        config.override_queries = Some(|_sess, providers| {
            let _ = ORIG.set(providers.queries.mir_borrowck);
            providers.queries.mir_borrowck = my_borrowck;
        });
    }

    fn after_analysis<'tcx>(&mut self, _compiler: &interface::Compiler, tcx: TyCtxt<'tcx>) -> Compilation {
        // bodies that borrowck did not visit (should not happen) are visited now if still available
        for def in tcx.hir_body_owners() {
            extract_body(tcx, def);
        }
        tables(tcx);
        let path = OUT_PATH.get().expect("output path");
        let lines = std::mem::take(&mut *OUT.lock().unwrap());
        let mut text = String::new();
        for l in lines {
            text.push_str(&l);
            text.push('\n');
        }
        std::fs::write(path, text).expect("write facts");
        Compilation::Continue
    }
}

fn my_borrowck<'tcx>(
    tcx: TyCtxt<'tcx>,
    def: LocalDefId,
) -> Result<&'tcx FxIndexMap<LocalDefId, ty::DefinitionSiteHiddenType<'tcx>>, ErrorGuaranteed> {
    extract_body(tcx, def);
    for n in tcx.nested_bodies_within(def) {
        extract_body(tcx, n);
    }
    (ORIG.get().expect("orig provider"))(tcx, def)
}

// ---------------------------------------------------------------- naming

pub fn item_key(tcx: TyCtxt<'_>, did: DefId) -> String {
    format!("{}{}", tcx.crate_name(did.krate), tcx.def_path(did).to_string_no_crate_verbose())
}

pub fn item_path(tcx: TyCtxt<'_>, did: DefId) -> String {
    with_resolve_crate_name!(with_no_visible_paths!(with_no_trimmed_paths!(tcx.def_path_str(did))))
}

fn ty_str<'tcx>(ty: Ty<'tcx>) -> String {
    with_resolve_crate_name!(with_no_visible_paths!(with_no_trimmed_paths!(format!("{}", ty))))
}

fn span_str(tcx: TyCtxt<'_>, sp: Span) -> String {
    let sm = tcx.sess.source_map();
    // attribute macro-generated code to the outermost call site
    let sp = sp.source_callsite();
    let lo = sm.lookup_char_pos(sp.lo());
    let name = match &lo.file.name {
        rustc_span::FileName::Real(r) => {
            r.local_path().map(|p| p.display().to_string()).unwrap_or_else(|| format!("{:?}", lo.file.name))
        }
        other => format!("{:?}", other),
    };
    format!("{}:{}", name, lo.line)
}

// ---------------------------------------------------------------- ownership walk

const STOP_SUFFIX: &[&str] = &["Guard", "PhantomData", "Weak", "NonNull", "Iter", "IterMut", "Ref", "RefMut"];

fn is_workspaceish(tcx: TyCtxt<'_>, did: DefId) -> bool {
    if did.krate == LOCAL_CRATE {
        return true;
    }
    let n = tcx.crate_name(did.krate);
    let n = n.as_str();
    n.starts_with("qbice") || n.starts_with("qbv")
}

/// Collects the nominal items contained *by value* in `ty` (references, raw
/// pointers and guard-like wrappers end the walk). Entries reached through
/// `Arc`/`Rc` are suffixed with `@arc`.
fn own_walk<'tcx>(
    tcx: TyCtxt<'tcx>,
    ty: Ty<'tcx>,
    via: (bool, bool),
    depth: usize,
    seen: &mut HashSet<(Ty<'tcx>, (bool, bool))>,
    out: &mut Vec<String>,
) {
    if depth > 12 || !seen.insert((ty, via)) {
        return;
    }
    let (via_arc, via_fut) = via;
    let mut add = |p: String, out: &mut Vec<String>| {
        let p = if via_fut { format!("{}@fut", p) } else { p };
        let p = if via_arc { format!("{}@arc", p) } else { p };
        if !out.contains(&p) {
            out.push(p);
        }
    };
    match ty.kind() {
        ty::Adt(adt, args) => {
            let did = adt.did();
            let path = item_path(tcx, did);
            let last = path.rsplit("::").next().unwrap_or("");
            add(format!("adt:{}", path), out);
            if STOP_SUFFIX.iter().any(|x| last.ends_with(x)) {
                return;
            }
            let arcish = matches!(path.as_str(), "alloc::sync::Arc" | "alloc::rc::Rc");
            if is_workspaceish(tcx, did) && !adt.is_union() {
                for v in adt.variants() {
                    for f in v.fields.iter() {
                        let fty = f.ty(tcx, args);
                        own_walk(tcx, fty, via, depth + 1, seen, out);
                    }
                }
            } else {
                for a in args.iter() {
                    if let Some(t) = a.as_type() {
                        own_walk(tcx, t, (via_arc || arcish, via_fut), depth + 1, seen, out);
                    }
                }
            }
        }
        ty::Tuple(ts) => {
            for t in ts.iter() {
                own_walk(tcx, t, via, depth + 1, seen, out);
            }
        }
        ty::Array(t, _) | ty::Slice(t) | ty::Pat(t, _) => own_walk(tcx, *t, via, depth + 1, seen, out),
        ty::Closure(did, args) => {
            add(format!("closure:{}", item_key(tcx, *did)), out);
            let up = args.as_closure().tupled_upvars_ty();
            own_walk(tcx, up, (via_arc, true), depth + 1, seen, out);
        }
        ty::Coroutine(did, args) => {
            add(format!("coroutine:{}", item_key(tcx, *did)), out);
            let up = args.as_coroutine().tupled_upvars_ty();
            own_walk(tcx, up, (via_arc, true), depth + 1, seen, out);
        }
        ty::CoroutineClosure(did, args) => {
            add(format!("closure:{}", item_key(tcx, *did)), out);
            let up = args.as_coroutine_closure().tupled_upvars_ty();
            own_walk(tcx, up, (via_arc, true), depth + 1, seen, out);
        }
        ty::Alias(at) => {
            let did = at.kind.def_id();
            match tcx.def_kind(did) {
                DefKind::OpaqueTy => {
                    let parent = tcx.parent(did);
                    add(format!("opaque:{}", item_key(tcx, parent)), out);
                }
                _ => add(format!("alias:{}", item_path(tcx, did)), out),
            }
            // the arguments of an alias (Self type, GAT parameters, captured generics of an
            // opaque future) are not owned by a value of the alias type: do not descend
        }
        ty::Param(p) => add(format!("param:{}", p.name), out),
        ty::Dynamic(preds, _) => {
            if let Some(p) = preds.principal_def_id() {
                add(format!("dyn:{}", item_path(tcx, p)), out);
            }
        }
        _ => {}
    }
}

fn own_of<'tcx>(tcx: TyCtxt<'tcx>, ty: Ty<'tcx>) -> Vec<String> {
    let mut out = Vec::new();
    let mut seen = HashSet::new();
    own_walk(tcx, ty, (false, false), 0, &mut seen, &mut out);
    out
}

// ---------------------------------------------------------------- MIR pieces

fn place_json<'tcx>(tcx: TyCtxt<'tcx>, body: &Body<'tcx>, p: &Place<'tcx>) -> String {
    let mut projs: Vec<String> = Vec::new();
    for (base, elem) in p.iter_projections() {
        let e = match elem {
            ProjectionElem::Deref => s("*"),
            ProjectionElem::Field(idx, _) => {
                let bt = base.ty(body, tcx);
                let name = match bt.ty.kind() {
                    ty::Adt(adt, _) if !adt.is_union() || true => {
                        let v = bt.variant_index.unwrap_or(rustc_abi::FIRST_VARIANT);
                        if adt.variants().len() > v.as_usize() {
                            adt.variant(v).fields.get(idx).map(|f| f.name.to_string()).unwrap_or_else(|| idx.as_usize().to_string())
                        } else {
                            idx.as_usize().to_string()
                        }
                    }
                    _ => idx.as_usize().to_string(),
                };
                s(&format!("f:{}#{}", name, idx.as_usize()))
            }
            ProjectionElem::Index(l) => s(&format!("i:_{}", l.as_usize())),
            ProjectionElem::ConstantIndex { offset, from_end, .. } => s(&format!("ci:{}{}", if from_end { "-" } else { "" }, offset)),
            ProjectionElem::Subslice { from, to, .. } => s(&format!("ss:{}..{}", from, to)),
            ProjectionElem::Downcast(sym, v) => {
                s(&format!("d:{}#{}", sym.map(|x| x.to_string()).unwrap_or_default(), v.as_usize()))
            }
            ProjectionElem::OpaqueCast(_) => s("oc"),
            ProjectionElem::UnwrapUnsafeBinder(_) => s("ub"),
        };
        projs.push(e);
    }
    format!("[{},{}]", p.local.as_usize(), arr(&projs))
}

fn fn_ref_json<'tcx>(tcx: TyCtxt<'tcx>, owner: LocalDefId, did: DefId, args: GenericArgsRef<'tcx>) -> String {
    let mut items: Vec<(&str, String)> = Vec::new();
    items.push(("path", s(&item_path(tcx, did))));
    items.push(("key", s(&item_key(tcx, did))));
    let gargs: Vec<String> = args.iter().filter(|a| a.as_region().is_none()).map(|a| s(&with_resolve_crate_name!(with_no_visible_paths!(with_no_trimmed_paths!(format!("{}", a)))))).collect();
    items.push(("gargs", arr(&gargs)));
    // nominal content of the generic type arguments (used for await maps etc.)
    let mut gown: Vec<String> = Vec::new();
    for a in args.iter() {
        if let Some(t) = a.as_type() {
            let mut head: Vec<String> = Vec::new();
            match t.kind() {
                ty::Coroutine(d, _) => head.push(format!("coroutine:{}", item_key(tcx, *d))),
                ty::Closure(d, _) | ty::CoroutineClosure(d, _) => head.push(format!("closure:{}", item_key(tcx, *d))),
                ty::Alias(at) => {
                    let d = at.kind.def_id();
                    if matches!(tcx.def_kind(d), DefKind::OpaqueTy) {
                        head.push(format!("opaque:{}", item_key(tcx, tcx.parent(d))));
                    } else {
                        head.push(format!("alias:{}", item_path(tcx, d)));
                    }
                }
                ty::Adt(adt, _) => head.push(format!("adt:{}", item_path(tcx, adt.did()))),
                ty::Param(p) => head.push(format!("param:{}", p.name)),
                ty::Dynamic(preds, _) => {
                    if let Some(p) = preds.principal_def_id() {
                        head.push(format!("dyn:{}", item_path(tcx, p)));
                    }
                }
                ty::Ref(..) => head.push("ref".into()),
                _ => {}
            }
            gown.push(arr(&head.iter().map(|x| s(x)).collect::<Vec<_>>()));
        }
    }
    items.push(("ghead", arr(&gown)));
    let kind = tcx.def_kind(did);
    if matches!(kind, DefKind::AssocFn | DefKind::AssocConst { .. }) {
        if let Some(tr) = tcx.trait_of_assoc(did) {
            items.push(("trait", s(&item_path(tcx, tr))));
            if args.len() > 0 {
                if let Some(t) = args.get(0).and_then(|a| a.as_type()) {
                    items.push(("self_ty", s(&ty_str(t))));
                }
            }
            if matches!(kind, DefKind::AssocFn) && !args.has_infer() {
                let env = ty::TypingEnv::non_body_analysis(tcx, owner);
                if let Ok(Some(inst)) = Instance::try_resolve(tcx, env, did, args) {
                    let rd = inst.def_id();
                    if rd != did {
                        items.push(("res_key", s(&item_key(tcx, rd))));
                        items.push(("res_path", s(&item_path(tcx, rd))));
                    }
                }
            }
        } else if let Some(imp) = tcx.impl_of_assoc(did) {
            let st = tcx.type_of(imp).instantiate_identity().skip_norm_wip();
            items.push(("self_ty", s(&ty_str(st))));
            if let Some(tr) = tcx.impl_opt_trait_ref(imp) {
                let tr = tr.instantiate_identity().skip_norm_wip();
                items.push(("impl_of_trait", s(&item_path(tcx, tr.def_id))));
            }
        }
    }
    if matches!(kind, DefKind::Ctor(..)) {
        items.push(("ctor", b(true)));
    }
    obj(&items)
}

use rustc_middle::ty::TypeVisitableExt;

fn const_json<'tcx>(tcx: TyCtxt<'tcx>, owner: LocalDefId, c: &Const<'tcx>) -> String {
    let ty = c.ty();
    let mut items: Vec<(&str, String)> = Vec::new();
    items.push(("ty", s(&ty_str(ty))));
    if let ty::FnDef(did, args) = ty.kind() {
        items.push(("fn", fn_ref_json(tcx, owner, *did, args)));
        return obj(&[("c", obj(&items))]);
    }
    let disp = with_resolve_crate_name!(with_no_visible_paths!(with_no_trimmed_paths!(format!("{}", c))));
    items.push(("s", s(&disp)));
    match c {
        Const::Unevaluated(u, _) => {
            items.push(("uneval", s(&item_path(tcx, u.def))));
            if let Some(pi) = u.promoted {
                items.push(("promoted", pi.as_usize().to_string()));
            }
            items.push(("uneval_key", s(&item_key(tcx, u.def))));
            let gargs: Vec<String> = u.args.iter().filter(|a| a.as_region().is_none()).map(|a| s(&with_resolve_crate_name!(with_no_visible_paths!(with_no_trimmed_paths!(format!("{}", a)))))).collect();
            items.push(("gargs", arr(&gargs)));
            if let Some(tr) = tcx.trait_of_assoc(u.def) {
                items.push(("trait", s(&item_path(tcx, tr))));
                if let Some(t) = u.args.get(0).and_then(|a| a.as_type()) {
                    items.push(("self_ty", s(&ty_str(t))));
                }
            }
        }
        Const::Val(..) | Const::Ty(..) => {
            if ty.is_integral() || ty.is_bool() || ty.is_char() {
                let env = ty::TypingEnv::fully_monomorphized();
                if let Some(si) = c.try_eval_scalar_int(tcx, env) {
                    let size = si.size();
                    let bits = si.to_bits(size);
                    let v = if ty.is_signed() {
                        let sh = 128 - size.bits();
                        (((bits as i128) << sh) >> sh).to_string()
                    } else {
                        bits.to_string()
                    };
                    // JSON numbers above 2^53 lose precision in some readers: emit as string
                    items.push(("v", s(&v)));
                }
            }
        }
    }
    obj(&[("c", obj(&items))])
}

fn operand_json<'tcx>(tcx: TyCtxt<'tcx>, owner: LocalDefId, body: &Body<'tcx>, o: &Operand<'tcx>) -> String {
    match o {
        Operand::Copy(p) => obj(&[("cp", place_json(tcx, body, p))]),
        Operand::Move(p) => obj(&[("mv", place_json(tcx, body, p))]),
        Operand::Constant(c) => const_json(tcx, owner, &c.const_),
        #[allow(unreachable_patterns)]
        _ => obj(&[("other", s(&format!("{:?}", o)))]),
    }
}

fn bb(x: BasicBlock) -> String {
    x.as_usize().to_string()
}

fn unwind_json(u: &UnwindAction) -> String {
    match u {
        UnwindAction::Cleanup(t) => bb(*t),
        _ => "null".into(),
    }
}

fn rvalue_json<'tcx>(tcx: TyCtxt<'tcx>, owner: LocalDefId, body: &Body<'tcx>, rv: &Rvalue<'tcx>) -> String {
    let op = |o: &Operand<'tcx>| operand_json(tcx, owner, body, o);
    match rv {
        Rvalue::Use(o, ..) => obj(&[("k", s("use")), ("op", op(o))]),
        Rvalue::Repeat(o, _) => obj(&[("k", s("repeat")), ("op", op(o))]),
        Rvalue::Ref(_, bk, p) => obj(&[
            ("k", s("ref")),
            ("mut", b(matches!(bk, BorrowKind::Mut { .. }))),
            ("fake", b(matches!(bk, BorrowKind::Fake(_)))),
            ("pl", place_json(tcx, body, p)),
        ]),
        Rvalue::RawPtr(_, p) => obj(&[("k", s("rawptr")), ("pl", place_json(tcx, body, p))]),
        Rvalue::ThreadLocalRef(d) => obj(&[("k", s("tls")), ("def", s(&item_path(tcx, *d)))]),
        Rvalue::Cast(ck, o, t) => obj(&[("k", s("cast")), ("ck", s(&format!("{:?}", ck))), ("op", op(o)), ("ty", s(&ty_str(*t)))]),
        Rvalue::BinaryOp(bop, ops) => obj(&[("k", s("bin")), ("op", s(&format!("{:?}", bop))), ("a", op(&ops.0)), ("b", op(&ops.1))]),
        Rvalue::UnaryOp(uop, o) => obj(&[("k", s("un")), ("op", s(&format!("{:?}", uop))), ("a", op(o))]),
        Rvalue::Discriminant(p) => {
            let pt = p.ty(body, tcx).ty;
            let adt = match pt.kind() {
                ty::Adt(a, _) => s(&item_path(tcx, a.did())),
                _ => "null".into(),
            };
            obj(&[("k", s("disc")), ("pl", place_json(tcx, body, p)), ("adt", adt)])
        }
        Rvalue::Aggregate(kind, ops) => {
            let opsj: Vec<String> = ops.iter().map(|o| op(o)).collect();
            match &**kind {
                AggregateKind::Array(_) => obj(&[("k", s("agg")), ("ak", s("array")), ("ops", arr(&opsj))]),
                AggregateKind::Tuple => obj(&[("k", s("agg")), ("ak", s("tuple")), ("ops", arr(&opsj))]),
                AggregateKind::Adt(did, vidx, _args, _, active) => {
                    let adt = tcx.adt_def(*did);
                    let v = adt.variant(*vidx);
                    let fields: Vec<String> = v.fields.iter().map(|f| s(f.name.as_str())).collect();
                    obj(&[
                        ("k", s("agg")),
                        ("ak", s("adt")),
                        ("adt", s(&item_path(tcx, *did))),
                        ("variant", vidx.as_usize().to_string()),
                        ("vname", s(v.name.as_str())),
                        ("fields", arr(&fields)),
                        ("active", opt(active.map(|a| a.as_usize().to_string()))),
                        ("ops", arr(&opsj)),
                    ])
                }
                AggregateKind::Closure(did, _) | AggregateKind::CoroutineClosure(did, _) => obj(&[
                    ("k", s("agg")),
                    ("ak", s("closure")),
                    ("def", s(&item_key(tcx, *did))),
                    ("ops", arr(&opsj)),
                ]),
                AggregateKind::Coroutine(did, _) => obj(&[
                    ("k", s("agg")),
                    ("ak", s("coroutine")),
                    ("def", s(&item_key(tcx, *did))),
                    ("ops", arr(&opsj)),
                ]),
                AggregateKind::RawPtr(..) => obj(&[("k", s("agg")), ("ak", s("rawptr")), ("ops", arr(&opsj))]),
            }
        }
        Rvalue::CopyForDeref(p) => obj(&[("k", s("use")), ("op", obj(&[("cp", place_json(tcx, body, p))])), ("cfd", b(true))]),
        Rvalue::WrapUnsafeBinder(o, _) => obj(&[("k", s("use")), ("op", op(o))]),
    }
}

fn line_of(tcx: TyCtxt<'_>, sp: Span) -> String {
    let sm = tcx.sess.source_map();
    let sp = sp.source_callsite();
    sm.lookup_char_pos(sp.lo()).line.to_string()
}

fn body_json<'tcx>(tcx: TyCtxt<'tcx>, def: LocalDefId, body: &Body<'tcx>, phase: &str, promoted: Option<usize>) -> String {
    let did = def.to_def_id();
    let kind = tcx.def_kind(did);
    let mut items: Vec<(&str, String)> = Vec::new();
    if let Some(i) = promoted {
        items.push(("k", s("promoted")));
        items.push(("owner", s(&item_key(tcx, did))));
        items.push(("index", i.to_string()));
    } else {
        items.push(("k", s("body")));
    }
    items.push(("key", s(&match promoted { Some(i) => format!("{}::promoted[{}]", item_key(tcx, did), i), None => item_key(tcx, did) })));
    items.push(("path", s(&item_path(tcx, did))));
    items.push(("crate", s(tcx.crate_name(LOCAL_CRATE).as_str())));
    items.push(("phase", s(phase)));
    let kind_s = if tcx.is_coroutine(did) {
        match tcx.coroutine_kind(did) {
            Some(k) => format!("coroutine:{:?}", k),
            None => "coroutine".into(),
        }
    } else {
        format!("{:?}", kind)
    };
    items.push(("kind", s(&kind_s)));
    let parent = if tcx.is_typeck_child(did) { Some(s(&item_key(tcx, tcx.parent(did)))) } else { None };
    items.push(("parent", opt(parent)));
    items.push(("span", s(&span_str(tcx, body.span))));
    items.push(("from_expansion", b(body.span.from_expansion())));
    if matches!(kind, DefKind::Fn | DefKind::AssocFn) {
        items.push(("vis", s(&format!("{:?}", tcx.visibility(did)))));
        items.push(("is_async", b(tcx.asyncness(did).is_async())));
        items.push(("is_unsafe", b(tcx.fn_sig(did).skip_binder().safety().is_unsafe())));
        items.push(("is_const", b(tcx.is_const_fn(did))));
    }
    if matches!(kind, DefKind::AssocFn | DefKind::AssocConst { .. }) {
        if let Some(imp) = tcx.impl_of_assoc(did) {
            items.push(("impl", s(&item_key(tcx, imp))));
            let st = tcx.type_of(imp).instantiate_identity().skip_norm_wip();
            items.push(("self_ty", s(&ty_str(st))));
            if let Some(tr) = tcx.impl_opt_trait_ref(imp) {
                let tr = tr.instantiate_identity().skip_norm_wip();
                items.push(("trait", s(&item_path(tcx, tr.def_id))));
            }
            items.push(("name", s(tcx.item_name(did).as_str())));
        } else if let Some(tr) = tcx.trait_of_assoc(did) {
            items.push(("trait_default", s(&item_path(tcx, tr))));
            items.push(("name", s(tcx.item_name(did).as_str())));
        }
    }
    items.push(("argc", body.arg_count.to_string()));
    // locals
    let mut locals: Vec<String> = Vec::new();
    for (_l, decl) in body.local_decls.iter_enumerated() {
        let own: Vec<String> = own_of(tcx, decl.ty).iter().map(|x| s(x)).collect();
        locals.push(obj(&[("ty", s(&ty_str(decl.ty))), ("own", arr(&own)), ("user", b(decl.is_user_variable()))]));
    }
    items.push(("locals", arr(&locals)));
    // debug names
    let mut dbg: Vec<String> = Vec::new();
    for v in body.var_debug_info.iter() {
        if let rustc_middle::mir::VarDebugInfoContents::Place(p) = &v.value {
            dbg.push(format!("[{},{}]", s(v.name.as_str()), place_json(tcx, body, p)));
        }
    }
    items.push(("dbg", arr(&dbg)));
    // blocks
    let mut blocks: Vec<String> = Vec::new();
    for (_bbi, data) in body.basic_blocks.iter_enumerated() {
        let mut stmts: Vec<String> = Vec::new();
        for st in data.statements.iter() {
            let ln = line_of(tcx, st.source_info.span);
            match &st.kind {
                StatementKind::Assign(bx) => {
                    let (pl, rv) = &**bx;
                    stmts.push(obj(&[
                        ("k", s("assign")),
                        ("lhs", place_json(tcx, body, pl)),
                        ("rv", rvalue_json(tcx, def, body, rv)),
                        ("line", ln),
                    ]));
                }
                StatementKind::StorageLive(l) => stmts.push(obj(&[("k", s("sl")), ("l", l.as_usize().to_string())])),
                StatementKind::StorageDead(l) => stmts.push(obj(&[("k", s("sd")), ("l", l.as_usize().to_string())])),
                StatementKind::SetDiscriminant { place, variant_index } => stmts.push(obj(&[
                    ("k", s("setdisc")),
                    ("pl", place_json(tcx, body, place)),
                    ("variant", variant_index.as_usize().to_string()),
                ])),
                _ => {}
            }
        }
        let term = data.terminator();
        let ln = line_of(tcx, term.source_info.span);
        let exp = b(term.source_info.span.from_expansion());
        let t = match &term.kind {
            TerminatorKind::Goto { target } => obj(&[("k", s("goto")), ("t", bb(*target))]),
            TerminatorKind::SwitchInt { discr, targets } => {
                let mut ts: Vec<String> = Vec::new();
                for (v, t) in targets.iter() {
                    ts.push(format!("[{},{}]", s(&v.to_string()), bb(t)));
                }
                let dty = discr.ty(body, tcx);
                obj(&[
                    ("k", s("switch")),
                    ("op", operand_json(tcx, def, body, discr)),
                    ("ty", s(&ty_str(dty))),
                    ("targets", arr(&ts)),
                    ("otherwise", bb(targets.otherwise())),
                    ("line", ln),
                ])
            }
            TerminatorKind::UnwindResume => obj(&[("k", s("resume"))]),
            TerminatorKind::UnwindTerminate(_) => obj(&[("k", s("abort"))]),
            TerminatorKind::Return => obj(&[("k", s("ret")), ("line", ln)]),
            TerminatorKind::Unreachable => obj(&[("k", s("unreachable"))]),
            TerminatorKind::Drop { place, target, unwind, .. } => obj(&[
                ("k", s("drop")),
                ("pl", place_json(tcx, body, place)),
                ("t", bb(*target)),
                ("unwind", unwind_json(unwind)),
                ("line", ln),
            ]),
            TerminatorKind::Call { func, args, destination, target, unwind, .. } => {
                let f = match func {
                    Operand::Constant(c) => match c.const_.ty().kind() {
                        ty::FnDef(did, gargs) => fn_ref_json(tcx, def, *did, gargs),
                        _ => obj(&[("ptr", operand_json(tcx, def, body, func))]),
                    },
                    _ => {
                        let fty = func.ty(body, tcx);
                        obj(&[("ptr", operand_json(tcx, def, body, func)), ("ty", s(&ty_str(fty)))])
                    }
                };
                let a: Vec<String> = args.iter().map(|x| operand_json(tcx, def, body, &x.node)).collect();
                obj(&[
                    ("k", s("call")),
                    ("fn", f),
                    ("args", arr(&a)),
                    ("dest", place_json(tcx, body, destination)),
                    ("t", opt(target.map(bb))),
                    ("unwind", unwind_json(unwind)),
                    ("line", ln),
                    ("exp", exp),
                ])
            }
            TerminatorKind::TailCall { .. } => obj(&[("k", s("tailcall"))]),
            TerminatorKind::Assert { cond, expected, msg, target, unwind } => obj(&[
                ("k", s("assert")),
                ("cond", operand_json(tcx, def, body, cond)),
                ("expected", b(*expected)),
                ("msg", s(&format!("{:?}", std::mem::discriminant(&**msg)))),
                ("t", bb(*target)),
                ("unwind", unwind_json(unwind)),
                ("line", ln),
            ]),
            TerminatorKind::Yield { value, resume, resume_arg, drop } => obj(&[
                ("k", s("yield")),
                ("val", operand_json(tcx, def, body, value)),
                ("t", bb(*resume)),
                ("resume_arg", place_json(tcx, body, resume_arg)),
                ("drop", opt(drop.map(bb))),
                ("line", ln),
            ]),
            TerminatorKind::CoroutineDrop => obj(&[("k", s("codrop"))]),
            TerminatorKind::FalseEdge { real_target, imaginary_target } => {
                obj(&[("k", s("falseedge")), ("t", bb(*real_target)), ("imag", bb(*imaginary_target))])
            }
            TerminatorKind::FalseUnwind { real_target, unwind } => {
                obj(&[("k", s("falseunwind")), ("t", bb(*real_target)), ("unwind", unwind_json(unwind))])
            }
            TerminatorKind::InlineAsm { .. } => obj(&[("k", s("asm"))]),
        };
        blocks.push(obj(&[("cleanup", b(data.is_cleanup)), ("stmts", arr(&stmts)), ("term", t)]));
    }
    items.push(("blocks", arr(&blocks)));
    if phase == "promoted" && promoted.is_none() {
        items.push(("mi", maybe_init_json(tcx, body)));
    }
    obj(&items)
}

const DEFAULT_TRACK: &[&str] = &[
    "WriteTransaction",
    "write_behind::WriteBatch",
    "LockGuard",
    "RwLockReadGuard",
    "RwLockWriteGuard",
    "MutexGuard",
    "ActiveInputSessionGuard",
    "ActiveComputationGuard",
    "UndoRegisterCallee",
    "QueryLock",
    "OccupiedEntry",
    "VacantEntry",
    "dashmap::mapref",
    "ShardGuard",
    "sharded::",
    "Notified",
];

fn tracked_of<'tcx>(tcx: TyCtxt<'tcx>, ty: Ty<'tcx>, track: &[String]) -> Vec<String> {
    own_of(tcx, ty).into_iter().filter(|o| track.iter().any(|t| o.contains(t.as_str()))).collect()
}

/// Maybe-initialised move paths (rustc's own analysis, the one drop elaboration
/// uses) that own a tracked resource, sampled before every Yield / Drop /
/// Return / Call terminator.
fn maybe_init_json<'tcx>(tcx: TyCtxt<'tcx>, body: &Body<'tcx>) -> String {
    use rustc_mir_dataflow::impls::MaybeInitializedPlaces;
    use rustc_mir_dataflow::move_paths::MoveData;
    use rustc_mir_dataflow::Analysis;
    let track: Vec<String> = match std::env::var("QBV_TRACK") {
        Ok(v) if !v.is_empty() => v.split(',').map(|x| x.to_string()).collect(),
        _ => DEFAULT_TRACK.iter().map(|x| x.to_string()).collect(),
    };
    let md = MoveData::gather_moves(body, tcx, |_| true);
    // per move path: tracked own-set
    let mut tr: Vec<Vec<String>> = Vec::with_capacity(md.move_paths.len());
    for mp in md.move_paths.iter() {
        let ty = mp.place.ty(body, tcx).ty;
        tr.push(tracked_of(tcx, ty, &track));
    }
    if tr.iter().all(|t| t.is_empty()) {
        return "{}".into();
    }
    let mut kids: Vec<bool> = vec![false; md.move_paths.len()];
    for (mpi, mp) in md.move_paths.iter_enumerated() {
        if !tr[mpi.as_usize()].is_empty() {
            if let Some(p) = mp.parent {
                kids[p.as_usize()] = true;
            }
        }
    }
    let mut cursor = MaybeInitializedPlaces::new(tcx, body, &md).iterate_to_fixpoint(tcx, body, None).into_results_cursor(body);
    let mut out: Vec<String> = Vec::new();
    for (bbi, data) in body.basic_blocks.iter_enumerated() {
        let k = &data.terminator().kind;
        if !matches!(k, TerminatorKind::Yield { .. } | TerminatorKind::Drop { .. } | TerminatorKind::Return | TerminatorKind::Call { .. }) {
            continue;
        }
        let loc = rustc_middle::mir::Location { block: bbi, statement_index: data.statements.len() };
        cursor.seek_before_primary_effect(loc);
        let state = cursor.get();
        let mut here: Vec<String> = Vec::new();
        for (mpi, mp) in md.move_paths.iter_enumerated() {
            let t = &tr[mpi.as_usize()];
            if t.is_empty() {
                continue;
            }
            if state.contains(mpi) {
                let tj: Vec<String> = t.iter().map(|x| s(x)).collect();
                here.push(format!("[{},{},{}]", place_json(tcx, body, &mp.place), arr(&tj), b(kids[mpi.as_usize()])));
            }
        }
        if !here.is_empty() {
            out.push(format!("{}:{}", s(&bbi.as_usize().to_string()), arr(&here)));
        }
    }
    format!("{{{}}}", out.join(","))
}

fn extract_body<'tcx>(tcx: TyCtxt<'tcx>, def: LocalDefId) {
    {
        let mut g = SEEN.lock().unwrap();
        let set = g.get_or_insert_with(HashSet::new);
        if !set.insert(def.local_def_index.as_u32()) {
            return;
        }
    }
    let did = def.to_def_id();
    let kind = tcx.def_kind(did);
    let (steal, _) = tcx.mir_promoted(def);
    if !steal.is_stolen() {
        let body = steal.borrow();
        emit(body_json(tcx, def, &body, "promoted", None));
        let (_, proms) = tcx.mir_promoted(def);
        if !proms.is_stolen() {
            let proms = proms.borrow();
            for (pi, pb) in proms.iter_enumerated() {
                emit(body_json(tcx, def, pb, "promoted", Some(pi.as_usize())));
            }
        }
        return;
    }
    // const-like bodies may already have been consumed by const evaluation
    let constish = matches!(kind, DefKind::Const { .. } | DefKind::AssocConst { .. } | DefKind::AnonConst | DefKind::InlineConst | DefKind::Static { .. })
        || (matches!(kind, DefKind::Fn | DefKind::AssocFn) && tcx.is_const_fn(did));
    if constish {
        let body = tcx.mir_for_ctfe(def);
        emit(body_json(tcx, def, body, "ctfe", None));
    } else {
        emit(obj(&[("k", s("stolen")), ("key", s(&item_key(tcx, did))), ("path", s(&item_path(tcx, did)))]));
    }
}

// ---------------------------------------------------------------- HIR-level tables

fn tables<'tcx>(tcx: TyCtxt<'tcx>) {
    let krate = tcx.crate_name(LOCAL_CRATE).to_string();
    emit(obj(&[("k", s("crate")), ("name", s(&krate))]));
    let items = tcx.hir_crate_items(());
    for ldid in items.definitions() {
        let did = ldid.to_def_id();
        match tcx.def_kind(did) {
            DefKind::Impl { .. } => {
                let st = tcx.type_of(did).instantiate_identity().skip_norm_wip();
                let mut it: Vec<(&str, String)> = Vec::new();
                it.push(("k", s("impl")));
                it.push(("key", s(&item_key(tcx, did))));
                it.push(("crate", s(&krate)));
                it.push(("self_ty", s(&ty_str(st))));
                let self_head = match st.kind() {
                    ty::Adt(a, _) => s(&item_path(tcx, a.did())),
                    _ => "null".into(),
                };
                it.push(("self_adt", self_head));
                if let Some(tr) = tcx.impl_opt_trait_ref(did) {
                    let tr = tr.instantiate_identity().skip_norm_wip();
                    it.push(("trait", s(&item_path(tcx, tr.def_id))));
                    let targs: Vec<String> = tr.args.iter().skip(1).filter(|a| a.as_region().is_none()).map(|a| s(&with_resolve_crate_name!(with_no_visible_paths!(with_no_trimmed_paths!(format!("{}", a)))))).collect();
                    it.push(("trait_args", arr(&targs)));
                } else {
                    it.push(("trait", "null".into()));
                }
                let g = tcx.generics_of(did);
                let mut gp: Vec<String> = Vec::new();
                for p in g.own_params.iter() {
                    let kind = match p.kind {
                        ty::GenericParamDefKind::Lifetime => "lt",
                        ty::GenericParamDefKind::Type { .. } => "ty",
                        ty::GenericParamDefKind::Const { .. } => "const",
                    };
                    gp.push(format!("[{},{}]", s(p.name.as_str()), s(kind)));
                }
                it.push(("generics", arr(&gp)));
                let preds = tcx.predicates_of(did);
                let ps: Vec<String> = preds.predicates.iter().map(|(p, _)| s(&with_resolve_crate_name!(with_no_visible_paths!(with_no_trimmed_paths!(format!("{}", p)))))).collect();
                it.push(("preds", arr(&ps)));
                let mut ai: Vec<String> = Vec::new();
                for a in tcx.associated_items(did).in_definition_order() {
                    if a.opt_name().is_none() {
                        continue;
                    }
                    ai.push(format!("[{},{},{}]", s(a.name().as_str()), s(&item_key(tcx, a.def_id)), s(&format!("{:?}", a.kind.as_def_kind()))));
                }
                it.push(("items", arr(&ai)));
                let sp = tcx.def_span(did);
                it.push(("span", s(&span_str(tcx, sp))));
                it.push(("from_expansion", b(sp.from_expansion())));
                emit(obj(&it));
            }
            DefKind::Struct | DefKind::Enum | DefKind::Union => {
                let adt = tcx.adt_def(did);
                let mut it: Vec<(&str, String)> = Vec::new();
                it.push(("k", s("adt")));
                it.push(("key", s(&item_key(tcx, did))));
                it.push(("path", s(&item_path(tcx, did))));
                it.push(("crate", s(&krate)));
                it.push(("adt_kind", s(&format!("{:?}", adt.adt_kind()))));
                let mut vs: Vec<String> = Vec::new();
                for v in adt.variants().iter() {
                    let mut fs: Vec<String> = Vec::new();
                    for f in v.fields.iter() {
                        let fty = tcx.type_of(f.did).instantiate_identity().skip_norm_wip();
                        let own: Vec<String> = own_of(tcx, fty).iter().map(|x| s(x)).collect();
                        fs.push(obj(&[("name", s(f.name.as_str())), ("ty", s(&ty_str(fty))), ("own", arr(&own))]));
                    }
                    vs.push(obj(&[("name", s(v.name.as_str())), ("fields", arr(&fs))]));
                }
                it.push(("variants", arr(&vs)));
                let d = tcx.adt_destructor(did).map(|d| s(&item_key(tcx, d.did)));
                it.push(("drop", opt(d)));
                let g = tcx.generics_of(did);
                let gp: Vec<String> = g.own_params.iter().map(|p| s(p.name.as_str())).collect();
                it.push(("generics", arr(&gp)));
                it.push(("span", s(&span_str(tcx, tcx.def_span(did)))));
                emit(obj(&it));
            }
            DefKind::Fn | DefKind::AssocFn => {
                // signature table (also for bodies: parameter ownership)
                let sig = tcx.fn_sig(did).instantiate_identity().skip_norm_wip().skip_binder();
                let mut ins: Vec<String> = Vec::new();
                for t in sig.inputs().iter() {
                    let own: Vec<String> = own_of(tcx, *t).iter().map(|x| s(x)).collect();
                    ins.push(obj(&[("ty", s(&ty_str(*t))), ("own", arr(&own))]));
                }
                let out = sig.output();
                let own: Vec<String> = own_of(tcx, out).iter().map(|x| s(x)).collect();
                emit(obj(&[
                    ("k", s("sig")),
                    ("key", s(&item_key(tcx, did))),
                    ("path", s(&item_path(tcx, did))),
                    ("inputs", arr(&ins)),
                    ("output", obj(&[("ty", s(&ty_str(out))), ("own", arr(&own))])),
                    ("vis", s(&format!("{:?}", tcx.visibility(did)))),
                    ("is_unsafe", b(sig.safety().is_unsafe())),
                    ("exported", b(tcx.effective_visibilities(()).is_reachable(ldid))),
                ]));
            }
            _ => {}
        }
    }
}

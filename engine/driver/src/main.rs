// E1 — fact extractor for the qbice static checks.
//
// Runs as RUSTC_WRAPPER / RUSTC_WORKSPACE_WRAPPER. For crates whose manifest
// directory lies under one of QBV_ANALYZE_ROOTS (':'-separated) it runs rustc
// in-process with `mir_borrowck` overridden, dumps the promoted (pre drop
// elaboration, pre coroutine transform) MIR of every local body as JSON lines to
// $QBV_FACT_DIR/<crate>.jsonl, and dumps HIR-level tables (impls, ADTs).
// Everything else is passed through to the real rustc unchanged.
#![feature(rustc_private)]
#![allow(clippy::all)]

extern crate rustc_abi;
extern crate rustc_data_structures;
extern crate rustc_driver;
extern crate rustc_hir;
extern crate rustc_interface;
extern crate rustc_middle;
extern crate rustc_mir_dataflow;
extern crate rustc_index;
extern crate rustc_session;
extern crate rustc_span;

mod json;
mod extract;

use std::process::Command;

fn passthrough(rustc: &str, rest: &[String]) -> ! {
    use std::os::unix::process::CommandExt;
    let err = Command::new(rustc).args(rest).exec();
    eprintln!("qbv-driver: exec {rustc} failed: {err}");
    std::process::exit(101)
}

fn main() {
    let argv: Vec<String> = std::env::args().collect();
    // wrapper mode: argv[1] is the real rustc
    if argv.len() < 2 {
        eprintln!("qbv-driver: expected to be run as a rustc wrapper");
        std::process::exit(101);
    }
    let rustc = argv[1].clone();
    let rest: Vec<String> = argv[2..].to_vec();

    let manifest_dir = std::env::var("CARGO_MANIFEST_DIR").unwrap_or_default();
    let roots = std::env::var("QBV_ANALYZE_ROOTS").unwrap_or_default();
    let fact_dir = std::env::var("QBV_FACT_DIR").unwrap_or_default();
    let in_root = !manifest_dir.is_empty()
        && roots.split(':').filter(|r| !r.is_empty()).any(|r| {
            manifest_dir == r || manifest_dir.starts_with(&format!("{}/", r.trim_end_matches('/')))
        });
    let mut crate_name = String::new();
    let mut is_proc_macro = false;
    let mut it = rest.iter();
    while let Some(a) = it.next() {
        if a == "--crate-name" {
            if let Some(n) = it.next() {
                crate_name = n.clone();
            }
        } else if a == "--crate-type" {
            if let Some(n) = it.next() {
                if n == "proc-macro" {
                    is_proc_macro = true;
                }
            }
        }
    }
    let is_build_script = crate_name.starts_with("build_script");
    let has_print = rest.iter().any(|a| a.starts_with("--print") || a == "-vV" || a == "-V");
    if !in_root || fact_dir.is_empty() || crate_name.is_empty() || is_proc_macro || is_build_script || has_print {
        passthrough(&rustc, &rest);
    }

    let mut fixed: Vec<String> = Vec::with_capacity(rest.len() + 4);
    fixed.push(rustc);
    // drop any incremental setting: the overridden query must really run
    let mut skip = false;
    for (i, a) in rest.iter().enumerate() {
        if skip {
            skip = false;
            continue;
        }
        if a == "-C" && rest.get(i + 1).map_or(false, |n| n.starts_with("incremental=")) {
            skip = true;
            continue;
        }
        if a.starts_with("-Cincremental=") {
            continue;
        }
        fixed.push(a.clone());
    }
    fixed.push("-Zmir-opt-level=0".into());
    fixed.push("-Awarnings".into());
    let is_test = fixed.iter().any(|a| a == "--test");
    let out_name = if is_test { format!("{}__test", crate_name) } else { crate_name.clone() };
    extract::set_output(&fact_dir, &out_name);
    let mut cb = extract::Cb;
    rustc_driver::run_compiler(&fixed, &mut cb);
}

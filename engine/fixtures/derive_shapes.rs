//! Fixture universe for the derive macros of qbice (never run; type-checked under the E1 driver so that the MIR of the
//! *generated* impls can be analysed).  One type per shape of: {tuple struct, named struct, tuple variant, named variant}
//! x {no skip, skip first, skip middle, skip last, two skips} x {concrete, generic}.  Field types are pairwise different
//! inside one type where the wire shape has to tell positions apart, and equal where only the field-order rule can.
#![allow(dead_code, missing_docs, clippy::all)]
use qbice_serialize::{Decode, Encode};
use qbice_stable_hash::StableHash;

// ---------------------------------------------------------------- tuple structs
#[derive(Encode, Decode, StableHash)]
#[serialize_crate(qbice_serialize)]
#[stable_hash_crate(qbice_stable_hash)]
pub struct T0(pub u8, pub u16, pub u32);
#[derive(Encode, Decode)]
#[serialize_crate(qbice_serialize)]
pub struct TSkipFirst(#[serialize(skip)] pub u8, pub u16, pub u32);
#[derive(Encode, Decode)]
#[serialize_crate(qbice_serialize)]
pub struct TSkipMiddle(pub u8, #[serialize(skip)] pub u16, pub u32);
#[derive(Encode, Decode)]
#[serialize_crate(qbice_serialize)]
pub struct TSkipLast(pub u8, pub u16, #[serialize(skip)] pub u32);
#[derive(Encode, Decode)]
#[serialize_crate(qbice_serialize)]
pub struct TSkipTwo(#[serialize(skip)] pub u8, pub u16, #[serialize(skip)] pub u32, pub u64);
#[derive(Encode, Decode)]
#[serialize_crate(qbice_serialize)]
pub struct TSkipFirstSameTypes(#[serialize(skip)] pub u32, pub u32, pub u32);
#[derive(Encode, Decode)]
#[serialize_crate(qbice_serialize)]
pub struct TGenericSkipFirst<A, B>(#[serialize(skip)] pub u8, pub A, pub B);

// ---------------------------------------------------------------- named structs
#[derive(Encode, Decode, StableHash)]
#[serialize_crate(qbice_serialize)]
#[stable_hash_crate(qbice_stable_hash)]
pub struct N0 { pub a: u8, pub b: u16, pub c: u32 }
#[derive(Encode, Decode)]
#[serialize_crate(qbice_serialize)]
pub struct NSkipFirst { #[serialize(skip)] pub a: u8, pub b: u16, pub c: u32 }
#[derive(Encode, Decode)]
#[serialize_crate(qbice_serialize)]
pub struct NSkipMiddle { pub a: u8, #[serialize(skip)] pub b: u16, pub c: u32 }
#[derive(Encode, Decode)]
#[serialize_crate(qbice_serialize)]
pub struct NSkipLast { pub a: u8, pub b: u16, #[serialize(skip)] pub c: u32 }
#[derive(Encode, Decode)]
#[serialize_crate(qbice_serialize)]
pub struct NSameTypes { pub a: u32, #[serialize(skip)] pub b: u32, pub c: u32, pub d: u32 }
#[derive(Encode, Decode)]
#[serialize_crate(qbice_serialize)]
pub struct NGeneric<A, B> { pub a: A, #[serialize(skip)] pub skipped: u8, pub b: B }

// ---------------------------------------------------------------- enums
#[derive(Encode, Decode, StableHash)]
#[serialize_crate(qbice_serialize)]
#[stable_hash_crate(qbice_stable_hash)]
pub enum E0 { Unit, Tuple(u8, u16), Named { a: u32, b: u64 }, Last }
#[derive(Encode, Decode)]
#[serialize_crate(qbice_serialize)]
pub enum ESkips {
    TupleSkipFirst(#[serialize(skip)] u8, u16, u32),
    TupleSkipMiddle(u8, #[serialize(skip)] u16, u32),
    TupleSkipLast(u8, u16, #[serialize(skip)] u32),
    NamedSkipFirst { #[serialize(skip)] a: u8, b: u16, c: u32 },
    NamedSkipMiddle { a: u8, #[serialize(skip)] b: u16, c: u32 },
    NamedSkipLast { a: u8, b: u16, #[serialize(skip)] c: u32 },
    SameTypes(#[serialize(skip)] u32, u32, u32),
}
#[derive(Encode, Decode)]
#[serialize_crate(qbice_serialize)]
pub enum EGeneric<A, B> { Left(A), Right { #[serialize(skip)] pad: u8, value: B }, Neither }

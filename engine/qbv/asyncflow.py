"""Whole-program async facts: which coroutine may really suspend, and which coroutines
are run-to-completion (RTC) — i.e. can never be dropped half-way."""
import re

from . import dataflow as df
from .facts import op_place

SPAWN_RTC = re.compile(r"^tokio::(task::spawn::spawn|task::spawn|spawn|runtime::.*::spawn)$|^tokio::task::spawn::spawn$")
GUARDED = re.compile(r"engine::guard::GuardExt::guarded$")
JOINSET_SPAWN = re.compile(r"tokio::task::join_set::JoinSet::<T>::spawn")
# external futures that never return Pending
NEVER_PENDING = re.compile(r"^core::future::ready::ready$")


class AsyncFacts:
    def __init__(self, prog):
        self.prog = prog
        self.coros = [b for b in prog.bodies.values() if b.is_coroutine]
        self.by_key = {b.key: b for b in self.coros}
        self._creator_index()
        self._may_suspend()
        self._rtc()

    # ------------------------------------------------------------ who creates which coroutine
    def coroutine_created_by_call(self, fn):
        """Coroutine bodies whose future a call to `fn` (callee record) may return."""
        out = []
        key = fn.get("res_key") or fn.get("key")
        b = self.prog.bodies.get(key)
        cands = []
        if b is not None:
            cands.append(b)
        elif fn.get("trait"):
            name = fn["path"].rsplit("::", 1)[-1]
            cands.extend(self.prog.cha(fn["trait"], name))
        for c in cands:
            out.extend(self.returned_coroutines(c))
        return out, bool(cands)

    def returned_coroutines(self, fn_body, depth=0):
        """Coroutines a (non-coroutine) function body returns: `async fn` wrappers return
        their `{closure#0}`; helpers may return `Box::pin(async move {..})` or the result of
        another workspace call."""
        if fn_body.is_coroutine or depth > 4:
            return []
        out = []
        for o in df.origins_of_place(fn_body, [0, []]):
            if o.kind == "agg":
                rv = o.site.node["rv"]
                if rv.get("ak") == "coroutine" and rv["def"] in self.by_key:
                    out.append(self.by_key[rv["def"]])
            elif o.kind == "call":
                fn = o.site.node["fn"]
                sub, _ = self.coroutine_created_by_call(fn) if depth < 4 else ([], False)
                out.extend(sub)
        return out

    def _creator_index(self):
        """coroutine key -> list of (body, site, how) where its future value is created."""
        self.created_at = {b.key: [] for b in self.coros}
        for b in self.prog.bodies.values():
            for s in b.assigns(lambda st: st["rv"]["k"] == "agg" and st["rv"].get("ak") == "coroutine"):
                k = s.node["rv"]["def"]
                if k in self.created_at:
                    self.created_at[k].append((b, s))

    # ------------------------------------------------------------ may-suspend (least fixpoint)
    def _future_may_suspend(self, body, aw):
        """Does awaiting this future possibly return Pending?  (uses current self.suspends)"""
        res = False
        why = []
        for o in aw.origins:
            if o.kind == "call":
                fn = o.site.node["fn"]
                path = fn.get("path", "")
                if NEVER_PENDING.search(path):
                    continue
                if GUARDED.search(path):
                    res = True
                    why.append("guarded future")
                    continue
                cs, known = self.coroutine_created_by_call(fn)
                if cs:
                    for c in cs:
                        if self.suspends.get(c.key):
                            res = True
                            why.append("awaits %s" % c.name)
                elif known:
                    # workspace callee returning a non-coroutine future (e.g. a boxed one)
                    res = True
                    why.append("workspace future of unknown shape: %s" % path)
                else:
                    res = True
                    why.append("external future %s" % path)
            elif o.kind == "agg":
                rv = o.site.node["rv"]
                if rv.get("ak") == "coroutine":
                    if self.suspends.get(rv["def"]):
                        res = True
                        why.append("awaits async block")
                # other aggregates (tuples, Pin wrappers) are transparent
            elif o.kind in ("param", "yield", "unknown"):
                res = True
                why.append("future from %s" % o.kind)
        return res, why

    def _may_suspend(self):
        self.suspends = {b.key: False for b in self.coros}
        self.why_suspends = {}
        changed = True
        while changed:
            changed = False
            for b in self.coros:
                if self.suspends[b.key]:
                    continue
                for aw in df.awaits(b):
                    r, why = self._future_may_suspend(b, aw)
                    if r:
                        self.suspends[b.key] = True
                        self.why_suspends[b.key] = why
                        changed = True
                        break

    def await_may_suspend(self, body, aw):
        return self._future_may_suspend(body, aw)

    # ------------------------------------------------------------ RTC (greatest fixpoint)
    def uses_of(self, coro):
        """Classify every place where the future of `coro` is consumed.
        Returns list of (kind, body, site) with kind in
        guarded | spawn | joinset | await | escape"""
        uses = []
        # 1. direct creations (async blocks, and the async-fn wrapper returning it)
        for b, s in self.created_at.get(coro.key, []):
            if b.key == coro.parent and b.argc >= 0 and self._is_wrapper(b, coro):
                # async fn wrapper: uses are the call sites of the wrapper
                uses.extend(self._uses_of_fn(b))
            else:
                uses.extend(self._uses_of_value(b, s, "agg"))
        return uses

    def _is_wrapper(self, b, coro):
        rets = self.returned_coroutines(b)
        return any(c.key == coro.key for c in rets) and not b.is_coroutine

    def _callers(self, fn_body):
        """Call sites that may invoke fn_body (direct, resolved, or through its trait)."""
        if not hasattr(self, "_call_index"):
            idx = {}
            tidx = {}
            for b in self.prog.bodies.values():
                for s in b.calls():
                    fn = s.node["fn"]
                    for k in (fn.get("key"), fn.get("res_key")):
                        if k:
                            idx.setdefault(k, []).append(s)
                    if fn.get("trait") and not fn.get("res_key"):
                        tidx.setdefault((fn["trait"], fn["path"].rsplit("::", 1)[-1]), []).append(s)
            self._call_index, self._trait_call_index = idx, tidx
        out = list(self._call_index.get(fn_body.key, []))
        r = fn_body.rec
        if r.get("trait") and r.get("name"):
            out.extend(self._trait_call_index.get((r["trait"], r["name"]), []))
        return out

    def _uses_of_fn(self, fn_body, depth=0):
        uses = []
        callers = self._callers(fn_body)
        if not callers:
            uses.append(("escape", fn_body, None, "no caller found (public API or indirect call)"))
        if self.prog.sigs.get(fn_body.key, {}).get("exported"):
            uses.append(("escape", fn_body, None, "public function: callers outside the workspace may drop the future"))
        for s in callers:
            uses.extend(self._uses_of_value(s.body, s, "call", depth))
        return uses

    def _uses_of_value(self, b, site, how, depth=0):
        """Where does the future produced at `site` (call result / aggregate) go inside b?"""
        uses = []
        for kind, s, i in df.forward_uses(b, site):
            if kind == "return":
                if not b.is_coroutine and depth < 4:
                    uses.extend(self._uses_of_fn(b, depth + 1))
                else:
                    uses.append(("escape", b, site, "returned from a coroutine"))
            elif kind == "arg":
                fn = s.node["fn"]
                path = fn.get("path", "")
                if path.endswith("core::future::future::Future::poll"):
                    uses.append(("await", b, s, None))
                elif GUARDED.search(path):
                    uses.append(("guarded", b, s, None))
                elif JOINSET_SPAWN.search(path):
                    uses.append(("joinset", b, s, None))
                elif SPAWN_RTC.search(path):
                    uses.append(("spawn", b, s, None))
                elif path in ("core::mem::drop",) or path.endswith("::drop_in_place"):
                    continue
                else:
                    uses.append(("escape", b, s, "passed to %s" % path))
        if not uses:
            uses.append(("escape", b, site, "future value not consumed in a recognised way"))
        return uses

    def _rtc(self):
        self.rtc = {b.key: True for b in self.coros}
        self.rtc_why = {}
        self._uses = {b.key: self.uses_of(b) for b in self.coros}
        changed = True
        while changed:
            changed = False
            for b in self.coros:
                if not self.rtc[b.key]:
                    continue
                uses = self._uses[b.key]
                bad = None
                if not uses:
                    bad = "no use found"
                for kind, ub, us, note in uses:
                    if kind in ("guarded", "spawn"):
                        continue
                    if kind == "await":
                        if ub.is_coroutine and self.rtc.get(ub.key):
                            continue
                        bad = "awaited in non-RTC %s" % ub.name
                        break
                    if kind == "joinset":
                        bad = "spawned on a JoinSet (aborted when the set is dropped) in %s" % ub.name
                        break
                    bad = "%s in %s" % (note or kind, ub.name)
                    break
                if bad:
                    self.rtc[b.key] = False
                    self.rtc_why[b.key] = bad
                    changed = True

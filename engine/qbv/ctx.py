"""Obligation bookkeeping shared by all rule modules."""
import json
import os
import time

from .facts import AnchorMissing, EngineError, Program, Site
from . import extract


class Obligation:
    def __init__(self, clause, key, kind, desc):
        self.clause, self.key, self.kind, self.desc = clause, key, kind, desc
        self.status = "discharged"
        self.where = None
        self.what = None
        self.detail = None
        self.sites = 0

    def to_json(self):
        d = {"clause": self.clause, "key": self.key, "kind": self.kind, "rule": self.desc, "status": self.status,
             "sites_examined": self.sites}
        if self.where:
            d["where"] = self.where
        if self.what:
            d["what"] = self.what
        if self.detail:
            d["detail"] = self.detail
        return d


class Ctx:
    def __init__(self, prop, tier, remap=None, key_prefix=""):
        self.prop = prop
        self.tier = tier
        # thorough tier: a second pass evaluates every rule on another build shape (`remap`), its obligations
        # carrying `key_prefix`
        self.remap = remap or {}
        self.key_prefix = key_prefix
        self.obligations = []
        self._progs = {}
        self.not_decided = []
        self.assumptions = []
        self.notes = []
        self.bodies_touched = set()
        self.call_sites = 0
        self.t0 = time.time()

    # ---------------------------------------------------------------- programs
    def program(self, shape="main"):
        shape = self.remap.get(shape, shape)
        if shape not in self._progs:
            d = extract.facts_for(shape)
            self._progs[shape] = Program([d])
        return self._progs[shape]

    @property
    def prog(self):
        return self.program("main")

    @property
    def af(self):
        """Whole-program async facts (may-suspend, run-to-completion) for S-main."""
        if not hasattr(self, "_af"):
            from .asyncflow import AsyncFacts
            self._af = AsyncFacts(self.prog)
        return self._af

    # ---------------------------------------------------------------- obligations
    def ob(self, clause, key, kind, desc):
        clause = getattr(self, "alias", {}).get(clause, clause)
        o = Obligation(clause, "%s/%s%s" % (clause, self.key_prefix, key), kind, desc)
        self.obligations.append(o)
        return o

    def fail(self, o, where, what, detail=None):
        o.status = "violated"
        if isinstance(where, Site):
            self.bodies_touched.add(where.body.key)
            where = where.loc()
        if o.where is None:
            o.where = where
            o.what = what
            o.detail = detail
        else:
            o.detail = (o.detail or "") + " | also: %s: %s" % (where, what)

    def run_clause(self, clause, fn):
        """Runs a clause function; a missing anchor fails closed as a violation of
        the coverage obligation, naming the anchor."""
        try:
            fn(self)
        except AnchorMissing as e:
            o = self.ob(clause, "anchor-missing/%s" % e.what, "coverage", "every frozen anchor must be present")
            self.fail(o, "(program)", "anchor missing: %s — the rule cannot be evaluated; failing closed" % e.what)

    def touch(self, body):
        self.bodies_touched.add(body.key)
        return body

    # ---------------------------------------------------------------- generic rule kinds
    def floor(self, o, sites, n, what):
        """Coverage floor: at least n matching sites, else the rule is vacuous."""
        o.sites += len(sites)
        self.call_sites += len(sites)
        if len(sites) < n:
            self.fail(o, "(program)", "coverage floor not met: expected at least %d %s, found %d" % (n, what, len(sites)))
            return False
        return True

    def k1_precede(self, o, body, firsts, thens, what):
        """Every site in `thens` is dominated by some site in `firsts`."""
        self.touch(body)
        for b in thens:
            if not any(body.site_dominates(a, b) for a in firsts):
                self.fail(o, b, "%s (in %s)" % (what, body.name))

    def k2_must_pass(self, o, body, from_bbs, via_sites, what, to_bbs=None):
        self.touch(body)
        bad = body.must_pass(from_bbs, [s.bb for s in via_sites], to_bbs)
        for t in bad:
            self.fail(o, Site(body, t, len(body.blocks[t]["stmts"])), "%s (in %s)" % (what, body.name))
        return not bad

"""Intra-procedural value-flow helpers over the extracted MIR (flow-insensitive
def-use closure; MIR temporaries are almost always single-assignment, which makes
this precise enough for "derives from" links) and predicate recognisers."""
import re

from .facts import Site, op_local, op_place

# callees through which a value "is the same value" for the purpose of origin tracking.
# entry: regex on callee path -> list of argument indices that flow to the result (None = all)
TRANSPARENT = [
    (r"core::ops::deref::Deref(Mut)?::deref(_mut)?$", None),
    (r"core::clone::Clone::clone$", None),
    (r"core::convert::(Into::into|From::from|AsRef::as_ref|AsMut::as_mut)$", None),
    (r"core::borrow::Borrow(Mut)?::borrow(_mut)?$", None),
    (r"core::future::into_future::IntoFuture::into_future$", None),
    (r"core::future::future::Future::poll$", [0]),
    (r"core::pin::Pin::<Ptr>::(new_unchecked|new|as_mut|get_mut|get_unchecked_mut|into_inner|map_unchecked_mut|set)$", None),
    (r"core::ops::try_trait::Try::branch$", None),
    (r"core::ops::try_trait::FromResidual::from_residual$", None),
    (r"core::option::Option::<[^>]*>::(unwrap|expect|as_ref|as_mut|take|cloned|copied|unwrap_or_else|unwrap_or|as_deref|as_deref_mut|unwrap_unchecked|ok_or|ok_or_else|as_pin_mut|map|inspect|filter)$", [0]),
    (r"core::result::Result::<T, E>::(unwrap|expect|as_ref|as_mut|ok|unwrap_or_else|map_err)$", [0]),
    (r"alloc::sync::Arc::<T(, A)?>::(new|pin)$", None),
    (r"alloc::boxed::Box::<T>::(new|pin)$", None),
    (r"core::mem::manually_drop::ManuallyDrop::<T>::(new|into_inner|take)$", None),
    (r"core::mem::(take|replace)$", [0]),
    (r"tokio::sync::(mutex::Mutex|rwlock::RwLock)::<T>::(new|into_inner)$", None),
    (r"parking_lot::.*::(new|into_inner)$", None),
    (r"alloc::sync::Arc::<T(, A)?>::(try_unwrap|into_inner|downgrade)$", None),
    (r"core::iter::traits::collect::IntoIterator::into_iter$", None),
    (r"core::iter::traits::iterator::Iterator::(next|copied|cloned|by_ref|enumerate|map|filter|filter_map|flat_map|take|skip|chain|rev|peekable|fuse|inspect)$", [0]),
    (r"core::sync::atomic::Atomic::<[^>]*>::new$", None),
    (r"core::slice::<impl \[T\]>::(iter|iter_mut|as_ref)$", None),
    (r"alloc::vec::Vec::<T(, A)?>::(iter|iter_mut|as_slice|as_mut_slice|drain)$", [0]),
    (r"core::cell::RefCell::<T>::(borrow|borrow_mut)$", None),
    (r"OccupiedEntry::<[^:]*>::(get|get_mut|into_mut|key)$", [0]),
]
_TRANSPARENT_RX = [(re.compile(p), idx) for p, idx in TRANSPARENT]


def transparent_args(fn, extra=()):
    path = fn.get("path", "")
    for rx, idx in list(extra) + _TRANSPARENT_RX:
        if isinstance(rx, str):
            rx = re.compile(rx)
        if rx.search(path):
            return idx if idx is not None else "all"
    return None


class Origin:
    """kind in {param, call, const, agg, yield, unknown}; site for call/agg/yield."""
    __slots__ = ("kind", "site", "info")

    def __init__(self, kind, site=None, info=None):
        self.kind, self.site, self.info = kind, site, info

    def key(self):
        return (self.kind, self.site, str(self.info))

    def __eq__(self, o):
        return isinstance(o, Origin) and self.key() == o.key()

    def __hash__(self):
        return hash(self.key())

    def callee(self):
        if self.kind == "call":
            return self.site.node["fn"].get("path")
        return None

    def __repr__(self):
        if self.kind == "call":
            return "call:%s@L%d" % (self.callee(), self.site.line)
        if self.kind == "agg":
            rv = self.site.node["rv"]
            return "agg:%s@L%d" % (rv.get("adt") or rv.get("def") or rv.get("ak"), self.site.line)
        return "%s:%s" % (self.kind, self.info)


def _const_info(c):
    if "promoted" in c:
        return "promoted[%s]" % c["promoted"]
    return c.get("s") or (c.get("fn") or {}).get("path")


def origins_of_operand(body, op, extra_transparent=(), through_agg=True, stop_at=None):
    c = op.get("c")
    if c is not None:
        return {Origin("const", None, _const_info(c))}
    p = op_place(op)
    if p is None:
        return {Origin("unknown", None, str(op))}
    return origins_of_place(body, p, extra_transparent, through_agg, stop_at)


def _fields(proj):
    """Field / variant steps of a projection (derefs and casts are transparent)."""
    return tuple(e for e in proj if e.startswith("f:") or e.startswith("d:"))


def _field_idx(e):
    return int(e.rsplit("#", 1)[1])


def origins_of_place(body, place, extra_transparent=(), through_agg=True, stop_at=None):
    """Origins of the value stored at `place`.  Field-sensitive across tuple/ADT aggregates:
    `x = (a, b); y = x.1` gives the origins of `b` only."""
    out = set()
    seen = set()
    work = [(place[0], _fields(place[1]))]
    while work:
        l, proj = work.pop()
        if (l, proj) in seen:
            continue
        seen.add((l, proj))
        if 1 <= l <= body.argc:
            fields = [e for e in proj if e.startswith("f:")]
            out.add(Origin("param", None, "_%d%s" % (l, ("." + fields[0][2:].split("#")[0]) if fields else "")))
            # parameters can also be re-assigned; fall through to defs
        defs = body.defs.get(l, [])
        if not defs and not (1 <= l <= body.argc):
            out.add(Origin("unknown", None, "_%d" % l))
        for site, kind, node in defs:
            if stop_at is not None and stop_at(site, kind, node):
                out.add(Origin("stop", site, None))
                continue
            if kind == "assign":
                lp = _fields(node["lhs"][1])
                rest = proj
                if lp:
                    # a partial assignment `l.f = ...`: relevant if we look at the whole of l or at that field
                    if proj and proj[:len(lp)] != lp and lp[:len(proj)] != proj:
                        continue
                    rest = proj[len(lp):] if proj[:len(lp)] == lp else ()
                rv = node["rv"]
                k = rv["k"]
                if k in ("use", "repeat", "cast"):
                    o = rv["op"]
                    c = o.get("c")
                    if c is not None:
                        out.add(Origin("const", None, _const_info(c)))
                    else:
                        pl = op_place(o)
                        if pl is not None:
                            work.append((pl[0], _fields(pl[1]) + rest))
                elif k in ("ref", "rawptr", "disc"):
                    pl = rv["pl"]
                    work.append((pl[0], _fields(pl[1]) + rest))
                elif k == "agg":
                    out.add(Origin("agg", site, None))
                    if through_agg:
                        ops = list(enumerate(rv["ops"]))
                        sel = rest
                        if sel and rv.get("ak") in ("tuple", "adt", "closure", "coroutine"):
                            steps = list(sel)
                            if steps and steps[0].startswith("d:"):
                                if rv.get("ak") == "adt" and _field_idx(steps[0]) != int(rv.get("variant", 0)):
                                    continue
                                steps = steps[1:]
                            if steps and steps[0].startswith("f:"):
                                i = _field_idx(steps[0])
                                ops = [(i, rv["ops"][i])] if i < len(rv["ops"]) else []
                                sel = tuple(steps[1:])
                            else:
                                sel = tuple(steps)
                        else:
                            sel = ()
                        for i, o in ops:
                            pl = op_place(o)
                            if pl is not None:
                                work.append((pl[0], _fields(pl[1]) + sel))
                            elif o.get("c") is not None:
                                out.add(Origin("const", None, _const_info(o["c"])))
                elif k in ("bin", "un"):
                    out.add(Origin("bin", site, rv["op"]))
                    for key in ("a", "b"):
                        if key in rv:
                            pl = op_place(rv[key])
                            if pl is not None:
                                work.append((pl[0], _fields(pl[1])))
                            elif rv[key].get("c") is not None:
                                out.add(Origin("const", None, rv[key]["c"].get("s")))
                else:
                    out.add(Origin("unknown", site, k))
            elif kind == "call":
                fn = node["fn"]
                if "path" not in fn:
                    out.add(Origin("call", site, None))
                    continue
                tr = transparent_args(fn, extra_transparent)
                if tr is None:
                    out.add(Origin("call", site, None))
                else:
                    args = node["args"]
                    idxs = range(len(args)) if tr == "all" else tr
                    any_followed = False
                    for i in idxs:
                        if i < len(args):
                            pl = op_place(args[i])
                            if pl is not None:
                                # wrappers like Some/unwrap/deref change the shape: drop the pending field path
                                work.append((pl[0], _fields(pl[1])))
                                any_followed = True
                            elif args[i].get("c") is not None:
                                out.add(Origin("const", None, _const_info(args[i]["c"])))
                                any_followed = True
                    if not any_followed:
                        out.add(Origin("call", site, None))
            elif kind == "yield":
                out.add(Origin("yield", site, None))
    return out


def call_origins(body, op_or_place, pattern=None, **kw):
    """Origins that are calls (optionally restricted to callee pattern)."""
    if isinstance(op_or_place, dict):
        os_ = origins_of_operand(body, op_or_place, **kw)
    else:
        os_ = origins_of_place(body, op_or_place, **kw)
    rx = re.compile(pattern) if pattern else None
    return [o for o in os_ if o.kind == "call" and (rx is None or rx.search(o.callee() or ""))]


# ---------------------------------------------------------------- await map

def awaited_by_yield(body, ysite):
    """For a Yield terminator in a coroutine: the `Future::poll` call that guards it and the
    origins of the polled future."""
    dom = body.dominators().get(ysite.bb, set())
    polls = [s for s in body.calls_to(r"core::future::future::Future::poll$") if s.bb in dom]
    if not polls:
        return None, set()
    # nearest dominating poll = the one dominated by all the others
    best = polls[0]
    for p in polls[1:]:
        if body.bb_dominates(best.bb, p.bb):
            best = p
    t = best.node
    fut = origins_of_operand(body, t["args"][0])
    return best, fut


# ---------------------------------------------------------------- predicates

class Cond:
    """Description of what a SwitchInt tests."""

    def __init__(self, kind, **kw):
        self.kind = kind
        self.__dict__.update(kw)

    def __repr__(self):
        return "Cond(%s)" % ", ".join("%s=%r" % kv for kv in self.__dict__.items())


def switch_cond(body, bb):
    """Resolve the operand of the SwitchInt ending block bb to a Cond:
      call:  result of a bool-returning call (callee path, args, site), with `negated` flag
      disc:  discriminant of a place (adt path, place)
      bin:   comparison BinaryOp (op, a, b)
      value: plain integer/bool local (e.g. matching on a just-read value)
    """
    t = body.blocks[bb]["term"]
    assert t["k"] == "switch"
    return _resolve_cond(body, t["op"], False, set())


def _resolve_cond(body, op, negated, seen):
    l = op_local(op)
    if l is None:
        return Cond("const", op=op, negated=negated)
    if l in seen:
        return Cond("value", local=l, negated=negated)
    seen.add(l)
    defs = body.defs.get(l, [])
    if len(defs) != 1:
        return Cond("value", local=l, negated=negated, ndefs=len(defs))
    site, kind, node = defs[0]
    if kind == "call":
        fn = node["fn"]
        path = fn.get("path", "")
        if path.endswith("core::ops::bit::Not::not"):
            return _resolve_cond(body, node["args"][0], not negated, seen)
        return Cond("call", callee=path, fn=fn, args=node["args"], site=site, negated=negated)
    if kind == "assign":
        rv = node["rv"]
        k = rv["k"]
        if k == "use":
            return _resolve_cond(body, rv["op"], negated, seen)
        if k == "un" and rv["op"] == "Not":
            return _resolve_cond(body, rv["a"], not negated, seen)
        if k == "disc":
            return Cond("disc", place=rv["pl"], adt=rv.get("adt"), site=site, negated=negated)
        if k == "bin":
            return Cond("bin", op=rv["op"], a=rv["a"], b=rv["b"], site=site, negated=negated)
        if k == "cast":
            return _resolve_cond(body, rv["op"], negated, seen)
    return Cond("value", local=l, negated=negated)


def switch_edges(body, bb):
    """[(value or 'otherwise', target_bb)] of a switch."""
    t = body.blocks[bb]["term"]
    out = [(int(v), tb) for v, tb in t["targets"]]
    out.append(("otherwise", t["otherwise"]))
    return out


def bool_edges(body, bb):
    """For a switch on a bool: (true_target, false_target)."""
    t = body.blocks[bb]["term"]
    tv = {int(v): tb for v, tb in t["targets"]}
    if 0 in tv:
        return t["otherwise"], tv[0]
    if 1 in tv:
        return tv[1], t["otherwise"]
    return None, None


def switches(body):
    return [bi for bi in sorted(body.live_blocks)
            if body.blocks[bi]["term"]["k"] == "switch" and not body.blocks[bi]["cleanup"]]


def guarded_by(body, target_bb, pred):
    """All (switch_bb, value, edge_target, cond) such that the edge dominates target_bb and
    pred(cond) holds."""
    out = []
    for sb in switches(body):
        c = switch_cond(body, sb)
        if not pred(c):
            continue
        for v, tb in switch_edges(body, sb):
            # collapse multiple values to same target: edge identity is (sb, tb)
            others = [tb2 for v2, tb2 in switch_edges(body, sb) if tb2 != tb]
            if not others:
                continue
            if body.edge_dominates((sb, tb), target_bb) and target_bb in body.reachable([tb]):
                out.append((sb, v, tb, c))
    return out


# ---------------------------------------------------------------- access paths

LOCK_ACQUIRE = re.compile(
    r"tokio::sync::(rwlock::RwLock::<T>::(read|write|read_owned|write_owned|try_read|try_write)|mutex::Mutex::<T>::(lock|try_lock|lock_owned))$"
    r"|lock_api::(rwlock::RwLock|mutex::Mutex)::<R, T>::(read|write|lock|upgradable_read|try_read|try_write|try_lock)$"
    r"|qbice_storage::sharded::Sharded::<T>::(read_shard|write_shard)$"
    r"|core::cell::RefCell::<T>::(borrow|borrow_mut)$")


def access_path(body, op_or_place, depth=0):
    """Field names on the way from a root to the place an operand refers to, following
    single-def chains through refs, copies and Deref calls:  &(*_12).timestamp where
    _12 = deref(&(*_14).sync) ...  ->  [..., 'sync', 'timestamp']"""
    if depth > 40:
        return []
    if isinstance(op_or_place, dict):
        pl = op_place(op_or_place)
        if pl is None:
            return []
    else:
        pl = op_or_place
    l, proj = pl
    fields = [e[2:].split("#")[0] for e in proj if e.startswith("f:")]
    defs = body.defs.get(l, [])
    if 1 <= l <= body.argc and not defs:
        return ["<param _%d>" % l] + fields
    if len(defs) != 1:
        return ["<_%d>" % l] + fields
    site, kind, node = defs[0]
    if kind == "assign":
        rv = node["rv"]
        if rv["k"] in ("ref", "rawptr"):
            return access_path(body, rv["pl"], depth + 1) + fields
        if rv["k"] in ("use", "cast"):
            if op_place(rv["op"]) is not None:
                return access_path(body, rv["op"], depth + 1) + fields
    elif kind == "call":
        fn = node["fn"]
        if transparent_args(fn) is not None and node["args"]:
            return access_path(body, node["args"][0], depth + 1) + fields
        if LOCK_ACQUIRE.search(fn.get("path", "")) and node["args"]:
            # the guard gives access to what the lock protects: keep the path of the lock
            return access_path(body, node["args"][0], depth + 1) + ["<locked>"] + fields
        return ["<call %s>" % fn.get("path", "?")] + fields
    return ["<_%d>" % l] + fields


# ---------------------------------------------------------------- awaits

class Await:
    """One `.await`: the call (or aggregate) that created the future, the poll site, the
    Yield site and the CFG edge taken when the future is Ready."""

    def __init__(self, body, poll, yields, origins, ready_edge):
        self.body, self.poll, self.yields, self.origins, self.ready_edge = body, poll, yields, origins, ready_edge

    def creator_calls(self):
        return [o.site for o in self.origins if o.kind == "call"]

    def creator_paths(self):
        return [o.callee() for o in self.origins if o.kind == "call"]

    def completed_before(self, site):
        """True iff `site` can only be reached after this await returned Ready."""
        if self.ready_edge is None:
            return False
        b = self.body
        if site.bb == self.ready_edge[1] or b.edge_dominates(self.ready_edge, site.bb):
            return site.bb in b.reachable([self.ready_edge[1]])
        return False

    def __repr__(self):
        return "Await(%s @L%d)" % (self.origins, self.poll.line)


def awaits(body):
    """All awaits of a coroutine body."""
    if hasattr(body, "_awaits"):
        return body._awaits
    out = []
    for p in body.calls_to(r"core::future::future::Future::poll$"):
        t = p.node
        if t["t"] is None:
            continue
        nb = t["t"]
        # the block after poll switches on the discriminant of the Poll result
        ready_edge = None
        ys = []
        if body.blocks[nb]["term"]["k"] == "switch":
            c = switch_cond(body, nb)
            if c.kind == "disc":
                for v, tb in switch_edges(body, nb):
                    if v == 0:
                        ready_edge = (nb, tb)
                    elif v == 1:
                        # Pending arm: leads to the Yield
                        r = body.reachable([tb], stop=set(s.bb for s in body.yields()))
                        ys = [y for y in body.yields() if y.bb in r]
        fut = origins_of_operand(body, t["args"][0])
        out.append(Await(body, p, ys, fut, ready_edge))
    body._awaits = out
    return out


def await_of_call(body, call_site):
    """The Await whose future was created by call_site (None if not awaited here)."""
    for a in awaits(body):
        if any(s == call_site for s in a.creator_calls()):
            return a
    return None


# ---------------------------------------------------------------- forward flow of a value

FWD_TRANSPARENT = re.compile(
    r"core::future::into_future::IntoFuture::into_future$|core::pin::Pin::<Ptr>::|alloc::boxed::Box::<T>::(new|pin)$"
    r"|tracing::instrument::Instrument::(instrument|in_current_span)$|core::convert::(Into::into|From::from)$"
    r"|core::ops::deref::Deref(Mut)?::deref(_mut)?$|core::pin::pin::Pin")


def forward_uses(body, start_site):
    """Follows the value produced at start_site (call result or assignment) forward through
    moves, borrows, aggregates and wrapper calls.  Returns events:
      ('arg', call_site, arg_index)   value handed to a non-transparent call
      ('return', None, None)          value flows to the return place
      ('agg', site, None)             value stored into an aggregate (tracking continues)
    """
    node = start_site.node
    if start_site.is_term:
        start_local = node["dest"][0]
    else:
        start_local = node["lhs"][0]
    events = []
    seen = set()
    work = [start_local]
    while work:
        l = work.pop()
        if l in seen:
            continue
        seen.add(l)
        if l == 0:
            events.append(("return", None, None))
            continue
        for bi in sorted(body.live_blocks):
            blk = body.blocks[bi]
            if blk["cleanup"]:
                continue
            for si, st in enumerate(blk["stmts"]):
                if st["k"] != "assign":
                    continue
                rv = st["rv"]
                k = rv["k"]
                uses = False
                if k in ("use", "cast", "repeat"):
                    uses = op_local(rv["op"]) == l
                elif k in ("ref", "rawptr"):
                    uses = rv["pl"][0] == l
                elif k == "agg":
                    uses = any(op_local(o) == l for o in rv["ops"])
                    if uses:
                        events.append(("agg", Site(body, bi, si), None))
                if uses:
                    work.append(st["lhs"][0])
            t = blk["term"]
            if t["k"] == "call":
                for i, a in enumerate(t["args"]):
                    if op_local(a) == l:
                        fn = t["fn"]
                        path = fn.get("path", "")
                        if path and FWD_TRANSPARENT.search(path):
                            work.append(t["dest"][0])
                        else:
                            events.append(("arg", Site(body, bi, len(blk["stmts"])), i))
    return events


# ---------------------------------------------------------------- captured variables

def creator_of_closure(prog, body):
    """(parent_body, aggregate_site) that builds this closure/coroutine value."""
    if not body.parent or body.parent not in prog.bodies:
        return None, None
    parent = prog.bodies[body.parent]
    for s in parent.assigns(lambda st: st["rv"]["k"] == "agg" and st["rv"].get("ak") in ("closure", "coroutine") and st["rv"].get("def") == body.key):
        return parent, s
    return parent, None


def origins_deep(prog, body, op_or_place, depth=0, **kw):
    """Like origins_of_*, but an origin that is a captured variable of a closure/coroutine
    (`_1.N`) is resolved in the body that created the closure (recursively)."""
    if isinstance(op_or_place, dict):
        os_ = origins_of_operand(body, op_or_place, **kw)
    else:
        os_ = origins_of_place(body, op_or_place, **kw)
    out = set()
    for o in os_:
        if o.kind == "param" and depth < 5 and body.parent and str(o.info).startswith("_1."):
            parent, agg = creator_of_closure(prog, body)
            try:
                idx = int(str(o.info).split(".", 1)[1])
            except ValueError:
                idx = None
            if agg is not None and idx is not None and idx < len(agg.node["rv"]["ops"]):
                sub = origins_deep(prog, parent, agg.node["rv"]["ops"][idx], depth + 1, **kw)
                out |= sub
                continue
        out.add(o)
    return out


# ---------------------------------------------------------------- equality tests

class Desc:
    """What an operand is made of: callee names (last two path segments) of the calls it
    derives from, field names on its access path, constants, parameters."""

    def __init__(self, body, op, prog=None):
        self.calls, self.consts, self.params, self.aggs = set(), set(), set(), set()
        os_ = origins_deep(prog, body, op) if prog is not None else origins_of_operand(body, op)
        for o in os_:
            if o.kind == "call":
                p = o.callee() or ""
                segs = [x for x in re.sub(r"<[^<>]*>", "", re.sub(r"<[^<>]*>", "", p)).split("::") if x]
                self.calls.add("::".join(segs[-2:]))
                self.calls.add(segs[-1] if segs else "")
            elif o.kind == "const":
                self.consts.add(str(o.info))
                m = re.match(r"promoted\[(\d+)\]$", str(o.info))
                if m and body.prog is not None:
                    self.aggs |= body.prog.promoted_aggs(body.key, int(m.group(1)))
            elif o.kind == "param":
                self.params.add(str(o.info))
            elif o.kind == "agg":
                rv = o.site.node["rv"]
                self.aggs.add("%s::%s" % ((rv.get("adt") or rv.get("ak") or "").split("::")[-1], rv.get("vname", "")))
        self.fields = access_path(body, op) if op_place(op) is not None else []

    def has(self, name):
        return name in self.calls or name in self.fields or any(name in a for a in self.aggs)

    def __repr__(self):
        return "Desc(calls=%s fields=%s consts=%s params=%s aggs=%s)" % (sorted(self.calls), self.fields, sorted(self.consts), sorted(self.params), sorted(self.aggs))


def equality_edges(body, prog=None):
    """[(switch_bb, target_bb, 'eq'|'ne', Desc a, Desc b)] for every switch that tests the result of
    PartialEq::eq/ne or an Eq/Ne BinaryOp."""
    if hasattr(body, "_eq_edges") and prog is None:
        return body._eq_edges
    out = []
    for sb in switches(body):
        c = switch_cond(body, sb)
        a = b = None
        is_eq = None
        if c.kind == "call" and re.search(r"core::cmp::PartialEq::(eq|ne)$", c.callee):
            is_eq = c.callee.endswith("::eq")
            a, b = c.args[0], c.args[1]
        elif c.kind == "bin" and c.op in ("Eq", "Ne"):
            is_eq = c.op == "Eq"
            a, b = c.a, c.b
        if is_eq is None:
            continue
        if c.negated:
            is_eq = not is_eq
        tt, ft = bool_edges(body, sb)
        if tt is None:
            continue
        da, db = Desc(body, a, prog), Desc(body, b, prog)
        out.append((sb, tt, "eq" if is_eq else "ne", da, db))
        out.append((sb, ft, "ne" if is_eq else "eq", da, db))
    if prog is None:
        body._eq_edges = out
    return out


def dominated_by_equality(body, bb, want, pred, prog=None):
    """Is block bb reachable only through an edge on which `a (want) b` holds for operands
    matching pred(Desc a, Desc b) (order-insensitive)?"""
    for sb, tb, rel, da, db in equality_edges(body, prog):
        if rel != want:
            continue
        if not (pred(da, db) or pred(db, da)):
            continue
        if (bb == tb or body.edge_dominates((sb, tb), bb)) and bb in body.reachable([tb]):
            return True
    return False


TWO_VARIANT = {"core::option::Option": 2, "core::result::Result": 2, "core::task::poll::Poll": 2, "core::ops::control_flow::ControlFlow": 2,
               "std::collections::hash::map::Entry": 2, "scc::hash_map::Entry": 2}


def variant_edges(body, adt_suffix):
    """[(switch_bb, target_bb, variant_index or 'otherwise', Cond)] for switches on the discriminant
    of an enum whose path ends with adt_suffix.  When exactly one variant is not listed explicitly,
    the `otherwise` edge is reported under that variant's index."""
    out = []
    for sb in switches(body):
        c = switch_cond(body, sb)
        if c.kind == "disc" and c.adt and c.adt.endswith(adt_suffix):
            edges = switch_edges(body, sb)
            explicit = [v for v, _ in edges if v != "otherwise"]
            nvar = TWO_VARIANT.get(c.adt)
            if nvar is None and body.prog is not None and c.adt in body.prog.adts:
                nvar = len(body.prog.adts[c.adt]["variants"])
            missing = [i for i in range(nvar) if i not in explicit] if nvar else []
            for v, tb in edges:
                if v == "otherwise" and len(missing) == 1:
                    # skip an `otherwise` that only leads to `unreachable`
                    out.append((sb, tb, missing[0], c))
                elif v == "otherwise" and not missing and nvar:
                    continue
                else:
                    out.append((sb, tb, v, c))
    return out


def dominated_by_variant(body, bb, adt_suffix, variants, place_pred=None):
    """bb reachable only via an edge selecting one of `variants` (indices) of the enum."""
    edges = variant_edges(body, adt_suffix)
    by_switch = {}
    for sb, tb, v, c in edges:
        by_switch.setdefault(sb, []).append((tb, v, c))
    for sb, lst in by_switch.items():
        if place_pred is not None and not place_pred(lst[0][2]):
            continue
        explicit = [v for _, v, _ in lst if v != "otherwise"]
        good_targets = set()
        for tb, v, c in lst:
            if v in variants:
                good_targets.add(tb)
            elif v == "otherwise":
                pass
        if not good_targets:
            continue
        # all paths to bb go through one of the good edges of this switch
        bad_edges = [(sb, tb) for tb, v, c in lst if tb not in good_targets]
        good_edges = [(sb, tb) for tb in good_targets]
        if not body.unreachable_without(good_edges, bb):
            continue
        return True
    return False


# ---------------------------------------------------------------- loops over iterators / option-producing calls

class Loop:
    def __init__(self, body, head, some, none, src):
        self.body, self.head, self.some, self.none, self.src = body, head, some, none, src

    def region(self):
        """Blocks of one iteration: reachable from the Some target without passing the head."""
        return self.body.reachable([self.some], removed_nodes=[self.head.bb])

    def src_calls(self):
        return [o.callee() or "" for o in self.src if o.kind == "call"]

    def __repr__(self):
        return "Loop(head=%r some=bb%s none=bb%s src=%s)" % (self.head, self.some, self.none, self.src)


def option_switch_after(body, site):
    """If the value produced at call `site` is matched as an Option right away, return
    (switch_bb, some_target, none_target)."""
    t = site.node
    dest = t["dest"][0]
    for sb in switches(body):
        c = switch_cond(body, sb)
        if c.kind == "disc" and c.place[0] == dest and c.adt == "core::option::Option" and body.bb_dominates(site.bb, sb):
            some = none = None
            for v, tb in switch_edges(body, sb):
                if v == 1:
                    some = tb
                elif v == 0:
                    none = tb
            if some is None or none is None:
                other = [tb for v, tb in switch_edges(body, sb) if v == "otherwise"][0]
                if some is None:
                    some = other
                else:
                    none = other
            return sb, some, none
    return None


def iter_loops(body):
    out = []
    for s in body.calls_to(r"core::iter::traits::iterator::Iterator::next$"):
        sw = option_switch_after(body, s)
        if sw is None:
            continue
        sb, some, none = sw
        # it is a loop only if the head is reachable again from the Some arm
        if s.bb not in body.reachable([some]):
            continue
        src = origins_of_operand(body, s.node["args"][0])
        out.append(Loop(body, s, some, none, src))
    return out


def await_loops(body, callee_pattern):
    """`while let Some(x) = <callee>().await` loops: head = the call creating the future."""
    out = []
    for s in body.calls_to(callee_pattern):
        aw = await_of_call(body, s)
        if aw is None or aw.ready_edge is None:
            continue
        # the Ready value is moved into a local that is matched as Option
        for sb in switches(body):
            c = switch_cond(body, sb)
            if c.kind != "disc" or c.adt != "core::option::Option":
                continue
            if not body.edge_dominates(aw.ready_edge, sb):
                continue
            os_ = origins_of_place(body, c.place)
            if not any(o.kind == "call" and o.site == s for o in os_):
                continue
            some = none = None
            for v, tb in switch_edges(body, sb):
                if v == 1:
                    some = tb
                elif v == 0:
                    none = tb
            other = [tb for v, tb in switch_edges(body, sb) if v == "otherwise"]
            if some is None and other:
                some = other[0]
            if none is None and other:
                none = other[0]
            if s.bb in body.reachable([some]):
                out.append(Loop(body, s, some, none, origins_of_operand(body, s.node["args"][0])))
            break
    return out

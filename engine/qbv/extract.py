"""Runs the E1 driver over /repo (or $QBV_REPO) and caches the fact files per tree hash."""
import fcntl
import glob
import hashlib
import os
import shutil
import subprocess
import time

from .facts import EngineError

VERIF = os.path.dirname(os.path.dirname(os.path.dirname(os.path.abspath(__file__))))
CACHE = os.environ.get("QBV_CACHE", os.path.join(VERIF, ".cache"))
DRIVER_DIR = os.path.join(VERIF, "engine", "driver")
DRIVER = os.path.join(DRIVER_DIR, "target", "debug", "qbv-driver")

SHAPES = {
    # name: (cargo args, crates whose fact files must exist)
    "main": (["-p", "qbice", "--no-default-features", "--features", "fjall,smallvec,bitvec"],
             ["qbice", "qbice_storage", "qbice_serialize", "qbice_stable_hash", "qbice_stable_type_id"]),
    # unit-test build of the serializer: its test module holds the derive fixtures (unit/tuple/named structs,
    # enums with unit/tuple/struct variants, generics, #[serialize(skip)])
    "sertest": (["-p", "qbice_serialize", "--tests", "--features", "smallvec,bitvec"],
                ["qbice_serialize__test"]),
    "rocks": (["--workspace"],
              ["qbice", "qbice_storage", "qbice_serialize", "qbice_stable_hash", "qbice_stable_type_id",
               "qbice_integration_test"]),
}


def repo_root():
    return os.environ.get("QBV_REPO", "/repo")


def sysroot():
    return subprocess.check_output(["rustc", "+nightly", "--print", "sysroot"], text=True).strip()


def tree_hash(root):
    h = hashlib.sha256()
    files = []
    for base in ("Cargo.lock", "Cargo.toml"):
        p = os.path.join(root, base)
        if os.path.exists(p):
            files.append(p)
    for dp, dn, fn in os.walk(os.path.join(root, "crates")):
        dn[:] = [d for d in dn if d not in ("target", ".git")]
        for f in fn:
            if f.endswith(".rs") or f == "Cargo.toml":
                files.append(os.path.join(dp, f))
    for p in sorted(files):
        h.update(os.path.relpath(p, root).encode())
        h.update(b"\0")
        with open(p, "rb") as fh:
            h.update(fh.read())
        h.update(b"\0")
    if os.path.exists(DRIVER):
        st = os.stat(DRIVER)
        h.update(("%d:%d" % (st.st_size, int(st.st_mtime))).encode())
    return h.hexdigest()


def ensure_driver():
    srcs = glob.glob(os.path.join(DRIVER_DIR, "src", "*.rs")) + [os.path.join(DRIVER_DIR, "Cargo.toml")]
    if os.path.exists(DRIVER) and all(os.path.getmtime(DRIVER) >= os.path.getmtime(s) for s in srcs):
        return
    env = dict(os.environ, CARGO_NET_OFFLINE="true")
    env.pop("RUSTC_WRAPPER", None)
    env.pop("RUSTC_WORKSPACE_WRAPPER", None)
    r = subprocess.run(["cargo", "+nightly", "build", "--offline"], cwd=DRIVER_DIR, env=env,
                       stdout=subprocess.PIPE, stderr=subprocess.STDOUT, text=True)
    if r.returncode != 0 or not os.path.exists(DRIVER):
        raise EngineError("driver build failed:\n" + r.stdout[-4000:])


FIXTURES = {
    # name: (source file under engine/fixtures, dependency lines with %s = repo root, fact file produced)
    "derivefix": ("derive_shapes.rs",
                  ['qbice_serialize = { path = "%s/crates/serialize" }', 'qbice_stable_hash = { path = "%s/crates/stable_hash" }'],
                  "qbv_fixture_derivefix"),
}


def facts_for_fixture(name):
    """Type-checks a fixture crate of /verif (path-depending on the repository's crates) under the E1 driver and returns
    the fact directory: the MIR of the impls that the repository's derive macros generate for the fixture types."""
    src_name, deps, crate = FIXTURES[name]
    root = repo_root()
    os.makedirs(CACHE, exist_ok=True)
    tag = hashlib.sha256(root.encode()).hexdigest()[:8]
    with open(os.path.join(CACHE, "extract-%s.lock" % name), "w") as lock:
        fcntl.flock(lock, fcntl.LOCK_EX)
        ensure_driver()
        src = open(os.path.join(VERIF, "engine", "fixtures", src_name)).read()
        h = tree_hash(root) + hashlib.sha256(src.encode()).hexdigest()
        fact_dir = os.path.join(CACHE, "facts-%s-%s" % (name, tag))
        stamp = os.path.join(fact_dir, "TREE_HASH")
        want = os.path.join(fact_dir, crate + ".jsonl")
        if os.path.exists(stamp) and open(stamp).read().strip() == h and os.path.exists(want) and os.path.getsize(want) > 0:
            return fact_dir
        if os.path.isdir(fact_dir):
            shutil.rmtree(fact_dir)
        os.makedirs(fact_dir)
        d = os.path.join(CACHE, "fixture-%s-%s" % (name, tag))
        os.makedirs(os.path.join(d, "src"), exist_ok=True)
        with open(os.path.join(d, "src", "lib.rs"), "w") as fh:
            fh.write(src)
        with open(os.path.join(d, "Cargo.toml"), "w") as fh:
            fh.write('[package]\nname = "%s"\nversion = "0.0.0"\nedition = "2024"\n\n[workspace]\n\n[dependencies]\n%s' % (
                crate, "".join(l % root + "\n" for l in deps)))
        if not os.path.exists(os.path.join(d, "Cargo.lock")):
            shutil.copy(os.path.join(root, "Cargo.lock"), os.path.join(d, "Cargo.lock"))
        target = os.path.join(CACHE, "target-%s-%s" % (name, tag))
        for f in glob.glob(os.path.join(target, "debug", ".fingerprint", "qb*")):
            shutil.rmtree(f, ignore_errors=True)
        env = dict(os.environ)
        env.update({
            "LD_LIBRARY_PATH": os.path.join(sysroot(), "lib") + ":" + env.get("LD_LIBRARY_PATH", ""),
            "CARGO_INCREMENTAL": "0", "CARGO_NET_OFFLINE": "true", "QBV_FACT_DIR": fact_dir,
            "QBV_ANALYZE_ROOTS": ":".join([root, d]), "RUSTC_WORKSPACE_WRAPPER": DRIVER, "CARGO_TARGET_DIR": target,
        })
        env.pop("RUSTFLAGS", None)
        env.pop("RUSTC_WRAPPER", None)
        r = subprocess.run(["cargo", "+nightly", "check", "--offline"], cwd=d, env=env, stdout=subprocess.PIPE, stderr=subprocess.STDOUT, text=True)
        if r.returncode != 0:
            raise EngineError("fixture extraction (%s) failed:\n%s" % (name, r.stdout[-6000:]))
        if not os.path.exists(want) or os.path.getsize(want) == 0:
            raise EngineError("fact file missing or empty after fixture extraction: %s" % want)
        with open(stamp, "w") as fh:
            fh.write(h + "\n")
        return fact_dir


def facts_for(shape, extra_roots=()):
    """Returns the fact directory for `shape`, (re-)extracting when /repo changed."""
    root = repo_root()
    os.makedirs(CACHE, exist_ok=True)
    tag = hashlib.sha256(root.encode()).hexdigest()[:8]
    lock_path = os.path.join(CACHE, "extract-%s.lock" % shape)
    with open(lock_path, "w") as lock:
        fcntl.flock(lock, fcntl.LOCK_EX)
        ensure_driver()
        h = tree_hash(root)
        fact_dir = os.path.join(CACHE, "facts-%s-%s" % (shape, tag))
        stamp = os.path.join(fact_dir, "TREE_HASH")
        need = SHAPES[shape][1]
        if os.path.exists(stamp) and open(stamp).read().strip() == h and all(
                os.path.exists(os.path.join(fact_dir, c + ".jsonl")) and os.path.getsize(os.path.join(fact_dir, c + ".jsonl")) > 0
                for c in need):
            return fact_dir
        t0 = time.time()
        if os.path.isdir(fact_dir):
            shutil.rmtree(fact_dir)
        os.makedirs(fact_dir)
        target = os.path.join(CACHE, "target-%s-%s" % (shape, tag))
        # cargo's freshness cache would skip the wrapper: forget the members
        for d in glob.glob(os.path.join(target, "debug", ".fingerprint", "qbice*")):
            shutil.rmtree(d, ignore_errors=True)
        env = dict(os.environ)
        env.update({
            "LD_LIBRARY_PATH": os.path.join(sysroot(), "lib") + ":" + env.get("LD_LIBRARY_PATH", ""),
            "CARGO_INCREMENTAL": "0",
            "CARGO_NET_OFFLINE": "true",
            "QBV_FACT_DIR": fact_dir,
            "QBV_ANALYZE_ROOTS": ":".join([root] + list(extra_roots)),
            "RUSTC_WORKSPACE_WRAPPER": DRIVER,
            "CARGO_TARGET_DIR": target,
        })
        env.pop("RUSTFLAGS", None)
        env.pop("RUSTC_WRAPPER", None)
        cmd = ["cargo", "+nightly", "check", "--offline"] + SHAPES[shape][0]
        r = subprocess.run(cmd, cwd=root, env=env, stdout=subprocess.PIPE, stderr=subprocess.STDOUT, text=True)
        if r.returncode != 0:
            raise EngineError("fact extraction (%s) failed: %s\n%s" % (shape, " ".join(cmd), r.stdout[-6000:]))
        for c in need:
            p = os.path.join(fact_dir, c + ".jsonl")
            if not os.path.exists(p) or os.path.getsize(p) == 0:
                raise EngineError("fact file missing or empty after extraction: %s" % p)
        with open(stamp, "w") as fh:
            fh.write(h + "\n")
        with open(os.path.join(fact_dir, "EXTRACT_S"), "w") as fh:
            fh.write("%.1f\n" % (time.time() - t0))
        return fact_dir

"""Loading of the fact files written by the E1 driver, plus the Body wrapper
(CFG, dominators, reachability helpers) used by every rule."""
import glob
import json
import os
import re
from collections import defaultdict


class EngineError(Exception):
    """The machinery itself is broken (not a property violation)."""


class AnchorMissing(Exception):
    """A frozen anchor could not be found in the program (fails closed)."""

    def __init__(self, what):
        super().__init__(what)
        self.what = what


def short(path):
    """Shorten a pretty path for messages: drop generic arguments' crate paths."""
    return re.sub(r"\b(?:[a-z_][a-z_0-9]*::)+(?=[A-Za-z_{<])", "", path)


class Site:
    """A program point: block index + statement index (len(stmts) = terminator)."""
    __slots__ = ("body", "bb", "idx")

    def __init__(self, body, bb, idx):
        self.body, self.bb, self.idx = body, bb, idx

    @property
    def is_term(self):
        return self.idx == len(self.body.blocks[self.bb]["stmts"])

    @property
    def node(self):
        blk = self.body.blocks[self.bb]
        return blk["term"] if self.is_term else blk["stmts"][self.idx]

    @property
    def line(self):
        n = self.node
        return int(n.get("line", 0) or 0)

    def loc(self):
        f = self.body.file
        return "%s:%s" % (f, self.line)

    def __repr__(self):
        return "<%s bb%d[%d] L%d>" % (self.body.name, self.bb, self.idx, self.line)

    def __eq__(self, o):
        return isinstance(o, Site) and o.body is self.body and o.bb == self.bb and o.idx == self.idx

    def __hash__(self):
        return hash((id(self.body), self.bb, self.idx))


class Body:
    def __init__(self, rec, prog):
        self.rec = rec
        self.prog = prog
        self.key = rec["key"]
        self.path = rec["path"]
        self.crate = rec["crate"]
        self.kind = rec["kind"]
        self.parent = rec.get("parent")
        self.blocks = rec["blocks"]
        self.locals = rec["locals"]
        self.argc = int(rec["argc"])
        self.span = rec["span"]
        self.file = rec["span"].rsplit(":", 1)[0]
        self.name = self._name()
        self._succ = None
        self._pred = None
        self._dom = None
        self._defs = None

    # ---------------------------------------------------------------- naming
    def _name(self):
        """Readable, line-free anchor name: `Type::method`, `<Type as Trait>::method`,
        `module::function`, with `{closure#n}` suffixes kept."""
        r = self.rec
        path = self.path
        m = re.match(r"^(.*?)((?:::\{(?:closure|constant|inline_const)#\d+\})*)$", path)
        base, suffix = m.group(1), m.group(2)
        root = self
        # walk up to the typeck root to name closures after their owner
        k = self.key
        p = self.prog
        while root.parent and p is not None and root.parent in p.bodies:
            root = p.bodies[root.parent]
        rr = root.rec
        if "name" in rr and "self_ty" in rr:
            st = strip_generics(short(rr["self_ty"]))
            if rr.get("trait"):
                nm = "<%s as %s>::%s" % (st, short(rr["trait"]), rr["name"])
            else:
                nm = "%s::%s" % (st, rr["name"])
        elif "trait_default" in rr:
            nm = "%s::%s" % (short(rr["trait_default"]), rr["name"])
        else:
            segs = root.path.split("::")
            nm = "::".join(segs[-2:]) if len(segs) >= 2 else root.path
        if root is not self:
            # suffix relative to root
            nm += self.key[len(root.key):]
        return nm

    @property
    def is_coroutine(self):
        return self.kind.startswith("coroutine")

    # ---------------------------------------------------------------- CFG
    def term(self, bb):
        return self.blocks[bb]["term"]

    def successors(self, bb, unwind=False):
        t = self.blocks[bb]["term"]
        k = t["k"]
        out = []
        if k in ("goto", "drop", "assert", "falseunwind"):
            out.append(t["t"])
        elif k == "call":
            if t["t"] is not None:
                out.append(t["t"])
        elif k == "switch":
            out.extend(x[1] for x in t["targets"])
            out.append(t["otherwise"])
        elif k == "yield":
            out.append(t["t"])
            # the `drop` edge (coroutine dropped while suspended) is a cancellation
            # edge, treated like unwind
            if unwind and t.get("drop") is not None:
                out.append(t["drop"])
        elif k == "falseedge":
            out.append(t["t"])
            # imaginary targets are not real control flow
        if unwind and t.get("unwind") is not None:
            out.append(t["unwind"])
        return out

    @property
    def succ(self):
        if self._succ is None:
            self._succ = [self.successors(i) for i in range(len(self.blocks))]
        return self._succ

    @property
    def pred(self):
        if self._pred is None:
            p = [[] for _ in self.blocks]
            for i, ss in enumerate(self.succ):
                for s in ss:
                    p[s].append(i)
            self._pred = p
        return self._pred

    def reachable(self, starts, removed_nodes=(), removed_edges=(), stop=None):
        """Forward reachability over normal (non-unwind) edges."""
        removed_nodes = set(removed_nodes)
        removed_edges = set(removed_edges)
        seen = set()
        work = [s for s in starts if s not in removed_nodes]
        while work:
            n = work.pop()
            if n in seen:
                continue
            seen.add(n)
            if stop is not None and n in stop:
                continue
            for s in self.succ[n]:
                if s in removed_nodes or (n, s) in removed_edges or s in seen:
                    continue
                work.append(s)
        return seen

    @property
    def live_blocks(self):
        """Blocks reachable from entry over normal edges."""
        if not hasattr(self, "_live"):
            self._live = self.reachable([0])
        return self._live

    def dominators(self):
        """Immediate-dominator-free formulation: dom[b] = set of blocks dominating b
        (normal edges only; unreachable blocks get the empty set)."""
        if self._dom is not None:
            return self._dom
        live = sorted(self.live_blocks)
        allb = set(live)
        dom = {b: set(allb) for b in live}
        dom[0] = {0}
        changed = True
        # reverse post-order helps convergence
        order = self._rpo()
        while changed:
            changed = False
            for b in order:
                if b == 0:
                    continue
                ps = [p for p in self.pred[b] if p in allb]
                if not ps:
                    continue
                new = set.intersection(*(dom[p] for p in ps)) | {b}
                if new != dom[b]:
                    dom[b] = new
                    changed = True
        self._dom = dom
        return dom

    def _rpo(self):
        seen, order = set(), []
        stack = [(0, iter(self.succ[0]))]
        seen.add(0)
        while stack:
            n, it = stack[-1]
            for s in it:
                if s not in seen:
                    seen.add(s)
                    stack.append((s, iter(self.succ[s])))
                    break
            else:
                order.append(n)
                stack.pop()
        order.reverse()
        return order

    def bb_dominates(self, a, b):
        d = self.dominators()
        return b in d and a in d[b]

    def site_dominates(self, a, b):
        """Site a is executed (and, for calls, has returned normally) before site b on
        every path from entry to b."""
        if a.bb == b.bb:
            return a.idx < b.idx
        return self.bb_dominates(a.bb, b.bb)

    def edge_dominates(self, edge, target_bb):
        """True iff every path from entry to target_bb uses CFG edge `edge`.  Paths are
        followed flag-sensitively for the `matches!`-style idiom: a bool local that is only ever
        assigned constants and then switched on (so `if matches!(x, A | B) {..}` is dominated by
        the A/B edges of the inner discriminant switch)."""
        if target_bb not in self.live_blocks:
            return True
        if target_bb not in self.reachable([0], removed_edges=[edge]):
            return True
        for f in self._flags_set_after(edge[1]):
            if target_bb not in self._reachable_flag([0], [edge], f):
                return True
        return False

    # -- bool flags assigned only constants -------------------------------------------------
    def flag_locals(self):
        if not hasattr(self, "_flagl"):
            fl = {}
            for l, defs in self.defs.items():
                if l == 0 or l <= self.argc or not defs:
                    continue
                vals = []
                for site, kind, node in defs:
                    if kind != "assign" or node["lhs"][1] or node["rv"]["k"] != "use":
                        vals = None
                        break
                    c = node["rv"]["op"].get("c")
                    if c is None or "v" not in c or c.get("ty") != "bool":
                        vals = None
                        break
                    vals.append((site.bb, int(c["v"])))
                if vals and len(vals) >= 2:
                    fl[l] = vals
            self._flagl = fl
        return self._flagl

    def _flags_set_after(self, bb):
        """Flags assigned a constant in bb or in the straight-line blocks following it."""
        out = []
        seen = set()
        cur = bb
        for _ in range(8):
            if cur in seen:
                break
            seen.add(cur)
            for l, vals in self.flag_locals().items():
                if any(b == cur for b, v in vals) and l not in out:
                    out.append(l)
            ss = self.succ[cur]
            if len(ss) != 1:
                break
            cur = ss[0]
        return out

    def _switch_on_flag(self, bb, flag):
        """If bb ends in a switch on `flag` (directly or through a same-block copy): the
        value->target map and the otherwise target."""
        t = self.blocks[bb]["term"]
        if t["k"] != "switch":
            return None
        l = op_local(t["op"])
        if l is None:
            return None
        if l != flag:
            defs = self.defs.get(l, [])
            if len(defs) != 1 or defs[0][1] != "assign" or defs[0][2]["rv"]["k"] != "use" or op_local(defs[0][2]["rv"]["op"]) != flag:
                return None
        return {int(v): tb for v, tb in t["targets"]}, t["otherwise"]

    def reachable_fs(self, starts, removed_nodes=(), removed_edges=(), flags_from=None):
        """Flag-sensitive forward reachability: intersection over the candidate flags (each flag is
        tracked separately; a block is reachable only if it is reachable under every tracking)."""
        base = self.reachable(starts, removed_nodes=removed_nodes, removed_edges=removed_edges)
        cands = []
        for b in (flags_from if flags_from is not None else starts):
            for f in self._flags_set_after(b):
                if f not in cands:
                    cands.append(f)
        for f in cands:
            base &= self._reachable_flag(starts, removed_edges, f, removed_nodes)
        return base

    def unreachable_without(self, edges, bb):
        """True iff bb cannot be reached from entry once all `edges` are removed (flag-sensitive)."""
        if bb not in self.reachable([0], removed_edges=edges):
            return True
        flags = []
        for e in edges:
            for f in self._flags_set_after(e[1]):
                if f not in flags:
                    flags.append(f)
        for f in flags:
            if bb not in self._reachable_flag([0], edges, f):
                return True
        return False

    def _reachable_flag(self, starts, removed_edges, flag, removed_nodes=()):
        removed_edges = set(removed_edges)
        removed_nodes = set(removed_nodes)
        assigns = {}
        for b, v in self.flag_locals()[flag]:
            assigns[b] = v
        seen = set()
        work = [(s, None) for s in starts]
        blocks = set()
        while work:
            n, v = work.pop()
            if (n, v) in seen:
                continue
            seen.add((n, v))
            blocks.add(n)
            sw = self._switch_on_flag(n, flag)
            if n in assigns:
                v2 = assigns[n]
            else:
                v2 = v
            if sw is not None and v is not None:
                # the switch reads the flag before this block could reassign it (assignments are statements,
                # the switch is the terminator): use the value after the block's statements
                vv = v2
                tm, other = sw
                succs = [tm.get(vv, other)]
            else:
                succs = self.succ[n]
            for s2 in succs:
                if (n, s2) in removed_edges or s2 in removed_nodes:
                    continue
                work.append((s2, v2))
        return blocks

    def returns(self):
        return [i for i in self.live_blocks if self.blocks[i]["term"]["k"] == "ret"]

    def must_pass(self, from_bbs, via_bbs, to_bbs=None):
        """Every path from any of from_bbs to a block in to_bbs (default: returns)
        passes through one of via_bbs.  Returns the list of offending targets."""
        to_bbs = self.returns() if to_bbs is None else list(to_bbs)
        via = set(via_bbs)
        starts = [b for b in from_bbs if b not in via]
        r = self.reachable(starts, removed_nodes=via)
        return [t for t in to_bbs if t in r]

    # ---------------------------------------------------------------- enumeration
    def sites(self):
        for bi in sorted(self.live_blocks):
            blk = self.blocks[bi]
            if blk["cleanup"]:
                continue
            for si in range(len(blk["stmts"]) + 1):
                yield Site(self, bi, si)

    def calls(self, pred=None, include_cleanup=False):
        out = []
        rng = range(len(self.blocks)) if include_cleanup else sorted(self.live_blocks)
        for bi in rng:
            blk = self.blocks[bi]
            if blk["cleanup"] and not include_cleanup:
                continue
            t = blk["term"]
            if t["k"] == "call" and "path" in t["fn"]:
                if pred is None or pred(t["fn"], t):
                    out.append(Site(self, bi, len(blk["stmts"])))
        return out

    def calls_to(self, pattern, include_cleanup=False):
        """Call sites whose callee pretty path (or resolved path) matches `pattern`
        (a regex searched in `path`; use `$` to anchor the method name)."""
        rx = re.compile(pattern)
        return self.calls(lambda f, t: bool(rx.search(f["path"]) or rx.search(f.get("res_path", ""))), include_cleanup)

    def assigns(self, pred):
        out = []
        for bi in sorted(self.live_blocks):
            blk = self.blocks[bi]
            if blk["cleanup"]:
                continue
            for si, st in enumerate(blk["stmts"]):
                if st["k"] == "assign" and pred(st):
                    out.append(Site(self, bi, si))
        return out

    def aggregates(self, adt_pattern, vname=None):
        rx = re.compile(adt_pattern)

        def p(st):
            rv = st["rv"]
            return rv["k"] == "agg" and rv.get("ak") == "adt" and rx.search(rv["adt"]) and (vname is None or rv["vname"] == vname)
        return self.assigns(p)

    def yields(self):
        return [Site(self, bi, len(self.blocks[bi]["stmts"])) for bi in sorted(self.live_blocks)
                if self.blocks[bi]["term"]["k"] == "yield" and not self.blocks[bi]["cleanup"]]

    # ---------------------------------------------------------------- def-use
    @property
    def defs(self):
        """local -> list of (Site, kind, node) that write the local (any projection)."""
        if self._defs is None:
            d = defaultdict(list)
            for bi, blk in enumerate(self.blocks):
                for si, st in enumerate(blk["stmts"]):
                    if st["k"] == "assign":
                        d[st["lhs"][0]].append((Site(self, bi, si), "assign", st))
                t = blk["term"]
                if t["k"] == "call":
                    d[t["dest"][0]].append((Site(self, bi, len(blk["stmts"])), "call", t))
                elif t["k"] == "yield":
                    d[t["resume_arg"][0]].append((Site(self, bi, len(blk["stmts"])), "yield", t))
            self._defs = d
        return self._defs

    def local_ty(self, l):
        return self.locals[l]["ty"]

    # ---------------------------------------------------------------- maybe-init (rustc's analysis)
    def maybe_init(self, bb):
        """[(place, tracked own entries, has_tracked_child)] maybe-initialised before the
        terminator of bb (only sampled at Yield/Drop/Return/Call terminators)."""
        return self.rec.get("mi", {}).get(str(bb), [])

    def held(self, bb, substr, include_arc=False):
        """Leaf-most maybe-initialised move paths before bb's terminator that own (by value,
        not through an Arc (`@arc`) or a closure/coroutine's captured state (`@fut`)) a
        resource whose nominal path contains `substr`.  Paths through an enum variant that
        the dominating discriminant switches exclude are dropped."""
        out = []
        for place, tracked, kids in self.maybe_init(bb):
            hit = [t for t in tracked if substr in t and (include_arc or "@" not in t)]
            if not hit:
                continue
            if kids:
                # a tracked child path exists: the children speak for themselves
                continue
            if self._variant_excluded(bb, place):
                continue
            out.append((place, hit))
        return out

    def _variant_excluded(self, bb, place):
        """place = base.(as Variant#i)...: True if bb is only reachable through a switch edge on
        discriminant(base) that selects another variant."""
        l, proj = place
        for k, e in enumerate(proj):
            if not e.startswith("d:"):
                continue
            idx = int(e.rsplit("#", 1)[1])
            base = [l, proj[:k]]
            for sb in self.live_blocks:
                t = self.blocks[sb]["term"]
                if t["k"] != "switch":
                    continue
                # discriminant read of exactly `base` feeding this switch
                dl = op_local(t["op"])
                defs = self.defs.get(dl, []) if dl is not None else []
                if len(defs) != 1 or defs[0][1] != "assign":
                    continue
                rv = defs[0][2]["rv"]
                if rv["k"] != "disc" or rv["pl"][0] != base[0] or list(rv["pl"][1]) != list(base[1]):
                    continue
                explicit = {int(v): tb for v, tb in t["targets"]}
                for v, tb in list(explicit.items()) + [("otherwise", t["otherwise"])]:
                    if v == idx:
                        continue
                    if v == "otherwise" and idx not in explicit:
                        continue
                    if tb != explicit.get(idx, None) and self.edge_dominates((sb, tb), bb) and bb in self.reachable([tb]):
                        return True
        return False


def strip_generics(s):
    out, depth = [], 0
    for ch in s:
        if ch == "<":
            depth += 1
        elif ch == ">":
            depth -= 1
        elif depth == 0:
            out.append(ch)
    return "".join(out)


def op_place(op):
    if "cp" in op:
        return op["cp"]
    if "mv" in op:
        return op["mv"]
    return None


def op_local(op):
    p = op_place(op)
    return None if p is None else p[0]


def op_const(op):
    return op.get("c")


def const_int(op):
    c = op.get("c")
    if c is None or "v" not in c:
        return None
    return int(c["v"])


class Program:
    def __init__(self, fact_dirs):
        self.bodies = {}
        self.impls = []
        self.adts = {}
        self.sigs = {}
        self.crates = set()
        self.stolen = []
        self.promoted = {}
        files = []
        for d in fact_dirs:
            files.extend(sorted(glob.glob(os.path.join(d, "*.jsonl"))))
        if not files:
            raise EngineError("no fact files in %s" % (fact_dirs,))
        recs = []
        for f in files:
            if os.path.getsize(f) == 0:
                raise EngineError("empty fact file %s" % f)
            with open(f) as fh:
                for line in fh:
                    recs.append(json.loads(line))
        for r in recs:
            k = r["k"]
            if k == "body":
                if r["key"] not in self.bodies:
                    self.bodies[r["key"]] = r
            elif k == "impl":
                self.impls.append(r)
            elif k == "adt":
                self.adts[r["path"]] = r
            elif k == "sig":
                self.sigs[r["key"]] = r
            elif k == "crate":
                self.crates.add(r["name"])
            elif k == "stolen":
                self.stolen.append(r)
            elif k == "promoted":
                self.promoted[(r["owner"], int(r["index"]))] = r
        raw = self.bodies
        self.bodies = {}
        # two passes so that closure names can look up their parents
        for key, r in raw.items():
            self.bodies[key] = None
        objs = {}
        for key, r in raw.items():
            b = Body.__new__(Body)
            objs[key] = (b, r)
        # parents first
        self.bodies = {}
        for key in sorted(objs, key=lambda k: k.count("::")):
            b, r = objs[key]
            b.__init__(r, self)
            self.bodies[key] = b
        self.by_name = defaultdict(list)
        for b in self.bodies.values():
            self.by_name[b.name].append(b)
        self.impl_methods = defaultdict(list)  # (trait path, method name) -> [(impl rec, method key)]
        for im in self.impls:
            if im.get("trait"):
                for name, key, kind in im["items"]:
                    self.impl_methods[(im["trait"], name)].append((im, key))
        self._callers = None

    # ---------------------------------------------------------------- lookup
    def body(self, name):
        """Exactly one body with this anchor name, else AnchorMissing."""
        c = self.by_name.get(name, [])
        if len(c) != 1:
            raise AnchorMissing("body `%s` (%d candidates)" % (name, len(c)))
        return c[0]

    def find(self, pattern):
        rx = re.compile(pattern)
        return [b for b in self.bodies.values() if rx.search(b.name)]

    def coroutine_of(self, name):
        """The coroutine body of `async fn name`."""
        return self.body(name + "::{closure#0}")

    def async_body(self, name):
        """The coroutine holding the source-level body of `async fn name` (looks through the
        wrapper block that `#[tracing::instrument]` inserts)."""
        b = self.coroutine_of(name)
        for _ in range(3):
            if not b.calls_to(r"tracing::instrument::Instrument::instrument$"):
                return b
            inner = [x for x in self.by_name.get(b.name + "::{closure#0}", []) if x.is_coroutine]
            if len(inner) != 1:
                return b
            b = inner[0]
        return b

    def all_bodies(self, crates=None):
        for b in self.bodies.values():
            if crates is None or b.crate in crates:
                yield b

    def callers_of(self, pattern):
        """All call sites in the program whose callee matches pattern."""
        out = []
        for b in self.bodies.values():
            out.extend(b.calls_to(pattern))
        return out

    def promoted_aggs(self, owner_key, index):
        """Names `Adt::Variant` of the aggregates a promoted constant of a body is built from."""
        r = self.promoted.get((owner_key, index))
        out = set()
        if r is None:
            return out
        for blk in r["blocks"]:
            for st in blk["stmts"]:
                if st["k"] == "assign" and st["rv"]["k"] == "agg" and st["rv"].get("ak") == "adt":
                    out.add("%s::%s" % (st["rv"]["adt"].split("::")[-1], st["rv"]["vname"]))
        return out

    def cha(self, trait_path, method):
        """Bodies of all workspace impls of trait method."""
        out = []
        for im, key in self.impl_methods.get((trait_path, method), []):
            if key in self.bodies:
                out.append(self.bodies[key])
        return out

"""K7 — lock-gap write-back rule.

Flags, in any body, a store through a guard g2 of lock L when
  (i)   an earlier guard g1 of the same L (same receiver access path) was acquired and has been
        released before g2 is acquired (rustc's maybe-init facts say g1 is dead at g2's acquisition),
  (ii)  the stored value was computed between the two acquisitions (it derives from a call or
        aggregate located after g1's acquisition and before g2's), i.e. from state observed in the
        first critical section, and
  (iii) the store is not control-dependent on a re-read of the protected state under g2
        (no branch between g2's acquisition and the store tests something reached through g2).
This is the check-then-act-across-a-gap shape: whatever another thread did to L's data in the gap
is overwritten."""
from . import dataflow as df
from .facts import Site, op_local, op_place

GUARD_MARKS = ("RwLockReadGuard", "RwLockWriteGuard", "MutexGuard", "RwLockUpgradableReadGuard")


def acquisitions(body):
    out = []
    for s in body.calls(lambda f, t: bool(df.LOCK_ACQUIRE.search(f["path"])) and "RefCell" not in f["path"]):
        t = s.node
        if not t["args"]:
            continue
        lock = tuple(df.access_path(body, t["args"][0]))
        kind = t["fn"]["path"].rsplit("::", 1)[-1]
        if kind in ("read_shard", "write_shard"):
            # a sharded lock: the shard index is part of the lock's identity
            idx = sorted(repr(o) for o in df.origins_of_operand(body, t["args"][1])) if len(t["args"]) > 1 else []
            lock = lock + ("shard",) + tuple(idx)
            kind = "read" if kind == "read_shard" else "write"
        out.append((s, lock, kind))
    return out


def guard_alive_at(body, acq_site, at_bb):
    """Is the guard produced by acq_site possibly still initialised before at_bb's terminator?"""
    dest = acq_site.node["dest"][0]
    # the guard may have been moved into a named local / Option: follow forward moves one step
    locals_ = {dest}
    changed = True
    while changed:
        changed = False
        for bi in body.live_blocks:
            for st in body.blocks[bi]["stmts"]:
                if st["k"] == "assign" and st["rv"]["k"] == "use":
                    l = op_local(st["rv"]["op"])
                    if l in locals_ and "mv" in st["rv"]["op"] and st["lhs"][0] not in locals_:
                        locals_.add(st["lhs"][0])
                        changed = True
            t = body.blocks[bi]["term"]
            if t["k"] == "call" and t["fn"].get("path", "").startswith("core::option::Option::<T>::unwrap") and op_local(t["args"][0]) in locals_:
                if t["dest"][0] not in locals_:
                    locals_.add(t["dest"][0])
                    changed = True
    for place, tracked, kids in body.maybe_init(at_bb):
        if place[0] in locals_ and any(any(m in t for m in GUARD_MARKS) for t in tracked):
            return True
    return False


def stores_through(body, acq_site):
    """Assignments `*g = v` / `(*deref_mut(&mut g)) = v` whose base pointer derives from the guard."""
    out = []
    for s in body.assigns(lambda st: "*" in st["lhs"][1]):
        st = s.node
        base = [st["lhs"][0], []]
        os_ = df.origins_of_place(body, base)
        if any(o.kind == "call" and o.site == acq_site for o in os_):
            out.append(s)
    # `*guard = v` where guard is the acquisition's own destination (parking_lot guards deref via DerefMut call,
    # so direct stores are rare) — covered by the origin walk above
    return out


def find_lock_gaps(prog, crates):
    findings = []
    examined = 0
    for b in prog.all_bodies(crates):
        acqs = acquisitions(b)
        if len(acqs) < 2:
            continue
        for a2, lock2, kind2 in acqs:
            if kind2 not in ("write", "lock", "try_write", "try_lock", "upgradable_read"):
                continue
            for a1, lock1, kind1 in acqs:
                if a1 == a2 or lock1 != lock2 or not lock1:
                    continue
                if not b.site_dominates(a1, a2):
                    continue
                examined += 1
                if guard_alive_at(b, a1, a2.bb):
                    continue  # nested / still held: no gap
                for st in stores_through(b, a2):
                    if not b.site_dominates(a2, st):
                        continue
                    rv = st.node["rv"]
                    ops = []
                    if rv["k"] == "use":
                        ops = [rv["op"]]
                    elif rv["k"] == "agg":
                        ops = rv["ops"]
                    gap_sources = []
                    for op in ops:
                        if op_place(op) is None:
                            continue
                        for o in df.origins_of_operand(b, op):
                            if o.kind in ("call", "agg") and o.site is not None:
                                if b.site_dominates(a1, o.site) and not b.site_dominates(a2, o.site) and o.site != a2:
                                    gap_sources.append(o)
                    if not gap_sources:
                        continue
                    # (iii) re-check under g2?
                    rechecked = False
                    for sb in df.switches(b):
                        if not (b.bb_dominates(a2.bb, sb) and sb != a2.bb and b.bb_dominates(sb, st.bb)):
                            continue
                        t = b.blocks[sb]["term"]
                        if op_place(t["op"]) is None:
                            continue
                        os_ = df.origins_of_operand(b, t["op"])
                        if any(o.kind == "call" and o.site == a2 for o in os_):
                            rechecked = True
                    if rechecked:
                        continue
                    findings.append((b, a1, a2, st, gap_sources))
    return findings, examined


# ---------------------------------------------------------------------------- check-then-act on concurrent maps

import re as _re

PROBE = _re.compile(r"scc::hash_(map|set)::Hash(Map|Set)::<[^>]*>::(read_sync|get_sync|contains_sync|read_async|get_async|contains_async|any_sync)$"
                    r"|dashmap::DashMap::<[^>]*>::(get|contains_key|get_mut)$|dashmap::set::DashSet::<[^>]*>::contains$")
BLIND_WRITE = _re.compile(r"scc::hash_map::HashMap::<[^>]*>::(upsert_sync|upsert_async)$|dashmap::DashMap::<[^>]*>::insert$")


def find_check_then_act(prog, crates):
    """A probe of a shared concurrent map followed — on a branch decided by the probe's result — by a
    blind overwrite of the same map (upsert / DashMap::insert) instead of an entry-API re-check: two
    threads that both saw `absent` overwrite each other."""
    findings = []
    examined = 0
    for b in prog.all_bodies(crates):
        probes = b.calls(lambda f, t: bool(PROBE.search(f["path"])))
        writes = b.calls(lambda f, t: bool(BLIND_WRITE.search(f["path"])))
        if not probes or not writes:
            continue
        for w in writes:
            wpath = tuple(df.access_path(b, w.node["args"][0]))
            for p in probes:
                examined += 1
                if tuple(df.access_path(b, p.node["args"][0])) != wpath or not wpath:
                    continue
                if not b.site_dominates(p, w):
                    continue
                # is w reached through a branch on the probe's result?
                decided = False
                for sb in df.switches(b):
                    if not b.bb_dominates(p.bb, sb):
                        continue
                    os_ = df.origins_of_operand(b, b.blocks[sb]["term"]["op"], extra_transparent=[(r"core::option::Option::<[^>]*>::(is_some|is_none)$", [0])])
                    if not any(o.kind == "call" and o.site == p for o in os_):
                        continue
                    for v, tb in df.switch_edges(b, sb):
                        if b.edge_dominates((sb, tb), w.bb) and w.bb in b.reachable([tb]) and any(tb2 != tb for _, tb2 in df.switch_edges(b, sb)):
                            decided = True
                if decided:
                    findings.append((b, p, w))
    return findings, examined

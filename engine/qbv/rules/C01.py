"""C01 — incremental answers equal a from-scratch evaluation: the invalidation/repair
protocol obligations without which the dirty closure is incomplete (structural clauses)."""
import re

from .. import dataflow as df
from ..facts import Site, op_local, short
from .C05 import MAP_WRITE, COLUMN_FIELDS

EXPLANATION = (
    "Static analysis over rustc's promoted MIR; semantic equality with a from-scratch run is NOT decided. Decided protocol obligations: "
    "C01.a every iteration over a node's backward edges marks the edge dirty or buffers the mark (loop-form must-pass-through, incl. the "
    "contended branch); C01.b buffered marks are drained into the batch after all tasks finished, on every path, and the batch returned is the "
    "one handed in; C01.c Single/Unordered arms of every NodeDependency match perform the same column operations (edge symmetry), the insert "
    "loop iterates the very order that is stored, the remove loop iterates the previously stored order; C01.d dependencies are cleared before "
    "re-execution; C01.e a session propagates dirtiness before submitting, into the submitted batch; C01.f a fast-path Hit requires "
    "last_verified == caller epoch and a Cleaned callee requires equal value fingerprints; C01.g unordered dependency recording is `unsafe`.")

NOT_DECIDED = [
    "that the incremental value equals the from-scratch value for all programs, histories and input values (semantic equivalence of two evaluation strategies)",
    "completeness of the dirty closure as a graph property at run time",
]
ASSUMPTIONS = ["executors are pure (as the property states)"]


def c01a(ctx):
    prog = ctx.prog
    o = ctx.ob("C01.a", "process_task/mark-every-backward-edge", "K2-loop",
               "every caller found on a backward edge gets its forward edge marked dirty (directly or through the buffer) before the loop moves on")
    b = ctx.touch(prog.coroutine_of("DirtyWorker::process_task"))
    loops = [l for l in df.iter_loops(b) if any(c.endswith("get_backward_edges_unchecked") for c in l.src_calls())]
    o.sites = len(loops)
    if len(loops) != 1:
        ctx.fail(o, Site(b, 0, 0), "anchor missing: loop over get_backward_edges_unchecked in process_task (found %d)" % len(loops))
        return
    lp = loops[0]
    marks = b.calls_to(r"Database::<C>::mark_dirty_forward_edge$") + b.calls_to(r"DirtyTask::<C>::push_to_buffer$")
    marks = [m for m in marks if m.bb in lp.region()]
    o.sites += len(marks)
    if len(marks) < 2:
        ctx.fail(o, lp.head, "expected a direct mark and a buffered mark inside the loop, found %d" % len(marks))
    # from the Some edge, can we get back to the head (or out) without marking?
    r = b.reachable([lp.some], removed_nodes=[m.bb for m in marks])
    if lp.head.bb in r:
        ctx.fail(o, lp.head, "an iteration of the backward-edge loop in process_task can finish without mark_dirty_forward_edge or push_to_buffer: "
                 "a caller's edge stays clean although its callee changed (e.g. when the write transaction is contended)")
    for rb in b.returns():
        if rb in r:
            ctx.fail(o, Site(b, rb, 0), "process_task can return from inside the loop without marking the current edge")
    # the mark is about (caller, this task's query): first id derives from the loop element
    for m in b.calls_to(r"Database::<C>::mark_dirty_forward_edge$"):
        if m.bb not in lp.region():
            continue
        os_ = df.origins_of_operand(b, m.node["args"][1])
        if not any(x.kind == "call" and (x.callee() or "").endswith("get_backward_edges_unchecked") for x in os_):
            ctx.fail(o, m, "mark_dirty_forward_edge's `from` is not the caller produced by the backward-edge loop")
    # the visited set test: skip only if the node was already dirtied in this propagation
    o2 = ctx.ob("C01.a", "process_task/visited-set", "K4", "a task is skipped only when its query was already inserted into dirtied_queries")
    ins = b.calls_to(r"dashmap::set::DashSet::<K, S>::insert$")
    o2.sites = len(ins)
    if len(ins) != 1:
        ctx.fail(o2, Site(b, 0, 0), "expected one dirtied_queries.insert in process_task")
    else:
        sw = ins[0].node["t"]
        c = df.switch_cond(b, sw) if b.blocks[sw]["term"]["k"] == "switch" else None
        if c is None or c.kind != "call" or c.site != ins[0]:
            ctx.fail(o2, ins[0], "the result of dirtied_queries.insert does not decide whether the task is processed")
        else:
            tt, ft = df.bool_edges(b, sw)
            # after negation: cond true = insert returned... we need: loop reachable only when insert returned true
            want = ft if c.negated else tt
            if not b.edge_dominates((sw, want), lp.head.bb):
                ctx.fail(o2, ins[0], "the backward-edge loop is reachable when the query was already visited, or skipped when it was new")


def c01b(ctx):
    prog = ctx.prog
    o = ctx.ob("C01.b", "dirty_propagate_from_batch/drain-after-barrier", "K1+K2", "buffered dirty marks are written into the batch after every task finished, on every path")
    b = ctx.touch(prog.async_body("Engine::dirty_propagate_from_batch"))
    drains = b.calls_to(r"StrippedBuffer::drain_all$")
    notif = [a for a in df.awaits(b) if any("notified_owned" in (p or "") for p in a.creator_paths())]
    unwrap = b.calls_to(r"alloc::sync::Arc::<T(, A)?>::try_unwrap$")
    submit = b.calls_to(r"DirtyWorker::<C>::submit_task$")
    o.sites = len(drains) + len(notif) + len(unwrap) + len(submit)
    if len(drains) != 1 or len(notif) != 1 or len(unwrap) != 1 or not submit:
        ctx.fail(o, Site(b, 0, 0), "anchors missing in dirty_propagate_from_batch (drain_all=%d notified.await=%d try_unwrap=%d submit_task=%d)" % (
            len(drains), len(notif), len(unwrap), len(submit)))
        return
    d = drains[0]
    if b.must_pass([0], [d.bb]):
        ctx.fail(o, d, "dirty_propagate_from_batch can return without draining the stripped buffer: marks buffered under contention are lost")
    if not notif[0].completed_before(d):
        ctx.fail(o, d, "the stripped buffer is drained before the `notified.await` barrier: tasks may still be pushing marks")
    if not notif[0].completed_before(unwrap[0]):
        ctx.fail(o, unwrap[0], "Arc::try_unwrap of the shared batch precedes the barrier")
    # Batch::notified_owned is created before any task is submitted (no lost wake-up) and the batch handle is dropped before waiting
    cre = b.calls_to(r"Batch::<C>::notified_owned$")
    for s in submit:
        if not cre or not b.site_dominates(cre[0], s):
            ctx.fail(o, s, "a task is submitted before the completion listener exists")
    drops = [s for s in b.calls_to(r"^core::mem::drop$") if "Batch<" in b.locals[op_local(s.node["args"][0])]["ty"]]
    if not drops or not all(b.site_dominates(drops[0], y) for y in notif[0].yields):
        ctx.fail(o, notif[0].poll, "the Batch handle (which counts as an active task) is not dropped before waiting: the barrier would never open")
    # loop body marks each drained edge into the unwrapped batch
    loops = [l for l in df.iter_loops(b) if any(c.endswith("drain_all") for c in l.src_calls())]
    marks = b.calls_to(r"Database::<C>::mark_dirty_forward_edge_from$")
    if len(loops) != 1 or not [m for m in marks if m.bb in loops[0].region()]:
        ctx.fail(o, d, "drained edges are not written with mark_dirty_forward_edge_from")
    else:
        lp = loops[0]
        r = b.reachable([lp.some], removed_nodes=[m.bb for m in marks])
        if lp.head.bb in r:
            ctx.fail(o, lp.head, "a drained edge can be skipped without being marked")
    # returned batch is the one handed in
    o2 = ctx.ob("C01.b", "dirty_propagate_from_batch/same-batch", "K5", "the batch returned is the batch handed in (marks and caller's writes share it)")
    os_ = df.origins_deep(prog, b, [0, []])
    o2.sites = 1
    if not any(x.kind == "param" for x in os_):
        ctx.fail(o2, Site(b, 0, 0), "the returned batch does not derive from the `transaction` parameter (origins: %s)" % sorted(map(repr, os_)))
    if any(x.kind == "call" and re.search(r"new_write_(transaction|batch)$", x.callee() or "") for x in os_):
        ctx.fail(o2, Site(b, 0, 0), "a fresh batch is returned instead of the one handed in")
    # every DirtyTask/Batch construction is counted before it exists; Drop releases the batch before signalling
    o3 = ctx.ob("C01.b", "work-tracker/count-before-create-release-before-done", "K1", "tasks are counted before they exist; a finished task releases the shared batch before it signals completion")
    n = 0
    for nm in ("Batch::new_task", "DirtyTask::propagate_to", "<DirtyTask as Clone>::clone"):
        fb = ctx.touch(prog.body(nm))
        nt = fb.calls_to(r"WorkTracker::new_task$")
        aggs = fb.aggregates(r"dirty_worker::task::DirtyTask$")
        n += len(nt) + len(aggs)
        if len(nt) != 1 or len(aggs) != 1 or not fb.site_dominates(nt[0], aggs[0]):
            ctx.fail(o3, Site(fb, 0, 0), "%s must call WorkTracker::new_task before building the DirtyTask" % nm)
    for nm in ("<DirtyTask as Drop>::drop", "<Batch as Drop>::drop"):
        fb = ctx.touch(prog.body(nm))
        md = fb.calls_to(r"ManuallyDrop::<T>::drop$")
        dn = fb.calls_to(r"WorkTracker::done$")
        n += len(md) + len(dn)
        if len(md) != 1 or len(dn) != 1 or not fb.site_dominates(md[0], dn[0]) or fb.must_pass([0], [dn[0].bb]):
            ctx.fail(o3, Site(fb, 0, 0), "%s must drop its Arc of the batch and then call WorkTracker::done on every path" % nm)
    o3.sites = n


def arm_ops(b, region):
    ops = set()
    for bi in region:
        t = b.blocks[bi]["term"]
        if t["k"] == "call" and "path" in t["fn"] and MAP_WRITE.search(t["fn"]["path"]):
            ap = df.access_path(b, t["args"][0])
            col = [f for f in ap if f in COLUMN_FIELDS]
            ops.add((t["fn"]["path"].rsplit("::", 1)[-1], col[-1] if col else "?"))
    return ops


def node_dependency_matches(b):
    """[(switch_bb, {variant: ops}, loop)] for every match on NodeDependency inside an iterator loop."""
    out = []
    loops = df.iter_loops(b)
    by_sw = {}
    for sb, tb, v, c in df.variant_edges(b, "database::NodeDependency"):
        by_sw.setdefault(sb, []).append((tb, v))
    for sb, lst in sorted(by_sw.items()):
        encl = [l for l in loops if sb in l.region()]
        if not encl:
            continue
        # innermost enclosing loop = the one whose region is smallest
        lp = min(encl, key=lambda l: len(l.region()))
        arms = {}
        for tb, v in lst:
            others = [t2 for t2, v2 in lst if t2 != tb]
            reg = b.reachable([tb], removed_nodes=[lp.head.bb, sb])
            arms[v] = arm_ops(b, reg)
        out.append((sb, arms, lp))
    return out


def c01c(ctx):
    prog = ctx.prog
    total = 0
    for fn, floor in (("Snapshot::set_computed", 2), ("Snapshot::set_computed_input", 1)):
        o = ctx.ob("C01.c", "%s/arm-symmetry" % fn, "K8", "Single and Unordered dependencies are wired/unwired by the same column operations")
        b = ctx.touch(prog.coroutine_of(fn))
        ms = node_dependency_matches(b)
        o.sites = len(ms)
        total += len(ms)
        if len(ms) < floor:
            ctx.fail(o, Site(b, 0, 0), "expected at least %d matches on NodeDependency inside loops in %s, found %d" % (floor, fn, len(ms)))
        kinds = set()
        for sb, arms, lp in ms:
            single = arms.get(0, set())
            unordered = arms.get(1, arms.get("otherwise", set()))
            if 0 not in arms:
                single = arms.get("otherwise", set())
            if single != unordered:
                ctx.fail(o, Site(b, sb, len(b.blocks[sb]["stmts"])), "the Single arm does %s but the Unordered arm does %s in %s: edges of one kind of dependency "
                         "are not (un)wired" % (sorted(single), sorted(unordered), fn))
            if not single:
                ctx.fail(o, Site(b, sb, len(b.blocks[sb]["stmts"])), "a match on NodeDependency in %s performs no column operation" % fn)
            kinds |= {k for k, c in single if c == "backward_edges"}
        want = {"insert", "remove"} if fn.endswith("set_computed") else {"remove"}
        if not want <= kinds:
            ctx.fail(o, Site(b, 0, 0), "%s must %s backward edges per dependency; found %s" % (fn, "/".join(sorted(want)), sorted(kinds)))
    # K5: which order is iterated
    o = ctx.ob("C01.c", "set_computed/iterated-orders", "K5", "backward edges are inserted for exactly the order that is stored, and removed for the previously stored order")
    b = ctx.touch(prog.coroutine_of("Snapshot::set_computed"))
    ms = node_dependency_matches(b)
    o.sites = len(ms)
    feo_store = [s for s in b.calls(lambda f, t: bool(MAP_WRITE.search(f["path"]))) if "forward_edge_order" in df.access_path(b, s.node["args"][0])]
    if len(feo_store) != 1:
        ctx.fail(o, Site(b, 0, 0), "expected exactly one store to Database::forward_edge_order in set_computed")
    else:
        stored = {x.info for x in df.origins_deep(prog, b, feo_store[0].node["args"][2]) if x.kind == "param"}
        for sb, arms, lp in ms:
            ops = arms.get(0, set()) | arms.get(1, set())
            it_params = {x.info for x in df.origins_deep(prog, b, lp.head.node["args"][0]) if x.kind == "param"}
            if ("insert", "backward_edges") in ops:
                if not (stored & it_params):
                    ctx.fail(o, lp.head, "the insert loop iterates %s but the stored forward_edge_order comes from %s" % (sorted(it_params), sorted(stored)))
            if ("remove", "backward_edges") in ops:
                if stored & it_params:
                    ctx.fail(o, lp.head, "the remove loop iterates the new order instead of the previously stored one")
    # call site: the previously stored order handed to computing_lock_to_computed comes from the snapshot's forward_edge_order()
    o = ctx.ob("C01.c", "execute_query/existing-order-from-snapshot", "K5", "the order used for unwiring is the node's stored forward_edge_order")
    cs = prog.callers_of(r"Snapshot::<C, Q>::computing_lock_to_computed$|Snapshot<C, Q>>::computing_lock_to_computed$")
    if ctx.floor(o, cs, 1, "computing_lock_to_computed call sites"):
        for s in cs:
            os_ = df.origins_deep(prog, s.body, s.node["args"][7])
            if not any(x.kind == "call" and (x.callee() or "").endswith("::forward_edge_order") for x in os_):
                ctx.fail(o, s, "existing_forward_edges does not derive from Snapshot::forward_edge_order()")
    o = ctx.ob("C01.c", "set_computed_input/unwire-stored-order", "K5", "an input write unwires the node's stored forward edges")
    b = ctx.touch(prog.coroutine_of("Snapshot::set_computed_input"))
    ms = node_dependency_matches(b)
    o.sites = len(ms)
    for sb, arms, lp in ms:
        os_ = df.origins_of_operand(b, lp.head.node["args"][0])
        if not any(x.kind == "call" and (x.callee() or "").endswith("::forward_edge_order") for x in os_):
            ctx.fail(o, lp.head, "set_computed_input does not iterate Snapshot::forward_edge_order() when unwiring")


SELF_ID = re.compile(r"Snapshot(::<C, Q>|<C, Q>>)::query_id$|query::QueryID::new$")


def _is_self_id(b, op_):
    """Is the operand this node's own id: `self.query_id()` or `QueryID::new::<Q>(hash)` and nothing else?"""
    os_ = list(df.origins_of_operand(b, op_))
    return bool(os_) and all(x.kind == "call" and SELF_ID.search(x.callee() or "") for x in os_)


def _touches_self_id(b, op_):
    return any(x.kind == "call" and SELF_ID.search(x.callee() or "") for x in df.origins_of_operand(b, op_))


def c01c_roles(ctx):
    """Backward edges are stored per callee (`key = callee, member = caller`), dirty edges as `Edge { from: caller,
    to: callee }`.  A node maintains its own edges, so in every maintenance site of a Snapshot method the caller role is
    the node's own id (`self.query_id()` / `QueryID::new::<Q>(..)`) and the callee role never is.  Two QueryID
    arguments of one type: nothing else keeps them apart."""
    prog = ctx.prog
    o = ctx.ob("C01.c", "edge-roles/backward-edge-key-is-the-callee", "K5",
               "backward_edges.{insert,remove}(key, member): key is the dependency, member is this node's own id; Edge { from, to }: from is this node's own id, to is not")
    n = 0
    for fn in ("Snapshot::set_computed", "Snapshot::set_computed_input", "Snapshot::clean_query"):
        b = ctx.touch(prog.coroutine_of(fn))
        for s_ in b.calls_to(r"key_of_set_map::KeyOfSetMap::(insert|remove)$"):
            if "backward_edges" not in df.access_path(b, s_.node["args"][0]):
                continue
            n += 1
            key, member = s_.node["args"][1], s_.node["args"][2]
            if not _is_self_id(b, member) or _touches_self_id(b, key):
                ctx.fail(o, s_, "%s %ss a backward edge with the roles swapped: the set of the *dependency* must %s *this* node "
                         "(key = callee, member = self.query_id()); a stale or missing backward edge makes dirty propagation and backward projection "
                         "visit the wrong nodes" % (fn, s_.node["fn"]["path"].rsplit("::", 1)[-1], "contain" if s_.node["fn"]["path"].endswith("insert") else "lose"))
        for a in b.assigns(lambda st: st["rv"]["k"] == "agg" and st["rv"].get("ak") == "adt" and (st["rv"].get("adt") or "").endswith("database::Edge")):
            n += 1
            ops = a.node["rv"]["ops"]
            fields = a.node["rv"].get("fields") or ["from", "to"]
            by = dict(zip(fields, ops))
            if not _is_self_id(b, by["from"]) or _touches_self_id(b, by["to"]):
                ctx.fail(o, a, "%s builds an Edge whose `from` is not this node (or whose `to` is): dirty marks are keyed `from = caller, to = callee`" % fn)
    # the same two roles outside Snapshot: dirty marks written by the propagation worker, and the dirty test of the repair
    pt = ctx.touch(prog.coroutine_of("DirtyWorker::process_task"))
    def who(b, op_):
        out = set()
        for x in df.origins_deep(prog, b, op_):
            if x.kind == "call" and (x.callee() or "").endswith("get_backward_edges_unchecked"):
                out.add("caller")       # an element of the callee's backward set
            elif x.kind == "call" and re.search(r"DirtyTask::<C>::query_id$", x.callee() or ""):
                out.add("callee")       # the node whose change is being propagated
            else:
                out.add("?")
        return out
    for s_ in pt.calls_to(r"database::Edge::new$"):
        n += 1
        if who(pt, s_.node["args"][0]) != {"caller"} or who(pt, s_.node["args"][1]) != {"callee"}:
            ctx.fail(o, s_, "process_task buffers a dirty edge as Edge::new(%s, %s): `from` must be the caller taken from the backward set, `to` the propagated node" % (
                sorted(who(pt, s_.node["args"][0])), sorted(who(pt, s_.node["args"][1]))))
    for s_ in pt.calls_to(r"mark_dirty_forward_edge$"):
        n += 1
        if who(pt, s_.node["args"][1]) != {"caller"} or who(pt, s_.node["args"][2]) != {"callee"}:
            ctx.fail(o, s_, "process_task marks the dirty edge with the roles swapped")
    cc = ctx.touch(prog.coroutine_of("Snapshot::check_callee"))
    parent = prog.body("Snapshot::check_callee")
    idx = {nm: "_%d" % pl[0] for nm, pl in (parent.rec.get("dbg") or []) if isinstance(pl, list) and not pl[1]}
    for s_ in cc.calls_to(r"Engine<C>>::is_edge_dirty$|Engine::<C>::is_edge_dirty$"):
        n += 1
        fo = {str(x.info) for x in df.origins_deep(prog, cc, s_.node["args"][1]) if x.kind == "param"}
        to = {str(x.info) for x in df.origins_deep(prog, cc, s_.node["args"][2]) if x.kind == "param"}
        if "query_id" not in idx or "callee" not in idx:
            ctx.fail(o, s_, "anchor missing: the `query_id` / `callee` parameters of check_callee")
        elif fo != {idx["query_id"]} or to != {idx["callee"]}:
            ctx.fail(o, s_, "check_callee asks is_edge_dirty(from, to) with the roles swapped: the edge whose mark decides the repair is `this node -> callee`")
    o.sites = n
    if n < 11:
        ctx.fail(o, "(program)", "expected >= 11 edge-role sites (Snapshot maintenance, process_task, check_callee), found %d" % n)


def c01d(ctx):
    prog = ctx.prog
    o = ctx.ob("C01.d", "repair_query/clear-before-execute", "K1", "dependencies recorded while repairing are cleared before the executor re-runs")
    b = ctx.touch(prog.async_body("Snapshot::repair_query"))
    cl = b.calls_to(r"QueryComputing::clear_dependencies$")
    ex = b.calls_to(r"::execute_query$")
    o.sites = len(cl) + len(ex)
    if len(ex) != 1:
        ctx.fail(o, Site(b, 0, 0), "anchor missing: execute_query call in repair_query")
        return
    if not cl or not any(b.site_dominates(c, ex[0]) for c in cl):
        ctx.fail(o, ex[0], "execute_query is reachable in repair_query without clear_dependencies(): dependencies recorded during repair (or by the "
                 "previous run) survive into the new forward-edge list")
    # the same computing record is the one the executor will record into
    for c in cl:
        ap = df.access_path(b, c.node["args"][0])
        os_ = df.origins_of_operand(b, c.node["args"][0])
        if not any(x.kind == "call" and (x.callee() or "").endswith("ComputingLockGuard::<C>::query_computing") for x in os_):
            ctx.fail(o, c, "clear_dependencies is not applied to the lock guard's QueryComputing")
    o2 = ctx.ob("C01.d", "clear_dependencies/clears-both", "K3", "clear_dependencies clears the callee table and the callee order")
    cb = ctx.touch(prog.body("QueryComputing::clear_dependencies"))
    a = cb.calls_to(r"scc::hash_map::HashMap::<K, V, H>::clear_sync$")
    c2 = cb.calls_to(r"CalleeOrder::clear$")
    o2.sites = len(a) + len(c2)
    if not a or not c2 or cb.must_pass([0], [a[0].bb]) or cb.must_pass([0], [c2[0].bb]):
        ctx.fail(o2, Site(cb, 0, 0), "clear_dependencies must clear callee_queries and callee_order on every path")


def c01e(ctx):
    prog = ctx.prog
    o = ctx.ob("C01.e", "commit_internal/propagate-before-submit", "K1+K5", "a session's dirtiness is propagated before its batch is submitted, into that batch")
    b = ctx.touch(prog.coroutine_of("InputSession::commit_internal"))
    pr = b.calls_to(r"::dirty_propagate_from_batch$")
    sb = b.calls_to(r"::submit_write_buffer$")
    o.sites = len(pr) + len(sb)
    if len(pr) != 1 or len(sb) != 1:
        ctx.fail(o, Site(b, 0, 0), "expected one dirty_propagate_from_batch and one submit_write_buffer in commit_internal")
        return
    aw = df.await_of_call(b, pr[0])
    if aw is None or not aw.completed_before(sb[0]):
        ctx.fail(o, sb[0], "the session batch is submitted before dirty propagation completed")
    if b.must_pass([0], [sb[0].bb]):
        ctx.fail(o, sb[0], "commit_internal can return without submitting the session batch")
    os_ = df.origins_of_operand(b, sb[0].node["args"][1])
    if not any(x.kind == "call" and x.site == pr[0] for x in os_):
        ctx.fail(o, sb[0], "the batch submitted is not the one returned by dirty_propagate_from_batch")
    # the ids propagated are the session's dirty list; the batch handed in is the session batch
    for idx, nm in ((1, "dirty_batch"), (2, "transaction")):
        oo = df.origins_of_operand(b, pr[0].node["args"][idx])
        if not any(x.kind == "param" for x in oo):
            ctx.fail(o, pr[0], "dirty_propagate_from_batch is not fed the session's %s" % nm)


def c01f(ctx):
    prog = ctx.prog
    o = ctx.ob("C01.f", "fast_path/hit-requires-current-epoch", "K4", "a cached value is served only when the node was verified in the caller's epoch")
    b = ctx.touch(prog.coroutine_of("Snapshot::fast_path"))
    hits = b.aggregates(r"fast_path::FastPathResult$", "Hit")
    o.sites = len(hits)
    if not hits:
        ctx.fail(o, Site(b, 0, 0), "anchor missing: FastPathResult::Hit construction")
    for h in hits:
        ok = df.dominated_by_equality(b, h.bb, "eq", lambda x, y: x.has("last_verified") and x.has("CallerInformation::timestamp") is False and y.has("CallerInformation::timestamp"))
        if not ok:
            ctx.fail(o, h, "FastPathResult::Hit is reachable without `last_verified == caller.timestamp()`: a node verified in another epoch would be served unrepaired")
    o = ctx.ob("C01.f", "check_callee/cleaned-requires-equal-fingerprint", "K4", "a callee counts as clean only if its value fingerprint equals the one observed by the caller")
    b = ctx.touch(prog.coroutine_of("Snapshot::check_callee"))
    cl = b.aggregates(r"repair::CalleeCheckDecision$", "Cleaned")
    o.sites = len(cl)
    if not cl:
        ctx.fail(o, Site(b, 0, 0), "anchor missing: CalleeCheckDecision::Cleaned construction")
    for h in cl:
        ok = df.dominated_by_equality(b, h.bb, "eq", lambda x, y: x.has("NodeInfo::value_fingerprint") and y.has("seen_value_fingerprint"))
        if not ok:
            ctx.fail(o, h, "CalleeCheckDecision::Cleaned is reachable without value_fingerprint() == seen_value_fingerprint: a changed callee would not force a recompute")
    # the fingerprint compared is the callee's *current* node info, read after the recursive repair
    rep = b.calls_to(r"executor::Entry::<C>::repair_query_from_query_id$")
    info = b.calls_to(r"::get_node_info_unchecked$")
    if len(rep) != 1 or not info:
        ctx.fail(o, Site(b, 0, 0), "anchors missing in check_callee (repair=%d, node-info read=%d)" % (len(rep), len(info)))
    else:
        aw = df.await_of_call(b, rep[0])
        for i_ in info:
            # every read of the callee's node info happens after the repair on every path that repairs: a decision taken on
            # what is stored BEFORE the repair compares the observation with a possibly stale value (the value may have
            # moved away and back: the caller would be re-executed, or kept, for the wrong reason)
            if aw is None or i_.bb not in b.reachable([aw.ready_edge[1]]):
                ctx.fail(o, i_, "check_callee reads the callee's node info without having repaired the callee first: the fingerprint it compares may be stale")
            if b.site_dominates(i_, rep[0]):
                ctx.fail(o, i_, "check_callee reads the callee's node info BEFORE the callee is repaired: a decision (Recompute / Cleaned) taken on it compares the caller's "
                         "observation with a value that the repair may still change back")
    # recompute_decision: a Recompute from any callee stops with Recompute
    o = ctx.ob("C01.f", "recompute_decision/recompute-propagates", "K4", "one differing callee is enough to recompute")
    b = ctx.touch(prog.coroutine_of("Snapshot::recompute_decision_based_on_forward_edges"))
    rec = b.aggregates(r"repair::RepairDecision$", "Recompute")
    cln = b.aggregates(r"repair::RepairDecision$", "Clean")
    o.sites = len(rec) + len(cln)
    if len(rec) < 2 or len(cln) != 1:
        ctx.fail(o, Site(b, 0, 0), "expected >=2 Recompute exits and exactly one Clean exit (found %d / %d)" % (len(rec), len(cln)))
    else:
        # Clean must not be reachable from the CalleeCheckDecision::Recompute arm
        for sb, tb, v, c in df.variant_edges(b, "repair::CalleeCheckDecision"):
            if v == 0 and cln[0].bb in b.reachable([tb]):
                ctx.fail(o, cln[0], "RepairDecision::Clean is reachable after a callee answered Recompute")


def c01g(ctx):
    prog = ctx.prog
    o = ctx.ob("C01.g", "unordered-group-is-unsafe", "K10", "recording an unordered dependency group is fenced by `unsafe`")
    n = 0
    for key, sig in prog.sigs.items():
        if re.search(r"TrackedEngine.*|computing::\{impl#\d+\}::(start|end)_unordered_callee_group$", key) and key.endswith("_unordered_callee_group"):
            if "QueryComputing" in sig["inputs"][0]["ty"] if sig["inputs"] else False:
                continue
            if "TrackedEngine" in (sig["inputs"][0]["ty"] if sig["inputs"] else ""):
                n += 1
                if not sig.get("is_unsafe"):
                    ctx.fail(o, "(signature)", "%s is a safe fn: executors could declare order-independent reads without the documented obligation" % short(sig["path"]))
    o.sites = n
    if n != 2:
        ctx.fail(o, "(program)", "expected TrackedEngine::{start,end}_unordered_callee_group, found %d" % n)


def c01h(ctx):
    """Every stored fingerprint is the hash of the value that is stored next to it."""
    prog = ctx.prog
    o = ctx.ob("C01.h", "clean_query/tfc-fingerprint-of-new-tfc", "K1+K5", "the stored transitive-firewall fingerprint is the hash of the firewall set stored with it")
    b = ctx.touch(prog.coroutine_of("Snapshot::clean_query"))
    st_tfc = b.assigns(lambda st: any(e.startswith("f:transitive_firewall_callees#") for e in st["lhs"][1]))
    st_fp = b.assigns(lambda st: any(e.startswith("f:transitive_firewall_callees_fingerprint#") for e in st["lhs"][1]))
    hs = [s for s in b.calls_to(r"Engine<C>>::hash$|Engine::<C>::hash$") if "transitive_firewall_callees" in df.access_path(b, s.node["args"][1])]
    o.sites = len(st_tfc) + len(st_fp) + len(hs)
    ctor = b.calls_to(r"database::NodeInfo::new$")
    if not st_tfc and not st_fp and len(ctor) == 1:
        # constructor form: the node info is rebuilt with NodeInfo::new(value fingerprint, firewall fingerprint, firewall set)
        o.sites += 1
        a = ctor[0].node["args"]
        is_hash = lambda x: x.kind == "call" and re.search(r"::hash$", x.callee() or "")
        fp_o = df.origins_of_operand(b, a[1])
        hcalls = [x.site for x in fp_o if is_hash(x)]
        if len(hcalls) != 1 or any(not is_hash(x) for x in fp_o if x.kind == "call"):
            ctx.fail(o, ctor[0], "clean_query rebuilds the node info with a firewall-set fingerprint that is not the hash of the new firewall set (argument 2 of NodeInfo::new "
                     "comes from %s): callers comparing firewall fingerprints see a change that did not happen, or miss one that did"
                     % ", ".join(sorted((x.callee() or x.kind).rsplit("::", 1)[-1] for x in fp_o)))
        else:
            hashed = {x.key() for x in df.origins_of_operand(b, hcalls[0].node["args"][1]) if x.kind in ("param", "call")}
            stored = {x.key() for x in df.origins_of_operand(b, a[2]) if x.kind in ("param", "call")}
            if not (hashed & stored):
                ctx.fail(o, ctor[0], "clean_query stores a firewall set together with the fingerprint of a different value")
        vo = df.origins_of_operand(b, a[0])
        if any(is_hash(x) for x in vo) or not any(x.kind == "call" and re.search(r"NodeInfo::value_fingerprint$", x.callee() or "") for x in vo):
            ctx.fail(o, ctor[0], "clean_query rebuilds the node info with a VALUE fingerprint that is not the node's current one (argument 1 of NodeInfo::new comes from %s): a "
                     "query verified clean gets a different stored value fingerprint although its value is unchanged, and every caller above it is re-executed without "
                     "justification (or, with a stale one, not re-executed when it must be)" % ", ".join(sorted((x.callee() or x.kind).rsplit("::", 1)[-1] for x in vo)))
        if not any(x.kind == "param" for x in df.origins_of_operand(b, a[2])):
            ctx.fail(o, ctor[0], "the firewall set stored is not the `new_tfc` argument")
    elif len(st_tfc) != 1 or len(st_fp) != 1 or len(hs) != 1:
        ctx.fail(o, Site(b, 0, 0), "anchors missing in clean_query (store tfc=%d, store fingerprint=%d, hash(tfc)=%d)" % (len(st_tfc), len(st_fp), len(hs)))
    else:
        if st_tfc[0].node["lhs"][0] != st_fp[0].node["lhs"][0]:
            ctx.fail(o, st_fp[0], "fingerprint and firewall set are stored into different NodeInfo values")
        # the hashed place is the field of the same local, and the new set is stored into it before it is hashed
        hl = df.access_path(b, hs[0].node["args"][1])
        if not b.site_dominates(st_tfc[0], hs[0]):
            ctx.fail(o, hs[0], "clean_query hashes the firewall set before storing the new one: the node keeps the fingerprint of its OLD transitive-firewall set, so callers "
                     "comparing fingerprints never learn about a new firewall dependency and skip repairing it")
        if not any(x.kind == "call" and x.site == hs[0] for x in df.origins_of_operand(b, st_fp[0].node["rv"]["op"])) if st_fp[0].node["rv"]["k"] == "use" else True:
            ctx.fail(o, st_fp[0], "the stored fingerprint is not the result of hashing the firewall set")
        if not any(x.kind == "param" for x in df.origins_of_operand(b, st_tfc[0].node["rv"]["op"])) if st_tfc[0].node["rv"]["k"] == "use" else True:
            ctx.fail(o, st_tfc[0], "the firewall set stored is not the `new_tfc` argument")
    for fn in ("Snapshot::set_computed", "Snapshot::set_computed_input"):
        o = ctx.ob("C01.h", "%s/node-info-fingerprints" % fn, "K5", "NodeInfo is built with the hash of the firewall set (and of the value) stored next to it")
        b = ctx.touch(prog.coroutine_of(fn))
        ni = b.calls_to(r"database::NodeInfo::new$")
        o.sites = len(ni)
        if len(ni) != 1:
            ctx.fail(o, Site(b, 0, 0), "expected one NodeInfo::new in %s" % fn)
            continue
        a = ni[0].node["args"]
        fp_o = df.origins_of_operand(b, a[1])
        hcalls = [x.site for x in fp_o if x.kind == "call" and re.search(r"::hash$", x.callee() or "")]
        if len(hcalls) != 1:
            ctx.fail(o, ni[0], "the firewall fingerprint given to NodeInfo::new is not a hash")
            continue
        hashed = {x.key() for x in df.origins_of_operand(b, hcalls[0].node["args"][1]) if x.kind in ("param", "call")}
        stored = {x.key() for x in df.origins_of_operand(b, a[2]) if x.kind in ("param", "call")}
        if not (hashed & stored):
            ctx.fail(o, ni[0], "%s stores a firewall set together with the fingerprint of a different value" % fn)
        if fn.endswith("set_computed"):
            # value fingerprint: either handed in (already computed from this value in execute_query) or hash(&query_value)
            vo = df.origins_of_operand(b, a[0])
            vh = [x.site for x in vo if x.kind == "call" and re.search(r"::hash$", x.callee() or "")]
            if vh:
                hv = {x.key() for x in df.origins_deep(prog, b, vh[0].node["args"][1]) if x.kind == "param"}
                qv = [s_ for s_ in b.aggregates(r"database::QueryResult$")]
                sv = {x.key() for x in df.origins_of_operand(b, qv[0].node["rv"]["ops"][0]) if x.kind == "param"} if qv else set()
                if not (hv & sv):
                    ctx.fail(o, ni[0], "the value fingerprint is computed from something other than the value that is stored")
    # execute_query: the fingerprint handed to set_computed is the hash of the value handed to it
    o = ctx.ob("C01.h", "execute_query/fingerprint-of-published-value", "K5", "the fingerprint compared and published by execute_query is the hash of the value it publishes")
    eq = [x for x in prog.find(r"^Snapshot::execute_query::") if x.is_coroutine and x.calls_to(r"::computing_lock_to_computed$")]
    if len(eq) != 1:
        ctx.fail(o, "(program)", "anchor missing: publish block of execute_query")
    else:
        b = ctx.touch(eq[0])
        cc = b.calls_to(r"::computing_lock_to_computed$")[0]
        o.sites = 1
        fo = [x.site for x in df.origins_of_operand(b, cc.node["args"][3]) if x.kind == "call" and re.search(r"::hash$", x.callee() or "")]
        if len(fo) != 1:
            ctx.fail(o, cc, "the fingerprint handed to computing_lock_to_computed is not a single hash")
        else:
            hv = {x.key() for x in df.origins_deep(prog, b, fo[0].node["args"][1])}
            pv = {x.key() for x in df.origins_deep(prog, b, cc.node["args"][2])}
            if not (hv & pv):
                ctx.fail(o, cc, "execute_query publishes a value together with the fingerprint of another value")


def _non_monotone_writes(b, op_):
    """Follows the bool operand back through plain copies; every assignment on the way must be a constant, a copy, or
    `flag = flag | x` (which can only raise it).  Returns descriptions of the other assignments."""
    if op_.get("c") is not None:
        return []
    chain, work, bad = set(), [op_local(op_)], []
    while work:
        l = work.pop()
        if l is None or l in chain:
            continue
        chain.add(l)
        for a in b.assigns(lambda st, l=l: st["lhs"][0] == l and not st["lhs"][1]):
            rv = a.node["rv"]
            if rv["k"] == "use":
                if rv["op"].get("c") is None:
                    work.append(op_local(rv["op"]))
            elif rv["k"] == "bin" and rv["op"] in ("BitOr",) and (op_local(rv["a"]) == l or op_local(rv["b"]) == l):
                pass
            elif rv["k"] == "bin" and rv["op"] in ("BitOr",):
                work.append(op_local(rv["a"]))   # a | b of two flags: both must be monotone themselves
                work.append(op_local(rv["b"]))
            else:
                bad.append("%s at line %d" % (rv["k"] + (":" + rv["op"] if rv["k"] == "bin" else ""), a.line))
        # a value produced by a call or taken out of another value (no assignment found above)
        for s_ in b.calls():
            if s_.node["dest"] and s_.node["dest"][0] == l and not s_.node["dest"][1]:
                bad.append("result of %s" % short(s_.node["fn"]["path"]))
    return bad


def c01i(ctx):
    """The repair decision aggregates what was learnt about *all* forward edges: `repair_transitive_firewall_callees`
    is a sticky flag (some callee's firewall set changed) and `cleaned_edges` a growing list.  A flag that takes the
    value of the *last* callee, or a list that is replaced, forgets earlier callees: the node is then verified without
    repairing the firewalls it newly reaches and later misses their changes."""
    prog = ctx.prog
    o = ctx.ob("C01.i", "repair-decision/accumulators-are-monotone", "K5",
               "in every *Decision value the firewall-repair flag is built from the constants false/true only and the clean list from one Vec::new() that is only appended to")
    n = 0
    for b in prog.all_bodies(["qbice"]):
        if not b.file.endswith("computation_graph/repair.rs"):
            continue
        for a in b.assigns(lambda st: st["rv"]["k"] == "agg" and st["rv"].get("ak") == "adt" and (st["rv"].get("adt") or "").endswith("Decision")):
            rv = a.node["rv"]
            for f, op_ in zip(rv.get("fields") or [], rv["ops"]):
                if f == "repair_transitive_firewall_callees":
                    n += 1
                    ctx.touch(b)
                    bad = _non_monotone_writes(b, op_)
                    if bad:
                        ctx.fail(o, a, "%s: `repair_transitive_firewall_callees` takes a per-callee value (%s) instead of being raised to true (or OR-ed) and left "
                                 "there: a later callee resets what an earlier one demanded" % (b.name, ", ".join(sorted(bad))))
                elif f == "cleaned_edges":
                    n += 1
                    os_ = list(df.origins_of_operand(b, op_))
                    if len(os_) != 1 or os_[0].kind != "call" or not (os_[0].callee() or "").endswith("Vec::<T>::new"):
                        ctx.fail(o, a, "%s: `cleaned_edges` is not one list that is only appended to (origins: %s)" % (
                            b.name, sorted({short(x.callee() or "") if x.kind == "call" else x.kind for x in os_})))
    # polarity: the flag is raised where the per-callee answer says `repair needed`, not where it says it is not
    for nm in ("Snapshot::recompute_decision_based_on_forward_edges", "Snapshot::check_callee_chunked"):
        b = ctx.touch(prog.coroutine_of(nm))
        for a in b.assigns(lambda st: st["rv"]["k"] == "use" and (st["rv"]["op"].get("c") or {}).get("s") == "true" and not st["lhs"][1]):
            for sb in df.switches(b):
                t = b.blocks[sb]["term"]
                l = op_local(t["op"])
                if l is None:
                    continue
                # the switch operand is (a copy of) the `repair_transitive_firewall_callees` field of a per-callee answer
                def from_field(l_, depth=3):
                    for st_ in b.assigns(lambda st, l_=l_: st["lhs"][0] == l_ and not st["lhs"][1] and st["rv"]["k"] == "use" and df.op_place(st["rv"]["op"]) is not None):
                        pl_ = df.op_place(st_.node["rv"]["op"])
                        if any(e.startswith("f:repair_transitive_firewall_callees") for e in pl_[1]):
                            return True
                        if not pl_[1] and depth > 0 and from_field(pl_[0], depth - 1):
                            return True
                    return False
                if not from_field(l):
                    continue
                for v, tb in df.switch_edges(b, sb):
                    if (a.bb == tb or b.edge_dominates((sb, tb), a.bb)) and a.bb in b.reachable([tb]) and a.bb not in b.reachable([x for vv, x in df.switch_edges(b, sb) if x != tb], removed_nodes=[sb]):
                        n += 1
                        pol = (v != 0 and v != "0") if v != "otherwise" else True
                        if not pol:
                            ctx.fail(o, a, "%s raises the firewall-repair flag when a callee answered that NO repair is needed (inverted test): the repair is skipped exactly when it is required" % nm)
    # ... and it IS raised there: every test of a per-callee `repair needed` answer has, on its true edge, an assignment of
    # the constant true (an answer that is looked at and then dropped loses the demand just the same)
    for nm in ("Snapshot::recompute_decision_based_on_forward_edges", "Snapshot::check_callee_chunked"):
        b = prog.coroutine_of(nm)
        trues = b.assigns(lambda st: st["rv"]["k"] == "use" and (st["rv"]["op"].get("c") or {}).get("s") == "true" and not st["lhs"][1])

        def from_field2(l_, depth=3):
            for st_ in b.assigns(lambda st, l_=l_: st["lhs"][0] == l_ and not st["lhs"][1] and st["rv"]["k"] == "use" and df.op_place(st["rv"]["op"]) is not None):
                pl_ = df.op_place(st_.node["rv"]["op"])
                if any(e.startswith("f:repair_transitive_firewall_callees") for e in pl_[1]):
                    return True
                if not pl_[1] and depth > 0 and from_field2(pl_[0], depth - 1):
                    return True
            return False
        for sb in df.switches(b):
            l = op_local(b.blocks[sb]["term"]["op"])
            if l is None or not from_field2(l):
                continue
            n += 1
            raised = False
            for v, tb in df.switch_edges(b, sb):
                pol = (v != 0 and v != "0") if v != "otherwise" else True
                if pol and any(a.bb == tb or (b.edge_dominates((sb, tb), a.bb) and a.bb in b.reachable([tb])) for a in trues):
                    raised = True
            if not raised:
                ctx.fail(o, Site(b, sb, len(b.blocks[sb]["stmts"])), "%s looks at a callee's `repair needed` answer and does not raise the firewall-repair flag on it: the node is verified "
                         "clean without repairing the firewalls it newly reaches" % nm)
    o.sites = n
    if n < 5:
        ctx.fail(o, "(program)", "expected >= 5 accumulator fields in the *Decision values of repair.rs, found %d" % n)


def c01j(ctx):
    """A node's transitive-firewall set is  U over its callees c of  ({c} if c is a firewall else tfc(c)).  It is built at
    two sibling sites (while executing: QueryComputing::caller_observe_tfc_callees; when a node is verified clean but a
    callee's set changed: should_recompute_query).  Both must have the two halves under the right kind test: if the
    `inherit` half is lost the node stops repairing firewalls below non-firewall callees, if the `itself` half is lost it
    never repairs the firewall it calls — later changes below them are missed."""
    prog = ctx.prog
    SET_ADD = r"HashSet::<[^>]*>::(insert|insert_sync)$|Extend::extend$"
    def through_receivers(b, op_, depth=8):
        """origins of op_, looking through the receivers of adaptor calls (iter(), copied(), deref() ...)"""
        out, work, seen = [], [(op_, depth)], set()
        while work:
            o_, d = work.pop()
            for x in df.origins_of_operand(b, o_):
                out.append(x)
                if x.kind == "call" and d > 0 and x.site.node["args"] and (x.site.bb, d) not in seen:
                    seen.add((x.site.bb, d))
                    work.append((x.site.node["args"][0], d - 1))
        return out

    def halves(b):
        own, inherit = [], []
        for s_ in b.calls_to(SET_ADD):
            os_ = through_receivers(b, s_.node["args"][1])
            if any(x.kind == "call" and (x.callee() or "").endswith("::transitive_firewall_callees") for x in os_):
                inherit.append(s_)
            elif os_:
                own.append(s_)
        return own, inherit
    # ---- site B: match on the callee's kind
    o = ctx.ob("C01.j", "tfc-composition/while-executing", "K4+K8",
               "caller_observe_tfc_callees adds the callee itself exactly for Firewall callees and the callee's own set exactly for Normal/Projection callees")
    b = ctx.touch(prog.body("QueryComputing::caller_observe_tfc_callees"))
    own, inherit = halves(b)
    o.sites = len(own) + len(inherit)
    adt = next((k for k in prog.adts if k.endswith("::ExecutionStyle")), None)
    names = [v["name"] for v in prog.adts[adt]["variants"]] if adt else []
    edges = df.variant_edges(b, "::ExecutionStyle")
    def variants_reaching(site):
        out = set()
        for sb, tb, v, c in edges:
            if v != "otherwise" and (site.bb == tb or site.bb in b.reachable([tb])):
                out.add(names[int(v)] if names and int(v) < len(names) else str(v))
        return out
    if not own or not inherit or not edges:
        ctx.fail(o, Site(b, 0, 0), "caller_observe_tfc_callees must both add a firewall callee itself and inherit a non-firewall callee's set "
                 "(found %d / %d such insertions, %d kind tests)" % (len(own), len(inherit), len(edges)))
    else:
        for s_ in own:
            if variants_reaching(s_) != {"Firewall"}:
                ctx.fail(o, s_, "the callee itself is added to the firewall set for callees of kind %s (must be exactly Firewall)" % sorted(variants_reaching(s_)))
            if not any(x.kind == "param" for x in df.origins_of_operand(b, s_.node["args"][1])):
                ctx.fail(o, s_, "what is added under the Firewall arm is not the callee's id")
        for s_ in inherit:
            if variants_reaching(s_) != {"Normal", "Projection"}:
                ctx.fail(o, s_, "a callee's own firewall set is inherited for callees of kind %s (must be exactly Normal and Projection)" % sorted(variants_reaching(s_)))
    # ---- site A: if kind.is_firewall() { insert(x) } else { extend(tfc(x)) }
    o = ctx.ob("C01.j", "tfc-composition/when-verified-clean", "K4+K8",
               "should_recompute_query rebuilds the set with the callee itself under is_firewall() and the callee's set otherwise")
    b = ctx.touch(prog.coroutine_of("Snapshot::should_recompute_query"))
    own, inherit = halves(b)
    o.sites = len(own) + len(inherit)
    is_fw = lambda c: c.kind == "call" and c.callee.endswith("QueryKind::is_firewall")
    if not own or not inherit:
        ctx.fail(o, Site(b, 0, 0), "should_recompute_query must both add a firewall callee itself and inherit a non-firewall callee's set "
                 "(found %d / %d such insertions)" % (len(own), len(inherit)))
    else:
        for s_, want in [(x, True) for x in own] + [(x, False) for x in inherit]:
            g = df.guarded_by(b, s_.bb, is_fw)
            pol = {(v != 0) != c.negated for sb, v, tb, c in g if v != "otherwise"} | {(not c.negated) for sb, v, tb, c in g if v == "otherwise"}
            if pol != {want}:
                ctx.fail(o, s_, "%s under `is_firewall() == %s` (found guards: %s)" % (
                    "the callee itself must be added" if want else "the callee's own set must be inherited", str(want).lower(), sorted(pol) or "none"))


def _flag_writes(b, op_):
    """[(site, operand)] of the assignments that can give the bool operand its value (through plain copies)."""
    start = op_local(op_)
    seen, work, out = set(), [start], []
    while work:
        l = work.pop()
        if l in seen or l is None:
            continue
        seen.add(l)
        for a in b.assigns(lambda st, l=l: st["lhs"][0] == l and not st["lhs"][1] and st["rv"]["k"] == "use"):
            src = a.node["rv"]["op"]
            out.append((a, src))
            if src.get("c") is None and op_local(src) is not None:
                work.append(op_local(src))
    return out


def c01k(ctx):
    """How strictly a callee is re-verified (`pedantic_repair`) is inherited down the call chain, and a recomputation
    triggered by backward projection is always strict.  A constant in its place silently weakens every repair below."""
    prog = ctx.prog
    o = ctx.ob("C01.k", "pedantic-repair/inherited-not-constant", "K5",
               "new_with_pedantic_repair receives the caller's strictness: check_callee hands on its parameter; execute_query the caller's flag, true for backward projection")
    sites = prog.callers_of(r"QueryCaller::new_with_pedantic_repair$")
    o.sites = len(sites)
    if len(sites) < 2:
        ctx.fail(o, "(program)", "expected >= 2 QueryCaller::new_with_pedantic_repair call sites, found %d" % len(sites))
    for s_ in sites:
        b = ctx.touch(s_.body)
        os_ = list(df.origins_deep(prog, b, s_.node["args"][3]))
        if "check_callee" in b.name:
            if not os_ or any(x.kind != "param" for x in os_):
                ctx.fail(o, s_, "check_callee re-verifies its callee with a strictness that is not the one it was asked for (origins: %s)" % sorted(str(x) for x in os_))
        elif "execute_query" in b.name:
            # the strictness is computed where the kind test lives: in execute_query itself (older shape) or in the helper
            # CallerInformation::pedantic_repair (since D19), which the repair sites use as well
            helper = [x for x in os_ if x.kind == "call" and (x.callee() or "").endswith("CallerInformation::pedantic_repair")]
            hb = b
            if helper:
                hb = ctx.touch(prog.body("CallerInformation::pedantic_repair"))
                inner = [x for x in hb.calls_to(r"QueryCaller::pedantic_repair$")]
                if not inner:
                    ctx.fail(o, s_, "CallerInformation::pedantic_repair does not hand on the calling query's own strictness")
                trues = [a for a in hb.assigns(lambda st: st["rv"]["k"] == "use" and (st["rv"]["op"].get("c") or {}).get("s") == "true" and st["lhs"][0] == 0)]
            else:
                if not any(x.kind == "call" and (x.callee() or "").endswith("QueryCaller::pedantic_repair") for x in os_):
                    ctx.fail(o, s_, "execute_query does not hand the caller's pedantic_repair flag on to the queries its executor makes")
                trues = [a for a, src in _flag_writes(b, s_.node["args"][3]) if (src.get("c") or {}).get("s") == "true" or (src.get("c") or {}).get("v") in (1, True)]
            edges = [(sb, tb) for sb, tb, v, c in df.variant_edges(hb, "::CallerKind") if v != "otherwise" and _variant_name(prog, c.adt, v) == "BackwardProjectionPropagation"]
            if not edges:
                ctx.fail(o, s_, "%s does not distinguish CallerKind::BackwardProjectionPropagation when choosing the strictness" % hb.name)
            elif not any(any(a.bb == tb or (hb.edge_dominates((sb, tb), a.bb) and a.bb in hb.reachable([tb])) for sb, tb in edges) for a in trues):
                ctx.fail(o, s_, "a repair / recomputation triggered by backward projection is not strict (pedantic_repair is not `true` on the BackwardProjectionPropagation arm of %s)" % hb.name)
        else:
            if any(x.kind == "const" for x in os_) and len(os_) == 1:
                ctx.fail(o, s_, "%s fixes pedantic_repair to a constant" % b.name)
    # the decision argument `clean_existing_forward_edges` of the publication is `this is a recomputation`, not a constant
    o2 = ctx.ob("C01.k", "execute_query/dirty-edges-cleaned-exactly-on-recompute", "K5",
                "computing_lock_to_computed is told to clean the old dirty edges exactly when the execution is a recomputation")
    cs = prog.callers_of(r"computing_lock_to_computed$")
    o2.sites = len(cs)
    for s_ in cs:
        os_ = list(df.origins_deep(prog, s_.body, s_.node["args"][8]))
        if not os_ or not all(x.kind == "call" and re.search(r"PartialEq::eq$", x.callee() or "") for x in os_):
            ctx.fail(o2, s_, "clean_existing_forward_edges is %s instead of `execute_query_for == RecomputeQuery`: stale dirty marks survive a recomputation "
                     "(or are cleaned for a fresh node)" % sorted(str(x) for x in os_))
    if len(cs) != 1:
        ctx.fail(o2, "(program)", "expected exactly one call of computing_lock_to_computed, found %d" % len(cs))


TRUNCATING = re.compile(r"Iterator::(take|skip|step_by|take_while|skip_while|nth|nth_back)$|slice::<impl \[T\]>::(first|last|split_first|split_last|get)$")


def c01l(ctx):
    """Dirty marking, repair of firewalls / unordered groups and backward projection fan work out over *all* elements of
    a list (backward edges, firewall set, callee group, projection list).  A truncating adaptor on such an iteration
    silently drops the tail; nothing else in the code would notice."""
    prog = ctx.prog
    o = ctx.ob("C01.l", "fan-out/no-truncating-adaptor", "K3",
               "no take/skip/step_by/take_while/skip_while/nth on an iterator inside the engine's fan-out bodies (those that spawn tasks or submit dirty tasks)")
    n = fan = 0
    FAN = r"JoinSet::<T>::spawn$|tokio::task::spawn::spawn$|DirtyWorker::<C>::submit_task$|Injector::<T>::push$"
    for b in prog.all_bodies(["qbice"]):
        if "computation_graph" not in b.file:
            continue
        if not b.calls_to(FAN):
            continue
        fan += 1
        ctx.touch(b)
        for s_ in b.calls():
            n += 1
            if re.search(r"Iterator::(take|skip|step_by|take_while|skip_while|nth|nth_back)$", s_.node["fn"]["path"]):
                ctx.fail(o, s_, "%s truncates an iteration with %s in a body that fans work out: the elements cut off are never marked / repaired / re-projected" % (
                    b.name, short(s_.node["fn"]["path"])))
    o.sites = n
    if fan < 5:
        ctx.fail(o, "(program)", "expected >= 5 fan-out bodies in the engine, found %d" % fan)


def c01m(ctx):
    """While a query executes, its dependencies live in two places: the set `callee_queries` (who) and the list
    `callee_order` (in which order; this is what gets stored and later repaired in that order).  Every change of the
    set must be mirrored in the list on every path, else the stored order misses a dependency (never re-verified) or keeps
    an aborted one."""
    prog = ctx.prog
    o = ctx.ob("C01.m", "callee-set-and-order-move-together", "K2",
               "every insert/remove/clear on QueryComputing.callee_queries is paired on every path (before or after) with CalleeOrder::push/abort_callee/clear")
    PARTNER = {"insert": r"CalleeOrder::push$", "remove": r"CalleeOrder::abort_callee$", "clear": r"CalleeOrder::clear$"}
    n = 0
    for b in prog.all_bodies(["qbice"]):
        writes = []
        for s_ in b.calls_to(r"scc::hash_map::HashMap::<K, V, H>::(remove_sync|clear_sync|insert_sync|upsert_sync|remove_async|insert_async)$"):
            if "callee_queries" in df.access_path(b, s_.node["args"][0]):
                nm = s_.node["fn"]["path"].rsplit("::", 1)[-1]
                writes.append((s_, "remove" if nm.startswith("remove") else "clear" if nm.startswith("clear") else "insert"))
        for s_ in b.calls_to(r"VacantEntry::<[^>]*>::insert_entry$"):
            if any(x.kind == "call" and "callee_queries" in df.access_path(b, x.site.node["args"][0]) for x in df.origins_of_operand(b, s_.node["args"][0])
                   if x.kind == "call" and x.site.node["args"]):
                writes.append((s_, "insert"))
        for s_, kind in writes:
            n += 1
            ctx.touch(b)
            partners = b.calls_to(PARTNER[kind])
            nxt = s_.node.get("t")
            before = any(b.site_dominates(p_, s_) for p_ in partners)
            bad = [] if before else (b.must_pass([nxt], [p_.bb for p_ in partners]) if nxt is not None else [])
            if not partners or bad:
                ctx.fail(o, s_, "%s changes callee_queries (%s) but CalleeOrder::%s does not follow on every path: the recorded order and the dependency set disagree" % (
                    b.name, kind, PARTNER[kind].split("::")[1].rstrip("$")))
    o.sites = n
    if n < 3:
        ctx.fail(o, "(program)", "expected >= 3 writes to callee_queries (register, abort, clear), found %d" % n)


def c01n(ctx):
    prog = ctx.prog
    # ---- the firewall-set comparison is made for every callee that is not itself a firewall
    o = ctx.ob("C01.n", "check_callee/tfc-diff-for-non-firewall-callees", "K4",
               "check_callee compares the callee's firewall-set fingerprint with the observed one exactly when the callee is not a firewall, and asks for a repair exactly when they differ")
    b = ctx.touch(prog.coroutine_of("Snapshot::check_callee"))
    cmp_ = [s_ for s_ in b.calls_to(r"core::cmp::PartialEq::(ne|eq)$")
            if any(x.kind == "call" and (x.callee() or "").endswith("transitive_firewall_callees_fingerprint") for x in df.origins_of_operand(b, s_.node["args"][0]))
            or any(x.kind == "call" and (x.callee() or "").endswith("transitive_firewall_callees_fingerprint") for x in df.origins_of_operand(b, s_.node["args"][1]))]
    o.sites = len(cmp_)
    if len(cmp_) != 1:
        ctx.fail(o, Site(b, 0, 0), "expected exactly one comparison of transitive_firewall_callees_fingerprint() in check_callee, found %d" % len(cmp_))
    else:
        c_ = cmp_[0]
        other = c_.node["args"][1]
        if "seen_transitive_firewall_callees_fingerprint" not in df.access_path(b, other) and "seen_transitive_firewall_callees_fingerprint" not in df.access_path(b, c_.node["args"][0]):
            ctx.fail(o, c_, "the callee's firewall-set fingerprint is not compared with the observed `seen_transitive_firewall_callees_fingerprint`")
        g = df.guarded_by(b, c_.bb, lambda c: c.kind == "call" and c.callee.endswith("QueryKind::is_firewall"))
        pol = {(v != 0) != c.negated for sb, v, tb, c in g if v != "otherwise"} | {(not c.negated) for sb, v, tb, c in g if v == "otherwise"}
        if pol != {False}:
            ctx.fail(o, c_, "the firewall-set comparison must be made exactly for callees with is_firewall() == false (guards found: %s): a changed set below a "
                     "non-firewall callee would go unnoticed" % (sorted(pol) or "none"))
        # the flag handed out in Cleaned { repair_transitive_firewall_callees } is raised under `differs`
        raised = [a for a in b.assigns(lambda st: st["rv"]["k"] == "use" and (st["rv"]["op"].get("c") or {}).get("s") == "true" and not st["lhs"][1])
                  if b.site_dominates(c_, a)]
        ok = False
        for a in raised:
            gg = df.guarded_by(b, a.bb, lambda c: c.kind == "call" and c.site == c_)
            want = c_.node["fn"]["path"].endswith("::ne")
            if any(((v != 0) != c.negated) == want for sb, v, tb, c in gg if v != "otherwise") or any((not c.negated) == want for sb, v, tb, c in gg if v == "otherwise"):
                ok = True
        if not ok:
            ctx.fail(o, c_, "no `repair_transitive_firewall_callees = true` under `the fingerprints differ`")


def c01n_join(ctx):
    """Join loop of an unordered callee group: the only outcome of a chunk that may leave the recompute flag down is
    `Ok(Cleaned {..})`.  Recompute, Cancelled and a JoinError (the chunk panicked — a callee's executor panicked during the
    repair — or was aborted) all mean that some callee of the group was not verified: taking any of them for clean stamps
    the caller as verified with its old value (and swallows the panic)."""
    prog = ctx.prog
    o = ctx.ob("C01.n", "unordered-group/only-cleaned-chunks-count-as-clean", "K2",
               "in the join loop of an unordered group every chunk outcome other than Ok(Cleaned) raises the recompute flag before the next result is taken")
    b = ctx.touch(prog.coroutine_of("Snapshot::recompute_decision_based_on_forward_edges"))
    jn = b.calls_to(r"JoinSet::<T>::join_next$")
    dec = [(sb, tb, _variant_name(prog, c.adt, v)) for sb, tb, v, c in df.variant_edges(b, "::ChunkedCalleeCheckDecision") if v != "otherwise"]
    trues = b.assigns(lambda st: st["rv"]["k"] == "use" and (st["rv"]["op"].get("c") or {}).get("s") == "true" and not st["lhs"][1])
    # answering RepairDecision::Recompute on the spot is as good as raising the flag
    trues = list(trues) + list(b.aggregates(r"repair::RepairDecision$", "Recompute"))
    o.sites = len(dec)
    if len(jn) != 1 or not {"Recompute", "Cancelled", "Cleaned"} <= {n_ for _, _, n_ in dec}:
        ctx.fail(o, Site(b, 0, 0), "anchor missing: join loop over ChunkedCalleeCheckDecision results (join_next=%d, variants tested=%s)" % (len(jn), sorted({n_ for _, _, n_ in dec})))
        return
    # the `Some(result)` edge of the join_next result
    some = [(sb, tb) for sb, tb, v, c in df.variant_edges(b, "Option") if v == 1 and any(x.kind == "call" and x.site == jn[0] for x in df.origins_of_place(b, c.place))]
    if not some:
        ctx.fail(o, jn[0], "anchor missing: the `Some(result)` test of join_next")
        return
    cleaned = [(sb, tb) for sb, tb, n_ in dec if n_ == "Cleaned"]
    r = b.reachable([tb for _, tb in some], removed_nodes=[a.bb for a in trues], removed_edges=cleaned)
    if jn[0].bb in r or any(t in r for t in b.returns()):
        # name the offending outcome
        which = []
        for sb, tb, n_ in dec:
            if n_ != "Cleaned" and (jn[0].bb in b.reachable([tb], removed_nodes=[a.bb for a in trues])):
                which.append(n_)
        for sb, tb, v, c in df.variant_edges(b, "Result"):
            if v == 1 and jn[0].bb in b.reachable([tb], removed_nodes=[a.bb for a in trues], removed_edges=cleaned):
                which.append("Err(JoinError)")
        ctx.fail(o, jn[0], "a chunk that ended with %s can be taken for clean: the loop goes on without raising the recompute flag — callees that chunk did not verify "
                 "(or whose executor panicked) are never re-verified and the caller is stamped as up to date" % (" / ".join(sorted(set(which))) or "something other than Ok(Cleaned)"))


def c01o(ctx):
    """Before a stale node is repaired, its transitive firewalls are repaired first - at least by the user's own query and by a
    firewall repair (a firewall has firewalls below it too).  (Round 1 froze this as "exactly those two" on the belief
    that a read made by an executing node can rely on that node's repairer; C01.t shows the belief is wrong for a callee
    the node did not depend on before, so this clause now only demands the two as a lower bound.)"""
    prog = ctx.prog
    o = ctx.ob("C01.o", "query_for/firewalls-repaired-first-for-user-and-firewall-repair", "K4",
               "query_for repairs the node's transitive firewalls before taking the write guard at least for CallerKind::User and CallerKind::RepairFirewall, on the Repair path")
    cands = [x for x in prog.find(r"^Engine::query_for::\{closure#0\}$") if x.is_coroutine]
    if len(cands) != 1:
        ctx.fail(o, "(program)", "anchor missing: Engine::query_for (found %d)" % len(cands))
        return
    b = ctx.touch(cands[0])
    rep = b.calls_to(r"Snapshot<C, Q>>::repair_transitive_firewall_callees$")
    wg = b.calls_to(r"Snapshot<C, Q>>::get_write_guard$")
    o.sites = len(rep) + len(wg)
    if len(rep) != 1 or len(wg) != 1:
        ctx.fail(o, Site(b, 0, 0), "anchor missing: repair_transitive_firewall_callees / get_write_guard in query_for (%d / %d)" % (len(rep), len(wg)))
        return
    allowed = set()
    for sb, tb, v, c in df.variant_edges(b, "::CallerKind"):
        if v == "otherwise":
            continue
        if rep[0].bb in b.reachable_fs([tb]) and b.site_dominates(Site(b, sb, 0), rep[0]):
            allowed.add(_variant_name(prog, c.adt, v))
    if not {"User", "RepairFirewall"} <= allowed or allowed & {"Tracing", "BackwardProjectionPropagation"}:
        ctx.fail(o, rep[0], "the firewalls below a stale node are repaired first for callers of kind %s (must include User and RepairFirewall, and not the value-less kinds): a firewall "
                 "that is itself being repaired would verify itself against unrepaired firewalls below it" % (sorted(allowed) or "none"))
    ctx.shared["query_for_repair_kinds"] = allowed
    if not df.dominated_by_equality(b, rep[0].bb, "eq", lambda x, y: True, prog):
        ctx.fail(o, rep[0], "the firewall repair is not restricted to `slow_path == SlowPath::Repair`")
    # ... and it happens before the node's own write guard is taken, on every path that takes the guard after a stale fast path
    if not b.site_dominates(rep[0], wg[0]) and rep[0].bb not in b.reachable([0], removed_nodes=[wg[0].bb]):
        ctx.fail(o, wg[0], "the write guard can be taken before the firewalls were repaired")


def c01t(ctx):
    """K1.  Dirty marks stop at a firewall; what lies above it is brought up to date by repairing the firewall FIRST (it
    re-executes, and if its value changed it dirties its callers).  query_for does that for the user's query and for
    firewall repairs.  A read made by an executing node gets no such repair - sound only if the reader's own repairer has
    already repaired every firewall below the callee, i.e. if the callee was a recorded dependency.  An executor that reads
    a stale callee it did NOT depend on before (a branch taken for the first time, a dependency dropped and resumed, a fresh
    query above an old one) finds no dirty edge on it, verifies it clean and receives its old value."""
    prog = ctx.prog
    o = ctx.ob("C01.t", "query_for/firewalls-of-a-callee-read-by-an-executor-are-repaired-first", "K4",
               "on the Repair path query_for reaches repair_transitive_firewall_callees also for CallerKind::Query callers (an executor's read), before the callee is verified")
    allowed = ctx.shared.get("query_for_repair_kinds")
    if allowed is None:
        ctx.fail(o, "(program)", "anchor missing: C01.o did not resolve the caller kinds that repair firewalls in query_for")
        return
    o.sites = len(allowed)
    if "Query" not in allowed:
        cands = [x for x in prog.find(r"^Engine::query_for::\{closure#0\}$") if x.is_coroutine]
        rep = cands[0].calls_to(r"Snapshot<C, Q>>::repair_transitive_firewall_callees$")
        ctx.fail(o, rep[0], "query_for repairs the firewalls below a stale callee only for callers of kind %s: a callee that an executor reads for the first time (not yet among its "
                 "recorded dependencies) is verified against unrepaired firewalls and hands out its old value" % sorted(allowed))


def c01u(ctx):
    """K2.  When a firewall's value changes, the projections above it must be re-executed (backward projection) - that is how
    the change gets past them to their callers.  The need is persisted as a marker stamped with the epoch.  Both sites that
    decide whether to run the backward projection accept the marker only if its epoch EQUALS the caller's: a marker whose
    propagation was cancelled, or never started because the firewall was recomputed for a caller that does not run it (a
    user's direct query, an executor's read), is ignored from the next epoch on and nothing else dirties the projections'
    callers."""
    prog = ctx.prog
    want = (("Snapshot::fast_path", r"Option::<[^>]*>::is_some_and$"), ("Snapshot::get_backward_projection_lock_guard", r"Option::<[^>]*>::is_none_or$"))
    for fn, combinator in want:
        o = ctx.ob("C01.u", "%s/pending-backward-projection-is-honoured-in-later-epochs" % fn.split("::")[-1], "K4",
                   "%s decides on the presence of the pending-backward-projection marker, not on its epoch being the caller's" % fn)
        b = ctx.touch(prog.coroutine_of(fn))
        cs = [s for s in b.calls_to(combinator) if any(x.kind == "call" and (x.callee() or "").endswith("::pending_backward_projection") for x in df.origins_of_operand(b, s.node["args"][0]))]
        o.sites = len(cs)
        if len(cs) != 1:
            # the test was restructured: the marker's presence must still be what is tested
            pend = b.calls_to(r"::pending_backward_projection$")
            if not pend:
                ctx.fail(o, Site(b, 0, 0), "anchor missing: %s no longer looks at pending_backward_projection()" % fn)
            continue
        clo = [x for x in df.origins_of_operand(b, cs[0].node["args"][1]) if x.kind == "agg" and x.site.node["rv"].get("ak") == "closure"]
        if len(clo) != 1 or clo[0].site.node["rv"]["def"] not in prog.bodies:
            continue
        c = ctx.touch(prog.bodies[clo[0].site.node["rv"]["def"]])
        eqs = [s for s in c.calls() if re.search(r"core::cmp::PartialEq::(eq|ne)$", s.node["fn"]["path"])]
        for e in eqs:
            da, db = df.Desc(c, e.node["args"][0], prog), df.Desc(c, e.node["args"][1], prog)
            if da.has("CallerInformation::timestamp") or db.has("CallerInformation::timestamp"):
                ctx.fail(o, e, "%s honours the pending-backward-projection marker only when its epoch equals the caller's: a marker left by a cancelled or never-started "
                         "propagation is ignored in every later epoch, the projections above the firewall are never re-executed and their callers keep the old value" % fn)


def c01v(ctx):
    """K8.  Dirty marks stop at firewalls AND projections.  What a query above a projection knows about the firewalls below it is
    its recorded firewall set; the set is refreshed when the query is re-verified, and it is re-verified when something below
    it dirties it.  A re-executed firewall / projection dirties its callers only when its VALUE fingerprint changed.  A
    projection that starts to read ANOTHER firewall without changing its value therefore dirties nothing: its callers keep
    the old firewall set, the user's repair never reaches the new firewall, and later changes of it are missed.  The decision
    to propagate has to look at the firewall-set fingerprint as well as at the value."""
    prog = ctx.prog
    o = ctx.ob("C01.v", "execute_query/a-changed-firewall-set-is-propagated-like-a-changed-value", "K5",
               "the propagate / backward-projection decision of a re-executed firewall or projection compares the firewall-set fingerprint as well as the value fingerprint")
    cands = [b for b in prog.find(r"^Snapshot::execute_query::\{closure#0\}(::\{closure#0\})*$") if b.calls_to(r"dirty_propagate_from_batch$")]
    if len(cands) != 1:
        ctx.fail(o, "(program)", "anchor missing: the publishing block of execute_query (found %d)" % len(cands))
        return
    b = ctx.touch(cands[0])
    prop = b.calls_to(r"dirty_propagate_from_batch$")[0]
    cmps = [s_ for s_ in b.calls_to(r"core::cmp::PartialEq::(eq|ne)$") if b.site_dominates(s_, prop)]
    o.sites = len(cmps)
    value = tfc = False
    for s_ in cmps:
        for a in s_.node["args"][:2]:
            d = df.Desc(b, a, prog)
            value |= d.has("value_fingerprint")
            tfc |= d.has("transitive_firewall_callees_fingerprint") or d.has("transitive_firewall_callees")
    if not value:
        ctx.fail(o, prop, "anchor missing: the value-fingerprint comparison that guards the propagation in execute_query")
    elif not tfc:
        ctx.fail(o, prop, "execute_query propagates from a re-executed firewall / projection only when its VALUE fingerprint changed: a projection that switches to another firewall with the "
                 "same value dirties nothing, its callers keep the old firewall set and never repair the new firewall")


def c01p(ctx):
    """`dirtied_queries` de-duplicates propagation tasks *within* one session.  It must be emptied before each session's
    propagation, otherwise a node dirtied in an earlier session is skipped (its callers keep clean edges) in this one."""
    prog = ctx.prog
    o = ctx.ob("C01.p", "commit_internal/dedupe-set-cleared-before-propagation", "K1",
               "InputSession::commit_internal clears the per-session set of already-dirtied queries before it propagates")
    b = ctx.touch(prog.coroutine_of("InputSession::commit_internal"))
    clr = b.calls_to(r"Engine::<C>::clear_dirtied_queries$|Engine<C>>::clear_dirtied_queries$")
    prop = b.calls_to(r"dirty_propagate_from_batch$")
    o.sites = len(clr) + len(prop)
    if not prop:
        ctx.fail(o, Site(b, 0, 0), "anchor missing: dirty_propagate_from_batch in commit_internal")
    elif not clr or not all(any(b.site_dominates(c_, p_) for c_ in clr) for p_ in prop):
        ctx.fail(o, prop[0], "commit_internal propagates without first clearing `dirtied_queries`: nodes dirtied by an earlier session are skipped, their callers are never marked")
    # the set itself is only ever used as `insert -> was it new?`
    pt = ctx.touch(prog.coroutine_of("DirtyWorker::process_task"))
    ins = pt.calls_to(r"DashSet::<K, S>::insert$")
    o.sites += len(ins)
    if len(ins) != 1:
        ctx.fail(o, Site(pt, 0, 0), "anchor missing: the de-duplication insert in process_task")


def c01q(ctx):
    """Dirty marks parked in the side buffer (a worker lost the try-lock on the shared batch) are the only record of those
    edges.  Whoever pops one owns it: every popped edge has to reach the consumer that writes it into the batch.  A drain
    that pops and then decides to stop loses a mark — the caller keeps a clean edge and serves a stale value."""
    prog = ctx.prog
    o = ctx.ob("C01.q", "stripped-buffer/every-popped-edge-is-handed-out", "K2",
               "in StrippedBuffer's drains a popped edge is returned on every path (no `None` answer after a successful pop)")
    n = 0
    for b in prog.all_bodies(["qbice"]):
        if not b.name.startswith("StrippedBuffer::drain"):
            continue
        pops = b.calls_to(r"SegQueue::<T>::pop$|ArrayQueue::<T>::pop$|::pop$")
        for p_ in pops:
            n += 1
            ctx.touch(b)
            dest = p_.node["dest"]
            if dest and dest[0] == 0 and not dest[1]:
                continue                      # `queue.pop()` is the answer itself
            some_edges = [(sb, tb) for sb, tb, v, c in df.variant_edges(b, "Option") if v == 1 and
                          any(x.kind == "call" and x.site == p_ for x in df.origins_of_place(b, c.place))]
            nones = b.assigns(lambda st: st["lhs"][0] == 0 and not st["lhs"][1] and st["rv"]["k"] == "agg" and (st["rv"].get("adt") or "").endswith("option::Option") and not st["rv"]["ops"])
            if not some_edges:
                # the value is used without a test: it must flow to the return place
                if not any(k == "return" for k, s_, i in df.forward_uses(b, p_)):
                    ctx.fail(o, p_, "%s pops an edge that does not reach its caller" % b.name)
                continue
            for sb, tb in some_edges:
                r = b.reachable([tb])
                for a in nones:
                    if a.bb in r:
                        ctx.fail(o, a, "%s pops a dirty edge and can then answer `None`: the popped mark is dropped, its caller is never marked dirty" % b.name)
    o.sites = n
    if n < 2:
        ctx.fail(o, "(program)", "expected >= 2 pop sites in StrippedBuffer::drain_all / drain_limited, found %d" % n)


def c01r(ctx):
    prog = ctx.prog
    # ---- a Hit that hands a value to an executing caller records what the caller saw
    o = ctx.ob("C01.r", "fast_path/hit-records-the-observation", "K2+K4",
               "fast_path records the callee's fingerprints in the caller (observe_callee + caller_observe_tfc_callees) before every Hit it returns to a caller that requires the value")
    b = ctx.touch(prog.coroutine_of("Snapshot::fast_path"))
    obs = b.calls_to(r"Snapshot<C, Q>>::observe_callee_fingerprint$|Snapshot::<C, Q>::observe_callee_fingerprint$")
    hits = b.aggregates(r"fast_path::FastPathResult$", "Hit")
    o.sites = len(obs) + len(hits)
    if len(obs) != 1 or not hits:
        ctx.fail(o, Site(b, 0, 0), "anchor missing: observe_callee_fingerprint / FastPathResult::Hit in fast_path (%d / %d)" % (len(obs), len(hits)))
    else:
        g = df.guarded_by(b, obs[0].bb, lambda c: c.kind == "call" and c.callee.endswith("QueryCaller::require_value"))
        if not any(((v != 0) != c.negated) for sb, v, tb, c in g if v != "otherwise") and not any((not c.negated) for sb, v, tb, c in g if v == "otherwise"):
            ctx.fail(o, obs[0], "the observation is not recorded exactly for callers that require the value")
        # removing the observation, no Hit is reachable on the require_value() == true side
        for sb, v, tb, c in g:
            pol = ((v != 0) != c.negated) if v != "otherwise" else (not c.negated)
            if pol:
                r = b.reachable([tb], removed_nodes=[obs[0].bb])
                if any(h.bb in r for h in hits) and not b.edge_dominates((sb, tb), obs[0].bb):
                    ctx.fail(o, obs[0], "a Hit can be returned to a caller that requires the value without its observation having been recorded")
    oc = ctx.touch(prog.body("Snapshot::observe_callee_fingerprint"))
    need = [r"QueryComputing::observe_callee$", r"QueryComputing::caller_observe_tfc_callees$"]
    for pat in need:
        ss = oc.calls_to(pat)
        o.sites += len(ss)
        if len(ss) != 1 or oc.must_pass([0], [ss[0].bb]):
            ctx.fail(o, Site(oc, 0, 0), "observe_callee_fingerprint does not call %s on every path" % pat.rstrip("$"))
    # ---- backward projection re-runs exactly the projection callers of a changed firewall / projection
    o = ctx.ob("C01.r", "invoke_backward_projections/exactly-the-projection-callers", "K4",
               "invoke_backward_projections collects a backward edge's source exactly when its kind is a projection")
    cands = [x for x in prog.find(r"^Snapshot::invoke_backward_projections::") if x.is_coroutine and x.calls_to(r"::is_projection$")]
    bp = ctx.touch(cands[0]) if cands else ctx.touch(prog.coroutine_of("Snapshot::invoke_backward_projections"))
    pushes = [s_ for s_ in bp.calls_to(r"alloc::vec::Vec::<T(, A)?>::push$")]
    o.sites = len(pushes)
    if len(pushes) != 1:
        ctx.fail(o, Site(bp, 0, 0), "anchor missing: the collection of projection callers in invoke_backward_projections (found %d pushes)" % len(pushes))
    else:
        g = df.guarded_by(bp, pushes[0].bb, lambda c: c.kind == "call" and re.search(r"QueryKind>?::is_projection$", c.callee))
        pol = {((v != 0) != c.negated) for sb, v, tb, c in g if v != "otherwise"} | {(not c.negated) for sb, v, tb, c in g if v == "otherwise"}
        if pol != {True}:
            ctx.fail(o, pushes[0], "a caller is scheduled for backward projection under is_projection() == %s (must be exactly `true`)" % (sorted(pol) or "no test"))
        if not any(x.kind == "call" and (x.callee() or "").endswith("get_backward_edges_unchecked") for x in df.origins_of_operand(bp, pushes[0].node["args"][1])):
            ctx.fail(o, pushes[0], "what is scheduled is not a source of this node's backward edges")
    # ---- the recorded order of top-level dependencies is only changed in order-preserving ways
    o = ctx.ob("C01.r", "CalleeOrder/order-preserving-updates", "K3",
               "the top-level `order` vector of CalleeOrder is only pushed to, removed from (Vec::remove) or cleared: never swap_remove / swap / sort / reverse / insert")
    n_ = 0
    for x in prog.bodies.values():
        if not x.name.startswith("CalleeOrder::") and not x.name.startswith("QueryComputing::"):
            continue
        for s_ in x.calls_to(r"alloc::vec::Vec::<T(, A)?>::[a-z_]+$|slice::<impl \[T\]>::[a-z_]+$"):
            if not s_.node["args"]:
                continue
            ap = df.access_path(x, s_.node["args"][0])
            fl = [e for e in ap if not e.startswith("<")]
            if not fl or fl[-1] != "order":
                continue
            n_ += 1
            ctx.touch(x)
            m = s_.node["fn"]["path"].rsplit("::", 1)[-1]
            if m in ("swap_remove", "swap", "sort", "sort_by", "sort_by_key", "sort_unstable", "sort_unstable_by", "sort_unstable_by_key", "reverse", "rotate_left", "rotate_right", "insert", "dedup", "retain_mut"):
                ctx.fail(o, s_, "%s changes the recorded dependency order with Vec::%s: the order is stored and repaired front to back (a later dependency may only be "
                         "re-verified if the earlier ones are unchanged), so it must stay the order of registration" % (x.name, m))
            # who may take entries OUT of the order: abort_callee (one cancelled call) and clear (before re-execution) only
            if m in ("pop", "remove", "truncate", "drain", "retain", "clear", "split_off", "pop_if", "extract_if") and \
                    not re.match(r"CalleeOrder::(abort_callee|clear)$", x.name):
                ctx.fail(o, s_, "%s takes entries out of the recorded dependency order (Vec::%s): only abort_callee (a cancelled call) and clear (before re-execution) may; a callee "
                         "that stays in the observation table but leaves the order gets no backward edge, so its changes never reach this node" % (x.name, m))
    o.sites = n_
    if n_ < 3:
        ctx.fail(o, "(program)", "expected >= 3 updates of CalleeOrder.order, found %d" % n_)
    # ---- un-registering a callee removes exactly that callee from the recorded order
    o = ctx.ob("C01.r", "CalleeOrder::abort_callee/removes-exactly-the-callee", "K5",
               "CalleeOrder::abort_callee selects the entry to remove by equality with the callee it was given")
    bodies = [x for x in prog.bodies.values() if x.name.startswith("CalleeOrder::abort_callee")]
    cmps = [(x, s_) for x in bodies for s_ in x.calls_to(r"core::cmp::PartialEq::(eq|ne)$")]
    o.sites = len(cmps)
    if len(cmps) < 2:
        ctx.fail(o, "(program)", "expected >= 2 id comparisons in CalleeOrder::abort_callee (Single and Unordered arms), found %d" % len(cmps))
    ab = [x for x in bodies if x.name == "CalleeOrder::abort_callee"]
    if len(ab) == 1:
        rm_top = [s_ for s_ in ab[0].calls_to(r"alloc::vec::Vec::<T(, A)?>::(remove|swap_remove)$")]
        edges_ = [(sb, tb, v) for sb, tb, v, c in df.variant_edges(ab[0], "database::NodeDependency") if v != "otherwise"]
        o.sites += len(rm_top)
        for sb, tb, v in edges_:
            mine = {n_ for n_ in ab[0].reachable([tb], removed_nodes=[sb]) if n_ == tb or ab[0].edge_dominates((sb, tb), n_)}
            if not any(s_.bb in mine for s_ in rm_top):
                ctx.fail(o, Site(ab[0], tb, 0), "CalleeOrder::abort_callee finds the aborted callee in a %s dependency but removes nothing" % ("Single" if int(v) == 0 else "Unordered"))
    for x, s_ in cmps:
        if s_.node["fn"]["path"].endswith("::ne"):
            ctx.fail(o, s_, "CalleeOrder::abort_callee selects an entry that is NOT the aborted callee: a cancelled call removes another dependency from the recorded order")


def c01s(ctx):
    """A node's stored firewall set and what it has OBSERVED of its callees' firewall sets (the fingerprints that decide
    `has the set below this callee changed?`) describe one state.  When a node is verified clean and its firewall set is
    rebuilt from the callees' current sets, the observations must be refreshed with it.  If they are not, a callee that
    goes {F1} -> {F2} -> {F1} compares equal to the stale observation, the node keeps {F2}, stops repairing F1 before it is
    verified, and a change behind F1 is never seen (ABA on the fingerprint)."""
    prog = ctx.prog
    o = ctx.ob("C01.s", "clean_query/firewall-set-and-observations-replaced-together", "K2+K5",
               "clean_query stores forward_edge_observation whenever it stores a rebuilt firewall set, and should_recompute_query refreshes seen_transitive_firewall_callees_fingerprint from the callees it rebuilt the set from")
    b = ctx.touch(prog.coroutine_of("Snapshot::clean_query"))
    ni, ob = [], []
    for s_ in b.calls(lambda f, t: bool(MAP_WRITE.search(f["path"])) and f["path"].endswith("::insert")):
        ap = df.access_path(b, s_.node["args"][0])
        if "node_info" in ap:
            ni.append(s_)
        if "forward_edge_observation" in ap:
            ob.append(s_)
    o.sites = len(ni) + len(ob)
    if not ni:
        ctx.fail(o, Site(b, 0, 0), "anchor missing: the node_info write of clean_query")
    for s_ in ni:
        if not ob or (b.must_pass([s_.node["t"]], [x.bb for x in ob]) and not any(b.site_dominates(x, s_) for x in ob)):
            ctx.fail(o, s_, "clean_query stores a rebuilt firewall set without the matching observations: the node keeps comparing its callees' firewall sets with fingerprints "
                     "from before the rebuild (a callee that returns to an earlier set looks unchanged and the rebuilt set is never corrected)")
    r = ctx.touch(prog.coroutine_of("Snapshot::should_recompute_query"))
    refresh = [a for a in r.assigns(lambda st: any(e.startswith("f:seen_transitive_firewall_callees_fingerprint") for e in st["lhs"][1]))]
    o.sites += len(refresh)
    if not refresh:
        ctx.fail(o, Site(r, 0, 0), "should_recompute_query rebuilds the firewall set from its callees but never refreshes what it has observed of their firewall sets")
    for a in refresh:
        rv = a.node["rv"]
        os_ = list(df.origins_of_operand(r, rv["op"])) if rv["k"] == "use" else []
        if not any(x.kind == "call" and (x.callee() or "").endswith("transitive_firewall_callees_fingerprint") for x in os_):
            ctx.fail(o, a, "the refreshed observation is not the callee's current transitive_firewall_callees_fingerprint()")


def _variant_name(prog, adt, v):
    try:
        return prog.adts[adt]["variants"][int(v)]["name"]
    except Exception:
        return str(v)


def run(ctx):
    ctx.shared = getattr(ctx, "shared", {})
    ctx.run_clause("C01.h", c01h)
    ctx.run_clause("C01.k", c01k)
    ctx.run_clause("C01.l", c01l)
    ctx.run_clause("C01.m", c01m)
    ctx.run_clause("C01.n", c01n)
    ctx.run_clause("C01.n", c01n_join)
    ctx.run_clause("C01.o", c01o)
    ctx.run_clause("C01.t", c01t)
    ctx.run_clause("C01.u", c01u)
    ctx.run_clause("C01.v", c01v)
    ctx.run_clause("C01.p", c01p)
    ctx.run_clause("C01.q", c01q)
    ctx.run_clause("C01.r", c01r)
    ctx.run_clause("C01.s", c01s)
    ctx.run_clause("C01.j", c01j)
    ctx.run_clause("C01.i", c01i)
    for c, f in (("C01.a", c01a), ("C01.b", c01b), ("C01.c", c01c), ("C01.c", c01c_roles), ("C01.d", c01d), ("C01.e", c01e), ("C01.f", c01f), ("C01.g", c01g)):
        ctx.run_clause(c, f)

"""C02 — concurrent querying is sound, single-flight and terminates (structural clauses)."""
import re

from .. import dataflow as df
from .. import lockgap
from ..facts import Site, op_local, short, const_int

EXPLANATION = (
    "Static analysis over rustc's promoted MIR. C02.a single-flight typestate: the executor is invoked only from execute_query (which "
    "consumes a ComputingLockGuard by value) and from refresh; the guard types are constructed only in the Vacant arm of entry_sync on the "
    "computing tables, after insert_entry. C02.b no lost wake-up: waiters create their listener under the entry/shard lock and release it before "
    "awaiting; finishers remove the entry before notify_waiters; same for SingleFlight. C02.c lock-gap write-back rule (K7) over every body of "
    "qbice and qbice_storage: no store through a re-acquired lock of data computed in an earlier critical section without a re-check. "
    "C02.d the lock-table pin predicate reads Arc::strong_count and lock instances are cloned inside the cache's entry closures. "
    "C02.e parallel repair: Clean is returned only after every chunk was joined and none asked for a recompute; the other join loops are "
    "left only through their None exit.")

NOT_DECIDED = [
    "value soundness and termination over all interleavings (needs schedule exploration)",
    "linearizability of the concurrent edge sets beyond the lock-gap shape",
]
ASSUMPTIONS = ["scc::HashMap::entry_sync holds the bucket lock for the lifetime of the returned Entry", "tokio::sync::Notify::notify_waiters wakes every listener created before the call"]


def c02a(ctx):
    prog = ctx.prog
    o = ctx.ob("C02.a", "executor-call-sites", "K3", "Entry::invoke_executor is called from exactly execute_query and InputSession::refresh")
    sites = prog.callers_of(r"executor::Entry::<C>::invoke_executor$")
    ctx.floor(o, sites, 2, "invoke_executor call sites")
    roots = sorted(set(s.body.name.split("::{closure")[0] for s in sites))
    for s in sites:
        r = s.body.name.split("::{closure")[0]
        ctx.touch(s.body)
        if r not in ("Snapshot::execute_query", "InputSession::refresh"):
            ctx.fail(o, s, "executor invoked from %s: it would run without holding the query's computing slot" % s.body.name)
    o = ctx.ob("C02.a", "execute_query-consumes-guard", "K10", "execute_query takes the ComputingLockGuard by value")
    sig = [v for k, v in prog.sigs.items() if k.endswith("::execute_query")]
    o.sites = len(sig)
    if len(sig) != 1:
        ctx.fail(o, "(program)", "anchor missing: signature of execute_query")
    elif not any(any(x.endswith("computing::ComputingLockGuard") for x in i["own"]) for i in sig[0]["inputs"]):
        ctx.fail(o, "(signature)", "execute_query does not take a ComputingLockGuard by value: running an executor would not require owning the slot")
    for guard, fn, table in (("ComputingLockGuard", "Snapshot::computing_lock_guard", "computing_lock"),
                             ("BackwardProjectionLockGuard", "Snapshot::get_backward_projection_lock_guard", "backward_projection_lock")):
        o = ctx.ob("C02.a", "%s/constructed-only-in-vacant-arm" % guard, "K3+K4+K1", "the guard is created only after this task inserted the slot into the table")
        n = 0
        for b in prog.all_bodies(["qbice"]):
            for a in b.aggregates(r"computing::%s$" % guard):
                n += 1
                ctx.touch(b)
                if b.name != fn + "::{closure#0}":
                    ctx.fail(o, a, "%s constructed in %s" % (guard, b.name))
                    continue
                ent = [s for s in b.calls_to(r"scc::hash_map::HashMap::<K, V, H>::entry_sync$") if table in df.access_path(b, s.node["args"][0])]
                ins = b.calls_to(r"scc::hash_map::VacantEntry::<'h, K, V, H>::insert_entry$|VacantEntry::<.*>::insert_entry$")
                if len(ent) != 1 or not ins:
                    ctx.fail(o, a, "anchors missing: entry_sync on Computing::%s (found %d) / insert_entry (found %d)" % (table, len(ent), len(ins)))
                    continue
                # dominated by the Vacant edge of the match on the Entry
                ok = df.dominated_by_variant(b, a.bb, "scc::hash_map::Entry", {1},
                                             place_pred=lambda c: any(x.kind == "call" and x.site == ent[0] for x in df.origins_of_place(b, c.place)))
                if not ok:
                    ctx.fail(o, a, "%s is constructed outside the Vacant arm of entry_sync(%s): two tasks could both believe they own the slot" % (guard, table))
                if not any(b.site_dominates(i, a) for i in ins):
                    ctx.fail(o, a, "%s is constructed without insert_entry having published the slot" % guard)
        o.sites = n
        if n != 1:
            ctx.fail(o, "(program)", "expected exactly one construction site of %s, found %d" % (guard, n))


def _occupied_arm_rule(ctx, o, b, table):
    ent = [s for s in b.calls_to(r"scc::hash_map::HashMap::<K, V, H>::entry_sync$") if table in df.access_path(b, s.node["args"][0])]
    if len(ent) != 1:
        ctx.fail(o, Site(b, 0, 0), "anchor missing: entry_sync on Computing::%s in %s" % (table, b.name))
        return
    nts = b.calls_to(r"::notified_owned$")
    drops = [s for s in b.calls_to(r"^core::mem::drop$") if "OccupiedEntry" in b.locals[op_local(s.node["args"][0])]["ty"]]
    o.sites += len(nts) + len(drops)
    if len(nts) != 1 or len(drops) != 1:
        ctx.fail(o, ent[0], "expected one notified_owned() and one drop(entry) in the Occupied arm of %s (found %d / %d)" % (b.name, len(nts), len(drops)))
        return
    if not b.site_dominates(nts[0], drops[0]):
        ctx.fail(o, drops[0], "the entry lock is released before the wake-up listener exists in %s: a finisher can remove+notify in between and the waiter sleeps forever" % b.name)
    # the listener comes from the entry that is held
    ap = df.origins_of_operand(b, nts[0].node["args"][0])
    if not any(x.kind == "call" and x.site == ent[0] for x in ap):
        ctx.fail(o, nts[0], "the listener is not taken from the occupied entry")
    aw = [a for a in df.awaits(b) if any(x.kind == "call" and x.site == nts[0] for x in a.origins)]
    if len(aw) != 1:
        ctx.fail(o, nts[0], "the listener is not awaited in %s" % b.name)
    else:
        for y in aw[0].yields:
            if not b.site_dominates(drops[0], y):
                ctx.fail(o, y, "%s awaits the listener while still holding the table entry (bucket lock held across await)" % b.name)
            if b.held(y.bb, "OccupiedEntry"):
                ctx.fail(o, y, "an OccupiedEntry is still alive at the await in %s" % b.name)


def c02b(ctx):
    prog = ctx.prog
    for fn, table in (("Snapshot::computing_lock_guard", "computing_lock"), ("Snapshot::get_backward_projection_lock_guard", "backward_projection_lock")):
        o = ctx.ob("C02.b", "%s/listener-before-unlock" % fn, "K1", "a waiter creates its listener while the table entry is locked and awaits it only after releasing the entry")
        b = ctx.touch(prog.coroutine_of(fn))
        _occupied_arm_rule(ctx, o, b, table)
    o = ctx.ob("C02.b", "try_get_notified_computing_lock/listener-inside-read", "K3", "exit_scc's listener is created inside the read_sync closure (under the bucket lock)")
    cl = prog.find(r"^Computing::try_get_notified_computing_lock::\{closure#0\}$")
    o.sites = len(cl)
    if len(cl) != 1 or not cl[0].calls_to(r"QueryComputing::notified_owned$"):
        ctx.fail(o, "(program)", "the closure passed to read_sync in try_get_notified_computing_lock does not create the listener")
    else:
        ctx.touch(cl[0])
        outer = prog.body("Computing::try_get_notified_computing_lock")
        if not outer.calls_to(r"scc::hash_map::HashMap::<K, V, H>::read_sync$"):
            ctx.fail(o, Site(outer, 0, 0), "try_get_notified_computing_lock no longer reads under read_sync")
    # exit_scc awaits that listener only after the cycle probe (see C06) — here: it is the listener from the locked read
    o = ctx.ob("C02.b", "SingleFlight/listener-under-shard-lock", "K1", "SingleFlight waiters create their listener under the shard write lock; the worker removes the key before notifying")
    b = ctx.touch(prog.coroutine_of("SingleFlight::wait_or_work"))
    ws = b.calls_to(r"sharded::Sharded::<T>::write_shard$")
    nts = b.calls_to(r"Notify::notified_owned$")
    rem = b.calls_to(r"HashMap::<K, V, S(, A)?>::remove$")
    nw = b.calls_to(r"Notify::notify_waiters$")
    work = b.calls_to(r"FnOnce::call_once$")
    o.sites = len(ws) + len(nts) + len(rem) + len(nw)
    if len(ws) != 2 or len(nts) != 1 or len(rem) != 1 or len(nw) != 1 or len(work) != 1:
        ctx.fail(o, Site(b, 0, 0), "anchors missing in SingleFlight::wait_or_work (write_shard=%d notified_owned=%d remove=%d notify_waiters=%d work=%d)" % (
            len(ws), len(nts), len(rem), len(nw), len(work)))
    else:
        first = ws[0] if b.site_dominates(ws[0], ws[1]) else ws[1]
        second = ws[1] if first is ws[0] else ws[0]
        if not b.site_dominates(first, nts[0]) or not b.held(nts[0].bb, "RwLockWriteGuard"):
            ctx.fail(o, nts[0], "the waiter's listener is not created while the shard write guard is held")
        for y in b.yields():
            if b.held(y.bb, "RwLockWriteGuard"):
                ctx.fail(o, y, "a shard guard is held across the await in SingleFlight::wait_or_work")
        if not (b.site_dominates(work[0], second) and b.site_dominates(second, rem[0]) and b.site_dominates(rem[0], nw[0])):
            ctx.fail(o, nw[0], "the worker must run the work, then remove the key under the shard lock, then notify_waiters — in that order")
        # on the worker path, notify happens on every path to return
        if b.must_pass([work[0].bb], [nw[0].bb]):
            ctx.fail(o, nw[0], "the worker can return without notifying the waiters")
    o = ctx.ob("C02.b", "done/remove-before-notify", "K1", "finishers remove the table entry before waking waiters (details under C05.b)")
    n = 0
    for g in ("ComputingLockGuard", "BackwardProjectionLockGuard"):
        d = ctx.touch(prog.body("%s::done" % g))
        rem = d.calls_to(r"scc::hash_map::HashMap::<K, V, H>::remove_sync$")
        nw = d.calls_to(r"Notify::notify_waiters$")
        n += len(rem) + len(nw)
        if len(rem) != 1 or len(nw) != 1 or not d.site_dominates(rem[0], nw[0]):
            ctx.fail(o, Site(d, 0, 0), "%s::done must remove_sync and then notify_waiters" % g)
        else:
            os_ = df.origins_of_operand(d, nw[0].node["args"][0])
            if not any(x.kind == "call" and x.site == rem[0] for x in os_):
                ctx.fail(o, nw[0], "%s::done notifies a Notify other than the removed entry's" % g)
    o.sites = n


def c02c(ctx):
    prog = ctx.prog
    o = ctx.ob("C02.c", "lock-gap/summary", "K7", "no store through a re-acquired lock of data computed in an earlier critical section of the same lock without a re-check")
    findings, examined = lockgap.find_lock_gaps(prog, ["qbice", "qbice_storage"])
    o.sites = examined
    ctx.call_sites += examined
    if examined < 5:
        ctx.fail(o, "(program)", "only %d re-acquisition pairs examined (expected >= 5): the lock recogniser lost its anchors" % examined)
    for b, a1, a2, st, src in findings:
        ctx.touch(b)
        oo = ctx.ob("C02.c", "lock-gap/%s" % b.name, "K7", o.desc)
        oo.sites = 1
        ctx.fail(oo, st, "%s stores a value computed under an earlier guard of the same lock (acquired line %d, released before line %d) through a new "
                 "guard without re-checking the protected state: whatever another thread wrote in the gap is lost (e.g. a concurrently recorded backward edge)" % (
                     b.name, a1.line, a2.line), detail="value derives from %s" % sorted(map(repr, src))[:3])


def c02c2(ctx):
    prog = ctx.prog
    o = ctx.ob("C02.c", "check-then-act/summary", "K7", "no blind overwrite of a shared concurrent map on a branch decided by an earlier probe of the same map (use the entry API to re-check)")
    findings, examined = lockgap.find_check_then_act(prog, ["qbice", "qbice_storage"])
    o.sites = examined
    # positive anchors: the legitimate probe-then-entry sites must still be recognised as probes
    probes = sum(len(b.calls(lambda f, t: bool(lockgap.PROBE.search(f["path"])))) for b in prog.all_bodies(["qbice", "qbice_storage"]))
    writes = sum(len(b.calls(lambda f, t: bool(lockgap.BLIND_WRITE.search(f["path"])))) for b in prog.all_bodies(["qbice", "qbice_storage"]))
    o.sites += probes + writes
    if probes < 8 or writes < 2:
        ctx.fail(o, "(program)", "the probe/overwrite recogniser lost its anchors (probes=%d, blind writes=%d)" % (probes, writes))
    for b, p, w in findings:
        ctx.touch(b)
        oo = ctx.ob("C02.c", "check-then-act/%s" % b.name, "K7", o.desc)
        oo.sites = 1
        ctx.fail(oo, w, "%s probes a shared map (line %d) and then, on the branch chosen by that probe, overwrites the entry with %s without re-checking under the bucket lock: "
                 "two tasks that both saw the key absent replace each other's value (e.g. a caller's backward edge is lost)" % (b.name, p.line, w.node["fn"]["path"].rsplit("::", 1)[-1]))


def c02d(ctx):
    prog = ctx.prog
    o = ctx.ob("C02.d", "lock-pin-predicate", "K5", "a per-query lock stays in the table while anybody references it")
    b = ctx.touch(prog.body("<ActiveLockLifecycleListener as LifecycleListener>::is_pinned"))
    sc = b.calls_to(r"alloc::sync::Arc::<T(, A)?>::strong_count$")
    o.sites = len(sc)
    if len(sc) != 1:
        ctx.fail(o, Site(b, 0, 0), "is_pinned of the lock table must read Arc::strong_count of the stored lock")
    else:
        ap = df.access_path(b, sc[0].node["args"][0])
        if "<param _3>" not in ap:
            ctx.fail(o, sc[0], "strong_count is not taken from the `value` parameter")
        os_ = df.origins_of_place(b, [0, []])
        # returned bool is count > 1
        cmp_ = b.assigns(lambda st: st["rv"]["k"] == "bin" and st["rv"]["op"] in ("Gt", "Ge", "Ne", "Lt"))
        if not cmp_:
            ctx.fail(o, sc[0], "is_pinned does not compare the strong count")
        else:
            rv = cmp_[0].node["rv"]
            c = df.const_int(rv["b"]) if hasattr(df, "const_int") else None
            from ..facts import const_int
            k = const_int(rv["b"])
            if not (rv["op"] == "Gt" and k == 1) and not (rv["op"] == "Ge" and k == 2) and not (rv["op"] == "Ne" and k == 1):
                ctx.fail(o, cmp_[0], "is_pinned must be `strong_count > 1` (the table itself holds one reference); found %s %s" % (rv["op"], k))
    o = ctx.ob("C02.d", "lock-instance-cloned-under-entry", "K3", "lock instances leave the table only as clones made inside the cache's get/entry closures")
    g = ctx.touch(prog.body("QueryLockManager::get_lock_instance"))
    gets = g.calls_to(r"tiny_lfu::TinyLFU::<K, V, L>::get$")
    ents = g.calls_to(r"tiny_lfu::TinyLFU::<K, V, L>::entry$")
    o.sites = len(gets) + len(ents)
    if len(gets) != 1 or len(ents) != 1:
        ctx.fail(o, Site(g, 0, 0), "get_lock_instance must use TinyLFU::get then TinyLFU::entry")
    else:
        cl = prog.find(r"^QueryLockManager::get_lock_instance::\{closure#0\}$")
        if len(cl) != 1:
            ctx.fail(o, ents[0], "anchor missing: the entry closure of get_lock_instance")
        else:
            c = ctx.touch(cl[0])
            if not c.calls_to(r"tiny_lfu::VacantEntry::<.*>::insert$") or not c.calls_to(r"core::clone::Clone::clone$"):
                ctx.fail(o, Site(c, 0, 0), "the entry closure must insert a clone in the Vacant arm and clone the existing lock in the Occupied arm")
            # per arm: what the closure RETURNS.  Occupied: the lock that is already in the table (never the fresh one);
            # Vacant: the very instance it inserted.
            def ret_origins(edge):
                sb, tb = edge
                out = []
                for bi in c.reachable([tb], removed_nodes=[sb]):
                    if not (bi == tb or c.edge_dominates((sb, tb), bi)):
                        continue
                    blk = c.blocks[bi]
                    for si, st in enumerate(blk["stmts"]):
                        if st["k"] == "assign" and st["lhs"][0] == 0 and not st["lhs"][1] and st["rv"]["k"] == "use":
                            out += list(df.origins_of_operand(c, st["rv"]["op"]))
                    t = blk["term"]
                    if t["k"] == "call" and t.get("dest") and t["dest"][0] == 0 and not t["dest"][1]:
                        for a_ in t["args"][:1]:
                            out += list(df.origins_of_operand(c, a_))
                return out
            for sb, tb, v, cd in df.variant_edges(c, "tiny_lfu::Entry"):
                os_ = ret_origins((sb, tb))
                if v == 1:
                    # (OccupiedEntry::get is transparent for the def-use walk: the origin is the entry argument `_2` itself)
                    if not os_ or not all((x.kind == "call" and re.search(r"OccupiedEntry::<.*>::get(_mut)?$", x.callee() or "")) or
                                          (x.kind == "param" and str(x.info).split(".")[0] == "_2") for x in os_):
                        ctx.fail(o, Site(c, tb, 0), "in the Occupied arm get_lock_instance returns something other than a clone of the lock already in the table: two tasks asking "
                                 "for the lock of one query get different locks")
                elif v == 0:
                    ins = c.calls_to(r"tiny_lfu::VacantEntry::<.*>::insert$")
                    io = {x.key() for i_ in ins for x in df.origins_of_operand(c, i_.node["args"][1])}
                    if not os_ or not ({x.key() for x in os_} & io):
                        ctx.fail(o, Site(c, tb, 0), "in the Vacant arm get_lock_instance returns an instance other than the one it inserted")
    for fn, which in (("QueryLockManager::acquire_exclusive_lock", "write_owned"), ("QueryLockManager::acquire_shared_lock", "read_owned")):
        o = ctx.ob("C02.d", "%s/locks-table-instance" % fn, "K5", "the guard handed out locks the instance obtained from the table")
        b = ctx.touch(prog.coroutine_of(fn))
        acq = b.calls_to(r"tokio::sync::rwlock::RwLock::<T>::%s$" % which)
        o.sites = len(acq)
        if len(acq) != 1:
            ctx.fail(o, Site(b, 0, 0), "expected one %s in %s" % (which, fn))
        else:
            os_ = df.origins_of_operand(b, acq[0].node["args"][0])
            if not any(x.kind == "call" and (x.callee() or "").endswith("get_lock_instance") for x in os_):
                ctx.fail(o, acq[0], "%s does not lock the instance returned by get_lock_instance" % fn)


def c02e(ctx):
    prog = ctx.prog
    o = ctx.ob("C02.e", "recompute_decision/clean-after-all-joined", "K2+K4", "RepairDecision::Clean is returned only after every spawned chunk was joined and none required a recompute")
    b = ctx.touch(prog.coroutine_of("Snapshot::recompute_decision_based_on_forward_edges"))
    loops = df.await_loops(b, r"tokio::task::join_set::JoinSet::<T>::join_next$")
    spawns = b.calls_to(r"tokio::task::join_set::JoinSet::<T>::spawn$")
    cln = b.aggregates(r"repair::RepairDecision$", "Clean")
    o.sites = len(loops) + len(spawns) + len(cln)
    if len(loops) != 1 or len(spawns) != 1 or len(cln) != 1:
        ctx.fail(o, Site(b, 0, 0), "anchors missing (join_next loops=%d, JoinSet::spawn=%d, Clean=%d)" % (len(loops), len(spawns), len(cln)))
    else:
        lp = loops[0]
        # from the spawn, Clean is reachable only through the loop's None exit
        r = b.reachable([spawns[0].node["t"]], removed_edges=[(sb, lp.none) for sb in b.pred[lp.none]])
        if cln[0].bb in r:
            ctx.fail(o, cln[0], "RepairDecision::Clean is reachable after spawning chunk checks without leaving the join_next loop through its None exit")
        # and only with found_recompute == false: a bool local assigned true inside the loop and tested after it
        flag_sw = [sb for sb in df.switches(b) if sb in b.reachable([lp.none]) and b.blocks[sb]["term"]["ty"] == "bool" and df.switch_cond(b, sb).kind == "value"]
        ok = False
        for sb in flag_sw:
            tt, ft = df.bool_edges(b, sb)
            if tt is None:
                continue
            # the true edge must lead to a Recompute return and Clean must be unreachable from it
            if cln[0].bb not in b.reachable([tt]) and cln[0].bb in b.reachable([ft]) and b.edge_dominates((sb, ft), cln[0].bb) is False:
                ok = True
            if cln[0].bb not in b.reachable([tt]) and cln[0].bb in b.reachable([ft]):
                ok = True
        if not ok:
            ctx.fail(o, cln[0], "no test of the `found_recompute` flag separates the loop exit from RepairDecision::Clean")
    for fn in ("Snapshot::repair_transitive_firewall_callees", "Snapshot::invoke_backward_projections"):
        o = ctx.ob("C02.e", "%s/all-joined" % fn, "K2", "the function returns only after every spawned task was joined")
        b = ctx.touch(prog.async_body(fn))
        loops = df.await_loops(b, r"tokio::task::join_set::JoinSet::<T>::join_next$")
        spawns = b.calls_to(r"tokio::task::join_set::JoinSet::<T>::spawn$")
        o.sites = len(loops) + len(spawns)
        if len(loops) != 1 or len(spawns) != 1:
            ctx.fail(o, Site(b, 0, 0), "anchors missing in %s (join loops=%d, spawns=%d)" % (fn, len(loops), len(spawns)))
            continue
        lp = loops[0]
        r = b.reachable([spawns[0].node["t"]], removed_edges=[(sb, lp.none) for sb in b.pred[lp.none]])
        for rb in b.returns():
            if rb in r:
                ctx.fail(o, Site(b, rb, 0), "%s can return after spawning repair tasks without having joined them all: the caller would trust unrepaired callees" % fn)


def _vn(prog, adt, v):
    try:
        return prog.adts[adt]["variants"][int(v)]["name"]
    except Exception:
        return str(v)


def c02f(ctx):
    """A Snapshot memoises the columns it has read under its query lock.  upgrade_to_exclusive drops the shared lock and
    waits for the exclusive one: in that gap another task may publish the node, so every memoised column must be
    forgotten after the new lock is held — a field left out is a stale read carried across a lock gap (the K7 shape, on
    struct fields)."""
    prog = ctx.prog
    o = ctx.ob("C02.f", "Snapshot::upgrade_to_exclusive/forgets-every-memoised-column", "K3+K1",
               "after re-acquiring the query lock exclusively, upgrade_to_exclusive resets every Option<Option<..>> cache field of Snapshot")
    adt = next((v for k, v in prog.adts.items() if k.endswith("database::snapshot::Snapshot")), None)
    if adt is None:
        ctx.fail(o, "(program)", "anchor missing: the Snapshot struct")
        return
    fields = [f["name"] for f in adt["variants"][0]["fields"] if f["ty"].replace(" ", "").startswith("core::option::Option<core::option::Option<")]
    o.sites = len(fields)
    if len(fields) < 6:
        ctx.fail(o, "(program)", "expected >= 6 memoised columns in Snapshot, found %s" % fields)
    b = ctx.touch(prog.coroutine_of("Snapshot::upgrade_to_exclusive"))
    acq = b.calls_to(r"QueryLockManager::acquire_exclusive_lock$")
    if len(acq) != 1:
        ctx.fail(o, Site(b, 0, 0), "anchor missing: acquire_exclusive_lock in upgrade_to_exclusive")
        return
    reset = {}
    def is_none(a):
        rv = a.node["rv"]
        if rv["k"] == "agg":
            return rv.get("ak") == "adt" and (rv.get("adt") or "").endswith("option::Option") and not rv["ops"]
        if rv["k"] == "use":
            os_ = list(df.origins_of_operand(b, rv["op"]))
            return bool(os_) and all(x.kind == "agg" and (x.site.node["rv"].get("adt") or "").endswith("option::Option") and not x.site.node["rv"]["ops"] for x in os_)
        return False
    for a in b.assigns(lambda st: any(e.startswith("f:") for e in st["lhs"][1])):
        fl = [e[2:].split("#")[0] for e in a.node["lhs"][1] if e.startswith("f:")]
        if fl and is_none(a) and b.site_dominates(acq[0], a):
            reset[fl[-1]] = a
    # the re-acquisition is skipped only when the lock is already exclusive
    rets = b.returns()
    skip = b.reachable([0], removed_nodes=[acq[0].bb])
    if any(t in skip for t in rets):
        ex_edges = [(sb, tb) for sb, tb, v, c in df.variant_edges(b, "query_lock_manager::QueryLock") if _vn(prog, c.adt, v) == "Exclusive"]
        skip2 = b.reachable_fs([0], removed_nodes=[acq[0].bb], removed_edges=ex_edges, flags_from=[tb for sb, tb in ex_edges])
        if not ex_edges or any(t in skip2 for t in rets):
            ctx.fail(o, acq[0], "upgrade_to_exclusive can return without holding the exclusive lock on a path other than `the lock is already Exclusive`")
    for f in fields:
        if f not in reset:
            ctx.fail(o, acq[0], "upgrade_to_exclusive keeps the memoised `%s` across the gap between the shared and the exclusive lock: what is read from it afterwards may "
                     "be the state before another task published the node" % f)


def c02g(ctx):
    """CompressedBackwardEdgeSet: when the small vector is upgraded to the large set, every element drained from the vector
    is inserted into the new set (each is a backward edge; a dropped one is a caller that is never invalidated)."""
    prog = ctx.prog
    o = ctx.ob("C02.g", "CompressedBackwardEdgeSet::insert_element/upgrade-keeps-every-element", "K2",
               "every item taken out of the small vector by the tier upgrade is inserted into the large set before the next item is taken")
    b = ctx.touch(prog.body("<CompressedBackwardEdgeSet as ConcurrentSet>::insert_element"))
    nx = [s_ for s_ in b.calls_to(r"Iterator::next$") if "Drain" in (s_.node["fn"].get("res_key") or "") + " ".join(s_.node["fn"].get("gargs", [])) + (s_.node["fn"].get("self_ty") or "")]
    if not nx:
        nx = [s_ for s_ in b.calls_to(r"Iterator::next$")]
    ins = b.calls_to(r"DashSet::<K, S>::insert$")
    o.sites = len(nx) + len(ins)
    if len(nx) != 1 or not ins:
        ctx.fail(o, Site(b, 0, 0), "anchor missing: the drain loop of the tier upgrade (next=%d, DashSet::insert=%d)" % (len(nx), len(ins)))
    else:
        sb = nx[0].node["t"]
        some = [tb for s2, tb, v, c in df.variant_edges(b, "Option") if s2 == sb and v == 1]
        if not some:
            ctx.fail(o, nx[0], "anchor missing: the Some edge of the drain loop")
        for tb in some:
            if b.must_pass([tb], [i_.bb for i_ in ins], to_bbs=[nx[0].bb] + b.returns()):
                ctx.fail(o, nx[0], "the tier upgrade can take an element out of the small vector and go on without inserting it into the large set: that backward edge is lost")


def c02i(ctx):
    """K3.  An executor may await the same dependency more than once at a time (join!/select! over the same key, a helper
    task asking again).  The first call registers the callee in the node's dependency table; later calls find it there.
    The undo token that un-registers a cancelled call must therefore belong to the registration, not to the call: if every
    call gets a token, dropping one of two concurrent requests removes the dependency the other one has recorded (the node
    is stored without that edge and is never invalidated through it), and dropping both trips the `is_some()` assertion in
    abort_callee inside a Drop.  In the shape of the code: UndoRegisterCallee::new is control-dependent on the answer of
    QueryComputing::register_calee ("newly registered"), or abort_callee's removal is guarded by a registration count."""
    prog = ctx.prog
    o = ctx.ob("C02.i", "register_callee/undo-token-belongs-to-the-registration", "K4",
               "Engine::register_callee creates an UndoRegisterCallee only when this call made the registration (or un-registering is reference-counted)")
    bodies = [b for b in prog.find(r"^Engine::register_callee(::\{closure#\d+\})?$")]
    sites = [(b, s) for b in bodies for s in b.calls_to(r"register_callee::UndoRegisterCallee::new$")]
    regs = [(b, s) for b in bodies for s in b.calls_to(r"QueryComputing::register_calee$")]
    o.sites = len(sites) + len(regs)
    if len(sites) != 1 or len(regs) != 1 or sites[0][0] is not regs[0][0]:
        ctx.fail(o, "(program)", "anchor missing: UndoRegisterCallee::new / QueryComputing::register_calee in Engine::register_callee (%d / %d)" % (len(sites), len(regs)))
        return
    b, new = sites[0]
    reg = regs[0][1]
    ctx.touch(b)
    # (a) the token's creation depends on what the registration answered
    guarded = False
    for bb in b.live_blocks:
        t = b.blocks[bb]["term"]
        if t["k"] == "switch" and b.bb_dominates(bb, new.bb) and bb != new.bb and any(x.kind == "call" and x.site == reg for x in df.origins_of_operand(b, t["op"])):
            guarded = True
    # (b) or un-registering is counted: abort_callee's removal depends on a counter it decrements
    ab = ctx.touch(prog.body("QueryComputing::abort_callee"))
    rm = ab.calls_to(r"HashMap::<K, V, H>::remove_sync$|HashMap::<K, V, H>::remove_if_sync$|OccupiedEntry::<.*>::remove(_entry)?$")
    decs = [x.bb for x in ab.calls_to(r"atomic::Atomic.*::fetch_sub$|::(saturating|checked|wrapping|overflowing)_sub$")] + [
        bi for bi, blk in enumerate(ab.blocks) for st in blk["stmts"] if st["k"] == "assign" and st["rv"].get("k") == "bin" and st["rv"]["op"] in ("Sub", "SubWithOverflow")]
    # counted un-registering: a counter is decremented and, AFTER the decrement, some path returns without removing (other
    # requests remain) while another removes
    counted = bool(decs) and bool(rm) and any(ab.must_pass([d_], [r_.bb for r_ in rm]) and any(r_.bb in ab.reachable([d_]) for r_ in rm) for d_ in decs)
    o.sites += len(rm)
    if not guarded and not counted:
        ctx.fail(o, new, "Engine::register_callee hands out an UndoRegisterCallee for every call, also when the callee was already registered by another request of the same "
                 "executor (QueryComputing::register_calee does not say which): dropping one of two concurrent requests for one key un-registers the dependency the other "
                 "has recorded, dropping both panics in abort_callee's assertion")


    if counted:
        _c02i_counted(ctx, prog, ab)


def _zero_edge(ab, sb, field):
    """The edge of switch `sb` on which `<..>.field` is known to be zero / false, or None when sb does not test that field."""
    c = df.switch_cond(ab, sb)
    tt, ff = df.bool_edges(ab, sb)
    if tt is None:
        return None
    if c.kind == "bin":
        pa, pb = df.access_path(ab, c.a), df.access_path(ab, c.b)
        za, zb = const_int(c.a) == 0, const_int(c.b) == 0
        zero_on_true = None
        if field in pa and zb and c.op in ("Gt", "Ne"):
            zero_on_true = False
        elif field in pa and zb and c.op in ("Eq", "Le"):
            zero_on_true = True
        elif field in pb and za and c.op in ("Lt", "Ne"):
            zero_on_true = False
        elif field in pb and za and c.op in ("Eq", "Ge"):
            zero_on_true = True
        if zero_on_true is None:
            return None
        if c.negated:
            zero_on_true = not zero_on_true
        return (sb, tt if zero_on_true else ff)
    if c.kind == "value" and field in df.access_path(ab, ab.blocks[sb]["term"]["op"]):
        return (sb, tt if c.negated else ff)
    return None


def _c02i_counted(ctx, prog, ab):
    """The counted form (D14): the registration of a callee must outlive every request that is still running AND every request
    that has completed.  abort_callee may therefore undo it only on the path where no request is in flight and none has
    completed - both tests, conjoined; with either test alone (or the two disjoined) the cancelled twin of a completed or
    still-running request takes the dependency away from it."""
    o = ctx.ob("C02.i", "abort_callee/undone-only-when-no-request-runs-and-none-completed", "K4+K2",
               "every removal in QueryComputing::abort_callee is dominated by the `in_flight == 0` edge and by the `kept == false` edge; keep_callee raises `kept`")
    rm = ab.calls_to(r"HashMap::<K, V, S(, A)?>::remove$|HashMap::<K, V, H>::remove_sync$|HashMap::<K, V, H>::remove_if_sync$|OccupiedEntry::<.*>::remove(_entry)?$|CalleeOrder::abort_callee$")
    o.sites = len(rm)
    if len(rm) < 3:
        ctx.fail(o, Site(ab, 0, 0), "anchors missing: the three removals of abort_callee (request record, callee table, callee order), found %d" % len(rm))
        return
    for field, what in (("in_flight", "no other request for the callee is still running"), ("kept", "no request for the callee has completed")):
        edges = [e for e in (_zero_edge(ab, sb, field) for sb in df.switches(ab)) if e is not None]
        o.sites += len(edges)
        if not edges:
            ctx.fail(o, Site(ab, 0, 0), "anchor missing: abort_callee does not test `%s`" % field)
            continue
        for r_ in rm:
            if not any(ab.edge_dominates(e, r_.bb) for e in edges):
                ctx.fail(o, r_, "abort_callee can reach `%s` without having established that %s (`%s` is not tested, or only as an alternative): a cancelled request "
                         "un-registers a dependency that its twin has recorded or is about to record - the caller is stored without that edge and a later change of the "
                         "callee never invalidates it" % (r_.node["fn"]["path"].rsplit("::", 1)[-1], what, field))
    kc = ctx.touch(prog.body("QueryComputing::keep_callee"))
    raised = kc.assigns(lambda st: any(e.startswith("f:kept") for e in st["lhs"][1]) and st["rv"]["k"] == "use" and const_int(st["rv"]["op"]) == 1)
    o.sites += len(raised)
    if not raised:
        ctx.fail(o, Site(kc, 0, 0), "keep_callee does not raise `kept`: a completed request no longer protects its registration from a cancelled twin")


def run(ctx):
    # "a dependency recorded by one of many callers is never lost": the caller sets are key-of-set entries - their cold
    # loader, staging overlay and merging reader must not drop a member (C09.g staging / C09.i), evaluated here as C02.h
    from . import C09
    ctx.alias = {"C09.g": "C02.h", "C09.i": "C02.h"}
    ctx.run_clause("C02.h", C09.c09g_staging)
    ctx.run_clause("C02.h", C09.c09i)
    ctx.alias = {}
    ctx.run_clause("C02.i", c02i)
    # several tracked engines and sessions: a reader that had to wait for the phase lock must read the epoch AFTER it got the
    # lock, else it runs after the session it queued behind with the epoch from before it (C04.a, evaluated here as C02.j)
    from . import C04
    ctx.alias = {"C04.a": "C02.j"}
    ctx.run_clause("C02.j", C04.c04a)
    ctx.alias = {}
    ctx.run_clause("C02.f", c02f)
    ctx.run_clause("C02.g", c02g)
    for c, f in (("C02.a", c02a), ("C02.b", c02b), ("C02.c", c02c), ("C02.c", c02c2), ("C02.d", c02d), ("C02.e", c02e)):
        ctx.run_clause(c, f)

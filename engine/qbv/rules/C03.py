"""C03 — only justified work is re-executed (structural clauses: every place where work is
started or dirtiness is spread is control-dependent on the condition that justifies it)."""
import re

from .. import dataflow as df
from ..facts import Site, op_local, short

EXPLANATION = (
    "Static analysis over rustc's promoted MIR (control dependence via edge-dominance). Decided: inputs are enqueued for propagation only when "
    "their fingerprint changed (set_input/update/refresh); dirty propagation does not continue through firewall/projection callers; a recomputed "
    "firewall/projection spreads dirtiness and schedules backward projection only when its fingerprint changed; the in-lock double check returns "
    "without work when the node is already verified at the caller's epoch; repair re-executes only on a Recompute decision - a backward-projection propagation is verified (pedantically), not forced, and the pending-projection marker is tested for presence only at both sites (protocol since D19); "
    "an edge that is not dirty is skipped unless the repair is pedantic or the node is a projection; the executor has exactly two call sites and "
    "refresh is the only one outside execute_query. Minimality per invocation over all histories is NOT decided. C03.l every stored fingerprint is the hash of the value stored next to it, and a clean keeps the value fingerprint (C01.h).")

NOT_DECIDED = [
    "that an executor runs only if a dependency it read last time has a different value now — judged per invocation over all programs and histories",
    "at-most-once execution per query between two sessions under all interleavings",
]
ASSUMPTIONS = []


def c03_inputs(ctx):
    prog = ctx.prog
    for fn in ("InputSession::set_input", "InputSession::update"):
        o = ctx.ob("C03.a", "%s/enqueue-only-if-updated" % fn, "K4", "an input is enqueued for dirty propagation only when its fingerprint changed")
        blk = [b for b in prog.find(r"^%s::\{closure#0\}::\{closure#\d+\}$" % re.escape(fn)) if b.is_coroutine]
        if len(blk) != 1:
            ctx.fail(o, "(program)", "anchor missing: guarded block of %s" % fn)
            continue
        b = ctx.touch(blk[0])
        push = b.calls_to(r"VecDeque::<T(, A)?>::push_back$")
        o.sites = len(push)
        if len(push) != 1:
            ctx.fail(o, Site(b, 0, 0), "expected one dirty_batch.push_back in %s" % b.name)
        else:
            ok = df.dominated_by_equality(b, push[0].bb, "eq", lambda x, y: any("SetInputResult::Updated" in a or "Updated" in a for a in y.aggs) or any("Updated" in c for c in y.consts), prog)
            if not ok:
                ctx.fail(o, push[0], "dirty_batch.push_back is not restricted to SetInputResult::Updated in %s: an unchanged input would dirty (and re-execute) its dependants" % fn)
        # Updated is produced only under a fingerprint difference
        cl = [c for c in prog.find(r"^%s::\{closure#0\}::\{closure#\d+\}$" % re.escape(fn)) if not c.is_coroutine and c.aggregates(r"input_session::SetInputResult$", "Updated")]
        o2 = ctx.ob("C03.a", "%s/updated-means-fingerprint-differs" % fn, "K4", "SetInputResult::Updated is produced only when the stored and the new fingerprint differ")
        o2.sites = len(cl)
        if len(cl) != 1:
            ctx.fail(o2, "(program)", "anchor missing: closure computing SetInputResult in %s (found %d)" % (fn, len(cl)))
            continue
        c = ctx.touch(cl[0])
        for a in c.aggregates(r"input_session::SetInputResult$", "Updated"):
            if not df.dominated_by_equality(c, a.bb, "ne", lambda x, y: x.has("NodeInfo::value_fingerprint") or y.has("NodeInfo::value_fingerprint"), prog):
                ctx.fail(o2, a, "SetInputResult::Updated does not depend on `value_fingerprint() != new fingerprint`")
        for a in c.aggregates(r"input_session::SetInputResult$", "Unchanged"):
            if not df.dominated_by_equality(c, a.bb, "eq", lambda x, y: x.has("NodeInfo::value_fingerprint") or y.has("NodeInfo::value_fingerprint"), prog):
                ctx.fail(o2, a, "SetInputResult::Unchanged is produced although the fingerprints may differ")
    o = ctx.ob("C03.a", "InputSession::refresh/enqueue-only-if-changed", "K4", "a refreshed external input is enqueued only when its result fingerprint changed")
    blk = [b for b in prog.find(r"^InputSession::refresh::\{closure#0\}::\{closure#\d+\}$") if b.is_coroutine and b.calls_to(r"VecDeque::<T(, A)?>::push_back$")]
    if len(blk) != 1:
        ctx.fail(o, "(program)", "anchor missing: guarded block of InputSession::refresh")
    else:
        b = ctx.touch(blk[0])
        push = b.calls_to(r"VecDeque::<T(, A)?>::push_back$")
        o.sites = len(push)
        for p in push:
            if not df.dominated_by_equality(b, p.bb, "ne", lambda x, y: (x.has("value_fingerprint") and y.has("query_result_hash")) or (x.has("value_fingerprint")), prog):
                ctx.fail(o, p, "refresh enqueues the external input without comparing the old and new result fingerprints")


FIREWALLISH = {"Firewall", "Projection"}


def c03_propagation(ctx):
    prog = ctx.prog
    o = ctx.ob("C03.b", "process_task/stop-at-firewall-and-projection", "K4", "dirty propagation does not continue through firewall or projection callers")
    b = ctx.touch(prog.coroutine_of("DirtyWorker::process_task"))
    prop = b.calls_to(r"DirtyTask::<C>::propagate_to$")
    o.sites = len(prop)
    if len(prop) != 1:
        ctx.fail(o, Site(b, 0, 0), "expected one propagate_to call in process_task")
    else:
        # there must be a switch on the ExecutionStyle of the caller's QueryKind whose Firewall/Projection edges do not reach propagate_to
        adt = prog.adts.get("qbice::query::ExecutionStyle")
        names = [v["name"] for v in adt["variants"]] if adt else []
        found = False
        for sb in df.switches(b):
            c = df.switch_cond(b, sb)
            if c.kind != "disc" or not (c.adt or "").endswith("query::ExecutionStyle"):
                continue
            os_ = df.origins_of_place(b, c.place)
            if not any(x.kind == "call" and (x.callee() or "").endswith("get_query_kind") for x in os_):
                continue
            found = True
            explicit = {}
            for v, tb in df.switch_edges(b, sb):
                explicit[v] = tb
            for i, nm in enumerate(names):
                tb = explicit.get(i, explicit.get("otherwise"))
                # reaching propagate_to again only through a *later* loop iteration is fine: cut at the loop head
                loops = [l for l in df.iter_loops(b) if any(cc.endswith("get_backward_edges_unchecked") for cc in l.src_calls())]
                cut = [sb] + ([loops[0].head.bb] if loops else [])
                reach = prop[0].bb in b.reachable_fs([tb], removed_nodes=cut)
                if nm in FIREWALLISH and reach:
                    ctx.fail(o, prop[0], "dirty propagation continues through a %s caller: dirtiness leaks above a node whose value may not have changed" % nm)
                if nm not in FIREWALLISH and nm != "ExternalInput" and not reach:
                    pass
        if not found:
            ctx.fail(o, prop[0], "no test of the caller's ExecutionStyle guards propagate_to")
    o = ctx.ob("C03.c", "execute_query/propagate-only-if-fingerprint-changed", "K4", "a recomputed firewall/projection dirties its callers and schedules backward projection only when its fingerprint changed")
    eq = [x for x in prog.find(r"^Snapshot::execute_query::") if x.is_coroutine and x.calls_to(r"::dirty_propagate_from_batch$")]
    if len(eq) != 1:
        ctx.fail(o, "(program)", "anchor missing: publish block of execute_query")
    else:
        b = ctx.touch(eq[0])
        dp = b.calls_to(r"::dirty_propagate_from_batch$")
        o.sites = len(dp)
        for s in dp:
            if not df.dominated_by_equality(b, s.bb, "ne", lambda x, y: x.has("NodeInfo::value_fingerprint") or y.has("NodeInfo::value_fingerprint"), prog):
                ctx.fail(o, s, "dirty_propagate_from_batch in execute_query is not restricted to `old fingerprint != new fingerprint`: an unchanged firewall would dirty everything above it")
            # and only for firewall/projection recomputes
            fw = [c for c in b.calls_to(r"QueryKind::(is_firewall|is_projection)$") if b.site_dominates(c, s)]
            if not fw:
                ctx.fail(o, s, "dirty propagation from execute_query is not restricted to firewall/projection nodes")
        cc = b.calls_to(r"::computing_lock_to_computed$")
        if len(cc) == 1:
            # has_pending_backward_projection (arg 5) must be false on the non-updated path: it derives from the same comparison
            os_ = df.origins_of_operand(b, cc[0].node["args"][5])
            consts = {str(x.info) for x in os_ if x.kind == "const"}
            if ("const true" in consts or "true" in consts) and not any(x.kind in ("call", "agg") for x in os_):
                ctx.fail(o, cc[0], "has_pending_backward_projection is unconditionally true")


def c03_repair(ctx):
    prog = ctx.prog
    o = ctx.ob("C03.d", "computing_lock_guard/double-check", "K4", "after winning the slot a task does nothing if the node is already verified at the caller's epoch")
    b = ctx.touch(prog.coroutine_of("Snapshot::computing_lock_guard"))
    aggs = b.aggregates(r"computing::QueryComputing$")
    o.sites = len(aggs)
    if len(aggs) != 1:
        ctx.fail(o, Site(b, 0, 0), "anchor missing: QueryComputing construction")
    else:
        a = aggs[0]
        by_ne = df.dominated_by_equality(b, a.bb, "ne", lambda x, y: x.has("last_verified") and y.has("CallerInformation::timestamp"), prog)
        # or reached through the "never computed" arm (last_verified is None)
        none_arm = df.dominated_by_variant(b, a.bb, "core::option::Option", {0},
                                           place_pred=lambda c: any(x.kind == "call" and (x.callee() or "").endswith("::last_verified") for x in df.origins_of_place(b, c.place)))
        # both ways must be the only ways: removing the ne-edge and the None-edge makes it unreachable
        edges = []
        for sb, tb, rel, da, db in df.equality_edges(b, prog):
            if rel == "ne" and ((da.has("last_verified") and db.has("CallerInformation::timestamp")) or (db.has("last_verified") and da.has("CallerInformation::timestamp"))):
                edges.append((sb, tb))
        for sb, tb, v, c in df.variant_edges(b, "core::option::Option"):
            if v == 0 and any(x.kind == "call" and (x.callee() or "").endswith("::last_verified") for x in df.origins_of_place(b, c.place)):
                edges.append((sb, tb))
            if v == "otherwise" and any(x.kind == "call" and (x.callee() or "").endswith("::last_verified") for x in df.origins_of_place(b, c.place)):
                explicit = [vv for _, _, vv, cc in df.variant_edges(b, "core::option::Option") if cc is c]
                if 0 not in explicit:
                    edges.append((sb, tb))
        if not edges or a.bb in b.reachable([0], removed_edges=edges):
            ctx.fail(o, a, "a computing slot is created although `last_verified == caller.timestamp()` was not excluded: an up-to-date query would be repaired/executed again")
    o = ctx.ob("C03.d", "should_recompute_query/recompute-only-when-needed", "K4",
               "repair hands the guard on to re-execution only after a Recompute decision - also for a backward-projection propagation (which is verified, not forced; D19)")
    b = ctx.touch(prog.coroutine_of("Snapshot::should_recompute_query"))
    somes = [a for a in b.aggregates(r"core::option::Option$", "Some") if a.node["lhs"][0] == 0]
    dec = b.calls_to(r"recompute_decision_based_on_forward_edges$")
    o.sites = len(somes) + len(dec)
    if len(somes) < 1 or len(dec) != 1:
        ctx.fail(o, Site(b, 0, 0), "anchors missing: `return Some((lock_guard, self))` / recompute_decision_based_on_forward_edges in should_recompute_query (%d / %d)" % (len(somes), len(dec)))
    for a in somes:
        if not df.dominated_by_variant(b, a.bb, "repair::RepairDecision", {0}):
            ctx.fail(o, a, "should_recompute_query returns Some (re-execute) on a path that did not go through RepairDecision::Recompute: a query whose inputs did not change is re-executed "
                     "(for a backward-projection propagation: a left-over marker above an up-to-date projection runs its executor)")
    o = ctx.ob("C03.d", "check_callee/skip-clean-edges", "K4", "a callee behind a clean edge is neither repaired nor compared unless the repair is pedantic or the node is a projection")
    b = ctx.touch(prog.coroutine_of("Snapshot::check_callee"))
    nn = b.aggregates(r"repair::CalleeCheckDecision$", "NoNeed")
    rep = b.calls_to(r"executor::Entry::<C>::repair_query_from_query_id$")
    o.sites = len(nn) + len(rep)
    if len(nn) != 1 or len(rep) != 1:
        ctx.fail(o, Site(b, 0, 0), "anchors missing (NoNeed=%d, recursive repair=%d)" % (len(nn), len(rep)))
    else:
        dirty = b.calls_to(r"::is_edge_dirty$")
        if len(dirty) != 1 or not b.site_dominates(dirty[0], nn[0]):
            ctx.fail(o, nn[0], "NoNeed is not decided from is_edge_dirty")
        if rep[0].bb in b.reachable([nn[0].bb]):
            ctx.fail(o, rep[0], "the recursive repair is reachable after deciding NoNeed")
        # NoNeed must depend on exactly: !edge_is_dirty, !pedantic_repair, !is_projection — nothing more (else clean edges get repaired),
        # nothing less (else dirty edges are skipped)
        seen = set()
        extra = []
        for sb in df.switches(b):
            if len(dirty) == 1 and not b.bb_dominates(dirty[0].bb, sb):
                continue
            c = df.switch_cond(b, sb)
            if c.kind == "disc" and (c.adt or "").endswith("task::poll::Poll"):
                continue
            tt, ft = df.bool_edges(b, sb)
            for tgt, val in ((tt, True), (ft, False)):
                if tgt is None:
                    continue
                if not (b.edge_dominates((sb, tgt), nn[0].bb) and nn[0].bb in b.reachable([tgt])):
                    continue
                truth = val != c.negated
                what = None
                if c.kind == "call" and re.search(r"QueryKind>?::is_projection$", c.callee):
                    what = "is_projection"
                else:
                    os_ = df.origins_of_operand(b, b.blocks[sb]["term"]["op"])
                    if any(x.kind == "call" and (x.callee() or "").endswith("::is_edge_dirty") for x in os_):
                        what = "edge_is_dirty"
                    elif any(x.kind == "param" for x in os_) and all(x.kind in ("param", "const") for x in os_):
                        what = "pedantic_repair"
                if what is None:
                    extra.append((sb, c))
                else:
                    seen.add((what, truth))
        want = {("edge_is_dirty", False), ("pedantic_repair", False), ("is_projection", False)}
        if seen != want:
            ctx.fail(o, nn[0], "NoNeed must be decided by exactly !edge_is_dirty && !pedantic_repair && !is_projection; found %s" % sorted(seen))
        for sb, c in extra:
            ctx.fail(o, Site(b, sb, len(b.blocks[sb]["stmts"])), "NoNeed additionally depends on another condition (%s): callees behind clean edges would be repaired and compared" % c.kind)
    o = ctx.ob("C03.e", "executor-call-sites", "K3", "the executor runs only from execute_query, or from refresh for external inputs")
    sites = prog.callers_of(r"executor::Entry::<C>::invoke_executor$")
    o.sites = len(sites)
    roots = sorted(s.body.name.split("::{closure")[0] for s in sites)
    if roots != ["InputSession::refresh", "Snapshot::execute_query"]:
        ctx.fail(o, "(program)", "executor call sites are %s (expected execute_query and refresh only)" % roots)
    # execute_query is entered only from process_query (fresh) and repair_query (recompute)
    cs = prog.callers_of(r"::execute_query$")
    roots = sorted(set(s.body.name.split("::{closure")[0] for s in cs))
    o.sites += len(cs)
    if roots != ["Snapshot::process_query", "Snapshot::repair_query"]:
        ctx.fail(o, "(program)", "execute_query is called from %s (expected process_query and repair_query)" % roots)
    else:
        for s in cs:
            b = ctx.touch(s.body)
            if s.body.name.startswith("Snapshot::process_query"):
                if not df.dominated_by_equality(b, s.bb, "eq", lambda x, y: x.has("ComputingLockGuard::computing_mode") or y.has("ComputingLockGuard::computing_mode"), prog):
                    ctx.fail(o, s, "process_query executes a query without checking ComputingMode::Execute (first demand)")


def c03_marker(ctx):
    """Protocol since D19 (DESIGN 6, K2 -> D19): the persisted backward-projection marker is honoured whatever epoch it was
    written in; BOTH sites that decide on the backward projection test its PRESENCE only and therefore agree (a site that
    compares epochs while the other does not live-locks or forgets work), and what keeps a left-over marker from repeating
    work is that a backward-projection propagation is verified, not forced (C03.d).  The earlier form of this clause
    demanded epoch equality at both sites - consistent with the protocol of the time, whose loss of pending work was the
    known finding K2."""
    prog = ctx.prog
    o = ctx.ob("C03.f", "pending-backward-projection/both-sites-test-presence-and-agree", "K4+K8",
               "fast_path enters the backward projection iff the marker is present, and the in-lock double check of get_backward_projection_lock_guard gives up iff it is absent; neither compares epochs")
    want = (("Snapshot::fast_path", r"Option::<[^>]*>::is_some$", r"Option::<[^>]*>::is_some_and$"),
            ("Snapshot::get_backward_projection_lock_guard", r"Option::<[^>]*>::is_none$", r"Option::<[^>]*>::is_none_or$"))
    n = 0
    for fn, plain, with_pred in want:
        b = ctx.touch(prog.coroutine_of(fn))
        from_marker = lambda s_: any(x.kind == "call" and (x.callee() or "").endswith("::pending_backward_projection") for x in df.origins_of_operand(b, s_.node["args"][0]))
        ok = [s_ for s_ in b.calls_to(plain) if from_marker(s_)]
        pred = [s_ for s_ in b.calls_to(with_pred) if from_marker(s_)]
        n += len(ok) + len(pred)
        if pred:
            ctx.fail(o, pred[0], "%s decides on the pending-backward-projection marker with a predicate on its content (an epoch comparison): the two sites must both test presence only - "
                     "with `==` pending work is forgotten when the epoch moves on (K2), with an ordering one site and not the other live-locks" % fn)
        elif len(ok) != 1:
            ctx.fail(o, Site(b, 0, 0), "anchor missing: the presence test of pending_backward_projection() in %s (found %d)" % (fn, len(ok)))
    o.sites = n
    # the marker is written with the current epoch, and removed when the projection is done
    o2 = ctx.ob("C03.f", "pending-backward-projection/written-with-current-epoch", "K5", "the marker stores the epoch of the recomputation that requested it")
    b = ctx.touch(prog.coroutine_of("Snapshot::set_computed"))
    ag = b.aggregates(r"database::PendingBackwardProjection$")
    o2.sites = len(ag)
    if len(ag) != 1 or not all(x.kind == "param" for x in df.origins_of_operand(b, ag[0].node["rv"]["ops"][0])):
        ctx.fail(o2, Site(b, 0, 0), "set_computed does not stamp the marker with its current_timestamp argument")


def c03_epoch_cmp(ctx):
    """Epochs identify sessions: the engine never orders them, it only asks `same epoch?`."""
    prog = ctx.prog
    o = ctx.ob("C03.g", "epochs-compared-for-equality-only", "K3", "every comparison of a Timestamp in the engine is an equality / inequality test")
    n = 0
    for b in prog.all_bodies(["qbice"]):
        for s in b.calls(lambda f, t: bool(re.search(r"core::cmp::(PartialOrd::(lt|le|gt|ge|partial_cmp)|Ord::(cmp|max|min))$", f["path"]))):
            st = s.node["fn"].get("self_ty", "")
            if st.endswith("database::Timestamp") or st.endswith("database::LastVerified") or st.endswith("database::PendingBackwardProjection"):
                ctx.touch(b)
                ctx.fail(o, s, "%s orders two epochs (%s): `verified in an earlier session` is not `verified now` — work would be skipped or repeated across sessions" % (
                    b.name, s.node["fn"]["path"].rsplit("::", 1)[-1]))
        for s in b.calls(lambda f, t: bool(re.search(r"core::cmp::PartialEq::(eq|ne)$", f["path"]))):
            if s.node["fn"].get("self_ty", "").endswith("database::Timestamp") and not b.rec.get("from_expansion") and "::{impl#" not in b.key.split("::")[-2:][0]:
                n += 1
        # raw u64 comparisons of the inner value
        for st in b.assigns(lambda st: st["rv"]["k"] == "bin" and st["rv"]["op"] in ("Lt", "Le", "Gt", "Ge")):
            for side in ("a", "b"):
                ap = df.access_path(b, st.node["rv"][side]) if df.op_place(st.node["rv"][side]) else []
                if any(x in ("last_verified", "timestamp", "pending_backward_projection") for x in ap):
                    ctx.fail(o, st, "%s orders two epochs with `%s`" % (b.name, st.node["rv"]["op"]))
    o.sites = n
    if n < 2:
        ctx.fail(o, "(program)", "expected >= 2 equality tests on Timestamp in the engine (fast path, in-lock double check of computing_lock_guard), found %d" % n)


def c03j(ctx):
    """A callee that is unchanged in VALUE never forces its caller to run again, whatever happened to the set of firewalls
    below it (that only asks for the caller's own set to be patched).  In the repair decision, `Recompute` must not be
    reachable from a callee answer other than CalleeCheckDecision::Recompute within the same iteration."""
    prog = ctx.prog
    o = ctx.ob("C03.j", "recompute_decision/only-a-changed-value-forces-re-execution", "K4",
               "in recompute_decision_based_on_forward_edges no RepairDecision::Recompute is reachable from the Cleaned / NoNeed answer of a callee before the next callee is taken")
    b = ctx.touch(prog.coroutine_of("Snapshot::recompute_decision_based_on_forward_edges"))
    rec = b.aggregates(r"repair::RepairDecision$", "Recompute")
    heads = [s_.bb for s_ in b.calls_to(r"Iterator::next$")] + [s_.bb for s_ in b.calls_to(r"JoinSet::<T>::join_next$")]
    edges = [(sb, tb, v) for sb, tb, v, c in df.variant_edges(b, "repair::CalleeCheckDecision") if v != "otherwise"]
    adt = next((k for k in prog.adts if k.endswith("repair::CalleeCheckDecision")), None)
    names = [x["name"] for x in prog.adts[adt]["variants"]] if adt else []
    o.sites = len(edges)
    if not rec or not edges or not names:
        ctx.fail(o, Site(b, 0, 0), "anchor missing: the match on CalleeCheckDecision / the Recompute exits")
        return
    for sb, tb, v in edges:
        nm = names[int(v)] if int(v) < len(names) else str(v)
        if nm == "Recompute":
            continue
        r = b.reachable([tb], removed_nodes=heads + [sb])
        for a in rec:
            if a.bb in r:
                ctx.fail(o, a, "the caller is re-executed after a callee answered %s (its value is unchanged): a changed firewall set below a callee must only patch the "
                         "caller's own set, not run its executor" % nm)


def run(ctx):
    ctx.run_clause("C03.j", c03j)
    ctx.run_clause("C03.f", c03_marker)
    ctx.run_clause("C03.g", c03_epoch_cmp)
    ctx.run_clause("C03.a", c03_inputs)
    ctx.run_clause("C03.b", c03_propagation)
    ctx.run_clause("C03.d", c03_repair)
    # stale backward edges make backward projection re-execute projections that no longer read the firewall: the edge
    # role rule of C01.c is a necessary condition of C03 as well
    from . import C01
    ctx.alias = {"C01.c": "C03.h"}
    ctx.run_clause("C03.h", C01.c01c_roles)
    ctx.alias = {}
    # a recompute decision taken on the callee's value BEFORE the callee is repaired re-executes callers whose inputs did
    # not change (value moved away and back): C01.f's rules, evaluated here as C03.i
    ctx.alias = {"C01.f": "C03.i"}
    ctx.run_clause("C03.i", C01.c01f)
    ctx.alias = {}
    # a missing observation means "recompute" (D7): whoever rewrites the observation table while verifying a node clean must
    # keep every callee's entry, else the next verification re-executes a query whose inputs did not change (C01.s as C03.k)
    ctx.alias = {"C01.s": "C03.k"}
    ctx.run_clause("C03.k", C01.c01s)
    ctx.alias = {}
    # early cut-off compares stored fingerprints: a fingerprint that is not the hash of what is stored next to it (a clean
    # that rebuilds the node info with the value and firewall fingerprints mixed up) makes every caller see a change that
    # did not happen and re-execute without justification (C01.h as C03.l)
    ctx.alias = {"C01.h": "C03.l"}
    ctx.run_clause("C03.l", C01.c01h)
    ctx.alias = {}

"""C04 — input sessions are atomic, readers see one input snapshot (structural clauses)."""
import re

from .. import dataflow as df
from ..facts import Site, op_local, short

EXPLANATION = (
    "Static analysis over rustc's promoted MIR. C04.a: every atomic write of Sync::timestamp is reachable only after the "
    "`.await` of phase_mutex.write_owned() returned Ready in the same body, every load is after read_owned() returned Ready or "
    "sits in the `unsafe` unchecked getter whose callers all hold `&mut InputSession`; the returned guards derive from those "
    "acquisitions. C04.b: the guard argument of every CallerInformation::new derives (through captured variables) from "
    "acquire_active_computation_guard or from the enclosing caller's guard, or is None only under InputSession::refresh. "
    "C04.c: in commit and in the task spawned by Drop the session guard is released only after commit_internal().await completed; "
    "the (batch, guard) pair leaves the session only through take() in those two bodies. C04.d: a session writes only to its own "
    "batch. C04.e: the mutating session API takes &mut self (exclusivity by the borrow checker). C04.i: dirty propagation starts from "
    "an empty visited set (C01.p). C04.j: the timestamp a session stores is the epoch it runs in and Sync::new resumes from it, so a "
    "session after a re-open never re-uses an epoch that stored verifications carry (C07.d).")

NOT_DECIDED = [
    "atomicity as observed through every interleaving of readers and the writer (needs a schedule exploration)",
    "progress of every mix of sessions and readers",
]
ASSUMPTIONS = ["tokio's RwLock gives mutual exclusion between write_owned and read_owned holders"]

ATOMIC_WRITE = re.compile(r"core::sync::atomic::Atomic::<u64>::(fetch_add|fetch_sub|store|swap|compare_exchange|compare_exchange_weak|fetch_update|fetch_max|fetch_min)$")
ATOMIC_READ = re.compile(r"core::sync::atomic::Atomic::<u64>::load$")


def phase_await(body, which):
    """Awaits of phase_mutex.<which>() in body."""
    out = []
    for aw in df.awaits(body):
        for cs in aw.creator_calls():
            fn = cs.node["fn"]
            if fn.get("path", "").endswith("RwLock::<T>::%s" % which) and "phase_mutex" in df.access_path(body, cs.node["args"][0]):
                out.append(aw)
    return out


def root_name(body):
    return body.name.split("::{closure")[0]


def c04a(ctx):
    prog = ctx.prog
    o = ctx.ob("C04.a", "enumeration", "K3", "all accesses of the epoch atomic are enumerated")
    writes, reads = [], []
    for b in prog.all_bodies(["qbice"]):
        for s in b.calls(lambda f, t: bool(ATOMIC_WRITE.search(f["path"]) or ATOMIC_READ.search(f["path"]))):
            ap = df.access_path(b, s.node["args"][0])
            if "timestamp" in ap and "sync" in ap:
                (writes if ATOMIC_WRITE.search(s.node["fn"]["path"]) else reads).append(s)
    ctx.floor(o, writes, 1, "writes of Sync::timestamp")
    ctx.floor(o, reads, 2, "loads of Sync::timestamp")
    for s in writes:
        b = ctx.touch(s.body)
        oo = ctx.ob("C04.a", "epoch-write-under-exclusive-lock/%s" % b.name, "K1", "the epoch changes only while the exclusive phase lock is held")
        oo.sites = 1
        aws = phase_await(b, "write_owned") if b.is_coroutine else []
        if not any(aw.completed_before(s) for aw in aws):
            ctx.fail(oo, s, "Sync::timestamp is modified (%s) before phase_mutex.write_owned().await has returned in %s: a reader holding or taking the "
                     "shared lock can observe the new epoch together with the old inputs" % (s.node["fn"]["path"].rsplit("::", 1)[-1], b.name))
    unchecked = []
    for s in reads:
        b = ctx.touch(s.body)
        oo = ctx.ob("C04.a", "epoch-read-under-lock/%s" % b.name, "K1", "the epoch is sampled only under the shared phase lock (or under the session's exclusive guard)")
        oo.sites = 1
        if b.rec.get("is_unsafe"):
            unchecked.append(b)
            continue
        aws = phase_await(b, "read_owned") if b.is_coroutine else []
        if not any(aw.completed_before(s) for aw in aws):
            ctx.fail(oo, s, "Sync::timestamp is loaded in %s without phase_mutex.read_owned().await having returned first" % b.name)
    o = ctx.ob("C04.a", "unchecked-epoch-getter-callers", "K3", "the unchecked epoch getter is used only by &mut InputSession methods")
    for ub in unchecked:
        callers = [s for s in prog.callers_of(re.escape(ub.path.split("::")[-1]) + "$") if s.node["fn"].get("key") == ub.key]
        ctx.floor(o, callers, 1, "callers of %s" % ub.name)
        for s in callers:
            if not root_name(s.body).startswith("InputSession::"):
                ctx.fail(o, s, "%s (no lock check) called from %s, which does not hold the session's exclusive guard" % (ub.name, s.body.name))
    # the guards handed out derive from the lock acquisitions
    for fn, which, adt in (("Engine::acquire_active_input_session_guard", "write_owned", "ActiveInputSessionGuard"),
                           ("Engine::acquire_active_computation_guard", "read_owned", "ActiveComputationGuard")):
        oo = ctx.ob("C04.a", "guard-derives-from-lock/%s" % adt, "K5", "the phase guard handed out wraps the lock guard just acquired")
        b = ctx.touch(prog.coroutine_of(fn))
        aggs = b.aggregates(r"database::sync::%s$" % adt)
        oo.sites = len(aggs)
        if len(aggs) != 1:
            ctx.fail(oo, Site(b, 0, 0), "expected exactly one %s construction in %s" % (adt, fn))
            continue
        os_ = df.origins_of_operand(b, aggs[0].node["rv"]["ops"][0])
        if not any(x.kind == "call" and (x.callee() or "").endswith("RwLock::<T>::%s" % which) for x in os_):
            ctx.fail(oo, aggs[0], "%s is not built from the result of phase_mutex.%s()" % (adt, which))
        # and everything returned sits behind the acquisition
        aws = phase_await(b, which)
        if not aws:
            ctx.fail(oo, Site(b, 0, 0), "%s does not await phase_mutex.%s()" % (fn, which))


def c04b(ctx):
    prog = ctx.prog
    o = ctx.ob("C04.b", "caller-information-guard", "K5", "every CallerInformation carries the phase guard of the computation it belongs to")
    sites = prog.callers_of(r"caller::CallerInformation::new$")
    if not ctx.floor(o, sites, 7, "CallerInformation::new call sites"):
        return
    for s in sites:
        b = ctx.touch(s.body)
        arg = s.node["args"][2]
        os_ = df.origins_deep(prog, b, arg)
        calls = [x.callee() or "" for x in os_ if x.kind == "call"]
        ok = False
        why = None
        if any(c.endswith("::acquire_active_computation_guard") for c in calls):
            ok = True
        elif any(c.endswith("CallerInformation::clone_active_computation_guard") or c.endswith("CallerInformation::active_computation_guard") for c in calls):
            ok = True
        elif any(x.kind == "param" for x in os_) and not any(x.kind == "agg" and x.site.node["rv"].get("vname") == "None" for x in os_):
            # a guard handed in as a parameter (check_callee): its callers are checked at their own sites
            ok = True
        elif any(x.kind == "agg" and x.site.node["rv"].get("vname") == "None" for x in os_) or any(x.kind == "const" for x in os_):
            if root_name(b).startswith("InputSession::refresh"):
                ok = True
            else:
                why = "passes no phase guard (None) outside InputSession::refresh"
        if not ok:
            ctx.fail(o, s, "CallerInformation::new in %s %s: a spawned repair/projection task would not keep the shared phase lock alive" % (
                b.name, why or "takes its guard from an unrecognised source (%s)" % sorted(set(short(c) for c in calls))))
    # the guard parameter of check_callee is fed from the caller's guard at every call site
    o = ctx.ob("C04.b", "check_callee-guard-argument", "K5", "check_callee receives the enclosing caller's phase guard")
    cs = prog.callers_of(r"Snapshot<C, Q>>::check_callee$")
    if ctx.floor(o, cs, 2, "check_callee call sites"):
        for s in cs:
            b = ctx.touch(s.body)
            os_ = df.origins_deep(prog, b, s.node["args"][6])
            calls = [x.callee() or "" for x in os_ if x.kind == "call"]
            if not (any(c.endswith("active_computation_guard") for c in calls) or any(x.kind == "param" for x in os_)):
                ctx.fail(o, s, "check_callee is not given the caller's phase guard in %s" % b.name)


def c04c(ctx):
    prog = ctx.prog
    bodies = [("commit", "InputSession::commit::{closure#0}::{closure#0}"), ("drop", "<InputSession as Drop>::drop::{closure#0}")]
    for tag, nm in bodies:
        o = ctx.ob("C04.c", "guard-released-after-commit/%s" % tag, "K1", "the session's exclusive guard is released only after commit_internal().await completed")
        b = ctx.touch(prog.body(nm))
        ci = b.calls_to(r"InputSession::<C>::commit_internal$")
        o.sites = len(ci)
        if len(ci) != 1:
            ctx.fail(o, Site(b, 0, 0), "expected exactly one commit_internal call in %s" % nm)
            continue
        aw = df.await_of_call(b, ci[0])
        if aw is None:
            ctx.fail(o, ci[0], "commit_internal is not awaited in %s" % nm)
            continue
        n = 0
        for bi in sorted(b.live_blocks):
            blk = b.blocks[bi]
            if blk["cleanup"]:
                continue
            t = blk["term"]
            site = Site(b, bi, len(blk["stmts"]))
            rel = None
            if t["k"] == "drop":
                if any(h[0][0] == t["pl"][0] for h in b.held(bi, "ActiveInputSessionGuard")):
                    rel = "_%d" % t["pl"][0]
            elif t["k"] == "call" and t["fn"].get("path") == "core::mem::drop":
                l = op_local(t["args"][0])
                if l is not None and any("ActiveInputSessionGuard" in x and "@" not in x for x in b.locals[l]["own"]):
                    rel = "_%d" % l
            if rel:
                n += 1
                if not aw.completed_before(site):
                    ctx.fail(o, site, "the exclusive session guard (%s) can be released before commit_internal().await completed in %s: readers would "
                             "start on a half-propagated session" % (rel, nm))
        o.sites += n
        if n == 0:
            ctx.fail(o, Site(b, 0, 0), "no release site of the session guard found in %s (rule would be vacuous)" % nm)
        # the batch committed is the one taken out of the session
        tk = [s for s in b.calls_to(r"core::option::Option::<T>::take$")
              if op_local(s.node["args"][0]) is not None and "ActiveInputSessionGuard" in b.locals[op_local(s.node["args"][0])]["ty"]]
        if not tk:
            ctx.fail(o, Site(b, 0, 0), "%s does not take() the (batch, guard) pair out of the session" % nm)
    o = ctx.ob("C04.c", "transaction-leaves-only-by-take", "K3", "the (batch, guard) pair leaves InputSession::transaction only in commit and in Drop's task")
    allowed = {"InputSession::commit", "<InputSession as Drop>::drop"}
    n = 0
    for b in prog.all_bodies(["qbice"]):
        for s in b.calls_to(r"core::option::Option::<T>::(take|replace|insert|get_or_insert_with|unwrap)$|core::mem::(take|replace|swap)$"):
            l = op_local(s.node["args"][0])
            if l is None:
                continue
            ty = b.locals[l]["ty"]
            if "ActiveInputSessionGuard" in ty and "Option<" in ty:
                n += 1
                if root_name(b) not in allowed:
                    ctx.fail(o, s, "the session's (batch, guard) slot is emptied/replaced in %s" % b.name)
    o.sites = n
    if n < 2:
        ctx.fail(o, "(program)", "expected at least 2 take() sites of the session transaction, found %d" % n)


def c04d(ctx):
    prog = ctx.prog
    o = ctx.ob("C04.d", "session-writes-one-batch", "K3", "an input session creates no write batch of its own: every write goes to the batch made with its epoch")
    n = 0
    for b in prog.all_bodies(["qbice"]):
        rn = root_name(b)
        if rn.startswith("InputSession::") or rn.startswith("<InputSession as"):
            n += 1
            ctx.touch(b)
            for s in b.calls_to(r"::new_write_transaction$|WriteManager::new_write_batch$"):
                ctx.fail(o, s, "a second write batch is created inside %s: part of the session would be committed separately" % b.name)
    o.sites = n
    if n < 10:
        ctx.fail(o, "(program)", "expected >= 10 InputSession bodies, found %d" % n)
    # set_computed_input writes only through the batch parameter
    o = ctx.ob("C04.d", "set_computed_input-uses-session-batch", "K5", "set_computed_input writes every column through the batch it was given")
    b = ctx.touch(prog.coroutine_of("Snapshot::set_computed_input"))
    from .C05 import MAP_WRITE
    ws = b.calls(lambda f, t: bool(MAP_WRITE.search(f["path"])))
    ctx.floor(o, ws, 8, "column writes in set_computed_input")
    for s in ws:
        os_ = df.origins_of_operand(b, s.node["args"][-1])
        if not all(x.kind == "param" for x in os_):
            ctx.fail(o, s, "a column write in set_computed_input does not use the caller's batch (origins %s)" % sorted(map(repr, os_)))


def c04e(ctx):
    prog = ctx.prog
    o = ctx.ob("C04.e", "session-api-exclusive", "K10", "set_input/update/refresh take &mut self; commit consumes the session")
    want = {"set_input": "&mut ", "update": "&mut ", "refresh": "&mut ", "commit": "qbice::engine::computation_graph::input_session::InputSession<"}
    found = 0
    for key, sig in prog.sigs.items():
        m = re.search(r"input_session::\{impl#\d+\}::(set_input|update|refresh|commit)$", key)
        if not m:
            continue
        found += 1
        first = sig["inputs"][0]["ty"] if sig["inputs"] else ""
        if not first.startswith(want[m.group(1)]):
            ctx.fail(o, "(signature)", "InputSession::%s takes `%s`: overlapping mutation of one session would type-check" % (m.group(1), short(first)))
    o.sites = found
    if found != 4:
        ctx.fail(o, "(program)", "expected the 4 session methods set_input/update/refresh/commit, found %d" % found)


def c04g(ctx):
    """The phase lock is fair (a queued writer blocks later readers).  A computation therefore takes the read half exactly
    once, at its entry point, and hands clones of that guard to everything it spawns; a nested acquisition under a held
    guard dead-locks as soon as a writer queues up in between (reader waits for its task, task waits behind the writer,
    writer waits for the reader)."""
    prog = ctx.prog
    o = ctx.ob("C04.g", "phase-lock/acquired-at-the-entry-points-only", "K3",
               "acquire_active_computation_guard is called by the public read entry points (Engine::tracked, Engine::snapshot_graph_from) only, acquire_active_input_session_guard by Engine::input_session only")
    n = 0
    for pat, allowed in ((r"acquire_active_computation_guard$", ("Engine::tracked", "Engine::snapshot_graph_from")), (r"acquire_active_input_session_guard$", ("Engine::input_session",))):
        sites = prog.callers_of(pat)
        n += len(sites)
        if not sites:
            ctx.fail(o, "(program)", "anchor missing: no caller of %s" % pat.rstrip("$"))
        for s_ in sites:
            ctx.touch(s_.body)
            if not any(s_.body.name == a or s_.body.name.startswith(a + "::") for a in allowed):
                ctx.fail(o, s_, "%s acquires the phase lock again (only %s may): under a guard that is already held this dead-locks with a queued writer; spawned work must "
                         "use a clone of the caller's guard" % (s_.body.name, " / ".join(allowed)))
    o.sites = n


def c04f(ctx):
    """An input session that is dropped without commit() commits itself in Drop — unless it believes it already has.  The
    flag has to start false and be raised by commit() only, else the dropped session's batch is dropped active (abort) and
    its writes are lost while the epoch was already advanced."""
    prog = ctx.prog
    o = ctx.ob("C04.f", "InputSession/starts-uncommitted", "K5", "InputSession is created with comitted = false and only commit() raises the flag")
    mk = [a for b in prog.all_bodies(["qbice"]) for a in b.aggregates(r"input_session::InputSession$")]
    o.sites = len(mk)
    if not mk:
        ctx.fail(o, "(program)", "anchor missing: the construction of InputSession")
    for a in mk:
        rv = a.node["rv"]
        by = dict(zip(rv.get("fields") or [], rv["ops"]))
        c = (by.get("comitted") or {}).get("c") or {}
        if c.get("s") != "false":
            ctx.fail(o, a, "a new InputSession is created with comitted = %s: its Drop will not commit it" % (c.get("s") or "a computed value"))
    for b in prog.all_bodies(["qbice"]):
        for a in b.assigns(lambda st: any(e.startswith("f:comitted") for e in st["lhs"][1])):
            if "InputSession::commit" not in b.name:
                ctx.fail(o, a, "%s writes InputSession.comitted (only commit() may)" % b.name)


def c04h(ctx):
    """A block driven through `.guarded()` is finished by a detached task when its owner is dropped (Guard::drop spawns it):
    it outlives the query future and with it every phase guard that future held.  A reader-phase block that goes on writing
    node state after that must therefore OWN a clone of the ActiveComputationGuard (the shared half of the phase lock) -
    a borrowed CallerInformation does not survive the drop.  Otherwise an input session can begin while the tail still
    runs: the tail then erases the session's dirty marks and stores an old value under the old epoch (D13)."""
    prog = ctx.prog
    o = ctx.ob("C04.h", "reader-phase/guarded-tail-owns-the-phase-guard", "K3+K5",
               "every guarded() block outside the input session owns an ActiveComputationGuard (a local of that type inside the block's coroutine)")
    sites = [s for s in prog.callers_of(r"engine::guard::GuardExt::guarded$") if "input_session" not in (s.body.file or "")]
    o.sites = len(sites)
    if len(sites) < 3:
        ctx.fail(o, "(program)", "expected >= 3 reader-phase guarded() blocks (execute_query, computing_lock_to_clean_query, done_backward_projection), found %d" % len(sites))
        return
    for s in sites:
        b = ctx.touch(s.body)
        child = None
        for x in df.origins_of_operand(b, s.node["args"][0]):
            if x.kind == "agg" and x.site.node["rv"].get("ak") == "coroutine":
                child = prog.bodies.get(x.site.node["rv"].get("def"))
        if child is None:
            ctx.fail(o, s, "%s: the future handed to guarded() is not an async block of this function - cannot see what it owns" % b.name)
            continue
        ctx.touch(child)
        owned = [l["ty"] for l in child.locals if "ActiveComputationGuard" in l["ty"] and not l["ty"].lstrip().startswith("&")]
        if not owned:
            ctx.fail(o, s, "%s: the guarded block owns no ActiveComputationGuard: when the reader's future is dropped the block is finished by a detached task that holds no "
                     "phase lock, so the next input session runs concurrently with it - the tail removes the session's dirty marks and publishes a value of the old epoch" % b.name)


def run(ctx):
    ctx.run_clause("C04.g", c04g)
    ctx.run_clause("C04.h", c04h)
    ctx.run_clause("C04.f", c04f)
    ctx.run_clause("C04.a", c04a)
    ctx.run_clause("C04.b", c04b)
    ctx.run_clause("C04.c", c04c)
    ctx.run_clause("C04.d", c04d)
    ctx.run_clause("C04.e", c04e)
    # "a session is atomic": its dirty propagation is part of the session and must start from an empty visited set - entries
    # left over from the reader phase make it skip nodes, and one engine then answers from two input snapshots (C01.p as C04.i)
    from . import C01
    ctx.alias = {"C01.p": "C04.i"}
    ctx.run_clause("C04.i", C01.c01p)
    ctx.alias = {}
    # "every reader is evaluated against one input snapshot" also after a re-open: the timestamp a session leaves in the store
    # is the epoch it really ran in, and Sync::new resumes from it - a stored epoch one behind makes the first session after a
    # restart re-use the number old verifications carry, and a reader then mixes the new input with derived values verified
    # against the old one (C07.d as C04.j)
    from . import C07
    ctx.alias = {"C07.d": "C04.j"}
    ctx.run_clause("C04.j", C07.c07d)
    ctx.alias = {}

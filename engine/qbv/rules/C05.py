"""C05 — cancellation or an executor panic never corrupts the engine.
Decides the structural clauses of DESIGN.md §5/C05 (linear write batch across real
suspension points, release-on-every-exit of the computing locks, panic containment order,
column writes only in run-to-completion contexts, the premise of run-to-completion)."""
import re

from .. import dataflow as df
from ..facts import Site, short, op_local

EXPLANATION = (
    "Static analysis over rustc's promoted MIR of every body of the workspace (no execution). "
    "C05.a: linear-resource rule for write batches: rustc's maybe-initialised analysis is sampled at every Yield of "
    "every coroutine that is not run-to-completion (RTC = only ever driven through GuardExt::guarded / tokio::spawn or "
    "awaited from an RTC coroutine; greatest fixpoint over the whole program) and whose awaited future may really return "
    "Pending (least fixpoint; external futures are assumed to suspend, trait-method futures are resolved by CHA over the "
    "workspace impls); no owned batch may be live there, and no owned batch may reach a Drop terminator on a normal path. "
    "C05.b: Drop impls of the computing-lock guards reach remove+notify; UndoRegisterCallee is defused only on the Hit and "
    "cyclic-error paths. C05.c: executor invoked only under catch_unwind; helper wait precedes publishing; the panic is "
    "resumed before any column write and while the computing lock guard is still owned. C05.d: every node/edge/value "
    "column write happens in an RTC body. C05.e: Guard::drop spawns the unfinished future; Guard::poll clears it only on Ready.")

NOT_DECIDED = [
    "that every later query returns the from-scratch value after an arbitrary cut (needs run-time values; see C01)",
    "absence of deadlock after cancellation under all poll orders",
]

ASSUMPTIONS = [
    "shipped StorageEngine impls (DbBacked, InMemory): trait-method futures are resolved by class-hierarchy analysis over the workspace",
    "a future handed to tokio::spawn runs to completion (runtime not shut down half-way)",
    "Arc-shared batches (InputSession::transaction) are not counted as owned by a holder of one clone",
]

BATCH_MARKS = ("StorageEngine::WriteTransaction", "write_behind::WriteBatch")


def held_batches(body, bb):
    out = []
    for m in BATCH_MARKS:
        out.extend(body.held(bb, m))
    return out


def awaited_name(aw):
    names = []
    for o in aw.origins:
        if o.kind == "call":
            p = o.callee() or "?"
            names.append(short(p).split("::")[-1] if p else "?")
        elif o.kind == "agg":
            names.append("async-block")
        else:
            names.append(o.kind)
    return "+".join(sorted(set(names))) or "?"


def c05a(ctx):
    prog, af = ctx.prog, ctx.af
    # ---- enumeration floors (rule must not be vacuous)
    o = ctx.ob("C05.a", "enumeration", "K3", "creation sites of write batches, guarded()/spawn sites are enumerated")
    creates = prog.callers_of(r"write_manager::WriteManager::new_write_batch$")
    creates = [s for s in creates if s.body.crate == "qbice"]
    ctx.floor(o, creates, 3, "WriteManager::new_write_batch call sites in qbice")
    newtx = [s for s in prog.callers_of(r"Engine<C>>::new_write_transaction$")]
    ctx.floor(o, newtx, 4, "Engine::new_write_transaction call sites")
    guarded = prog.callers_of(r"engine::guard::GuardExt::guarded$")
    ctx.floor(o, guarded, 7, "GuardExt::guarded call sites")
    spawns = [s for s in prog.callers_of(r"^tokio::task::spawn::spawn$") if s.body.crate == "qbice"]
    ctx.floor(o, spawns, 2, "tokio::spawn call sites in qbice")
    js = prog.callers_of(r"tokio::task::join_set::JoinSet::<T>::spawn$")
    ctx.floor(o, js, 4, "JoinSet::spawn call sites")
    rtc_n = sum(1 for b in af.coros if b.crate == "qbice" and af.rtc[b.key])
    if rtc_n < 10:
        ctx.fail(o, "(program)", "only %d run-to-completion coroutines found in qbice (expected >= 10): the RTC analysis lost its anchors" % rtc_n)
    ctx.notes.append("RTC coroutines in qbice: %d of %d; may-suspend: %d" % (
        rtc_n, sum(1 for b in af.coros if b.crate == "qbice"), sum(1 for b in af.coros if b.crate == "qbice" and af.suspends[b.key])))

    # ---- rule 1: no owned batch live across a really-suspending await outside RTC
    o1 = ctx.ob("C05.a", "rule1/summary", "K6", "no owned write batch is live at a may-suspend Yield of a non-RTC coroutine")
    examined = 0
    hits = {}
    for b in af.coros:
        if b.crate not in ("qbice", "qbice_storage"):
            continue
        if af.rtc[b.key]:
            continue
        ctx.touch(b)
        for aw in df.awaits(b):
            sus, why = af.await_may_suspend(b, aw)
            for y in aw.yields:
                examined += 1
                if not sus:
                    continue
                held = held_batches(b, y.bb)
                if held:
                    key = "rule1/%s/await:%s" % (b.name, awaited_name(aw))
                    hits.setdefault(key, []).append((y, held, why, b))
    o1.sites = examined
    ctx.call_sites += examined
    if examined < 150:
        ctx.fail(o1, "(program)", "only %d Yield points examined (expected >= 150)" % examined)
    for key, lst in sorted(hits.items()):
        y, held, why, b = lst[0]
        oo = ctx.ob("C05.a", key, "K6", "no owned write batch is live at a may-suspend Yield of a non-RTC coroutine")
        oo.sites = len(lst)
        places = ", ".join("_%d" % p[0][0] for p in held)
        ctx.fail(oo, y, "write batch (%s) is live across `.await` of %s in %s, which is not run-to-completion (%s); dropping the future here "
                 "drops an active batch: the epoch is never submitted and the commit thread stalls" % (
                     places, key.split("await:")[1], b.name, af.rtc_why.get(b.key, "?")),
                 detail="future may suspend because: %s" % "; ".join(why[:3]))

    # ---- rule 1b: the exclusive session guard is never owned across a suspension point of a droppable coroutine
    # (dropping the future there would release the phase lock while the session is only half propagated)
    o1b = ctx.ob("C05.a", "rule1b/summary", "K6", "the exclusive input-session guard is not owned (by value) at a may-suspend Yield of a non-RTC coroutine")
    n1b = 0
    for b in af.coros:
        if b.crate != "qbice" or af.rtc[b.key]:
            continue
        for aw in df.awaits(b):
            sus, why = af.await_may_suspend(b, aw)
            if not sus:
                continue
            for y in aw.yields:
                n1b += 1
                held = b.held(y.bb, "ActiveInputSessionGuard")
                if held:
                    oo = ctx.ob("C05.a", "rule1b/%s/await:%s" % (b.name, awaited_name(aw)), "K6", o1b.desc)
                    oo.sites = 1
                    ctx.fail(oo, y, "the exclusive session guard (_%d) is owned by %s across `.await` of %s, and that future can be dropped (%s): cancelling it releases the phase lock "
                             "while dirty propagation is still running — readers start on a half-propagated session and verify nodes with stale values" % (
                                 held[0][0][0], b.name, awaited_name(aw), af.rtc_why.get(b.key, "?")))
    o1b.sites = n1b
    # ---- rule 2: no owned batch reaches a Drop terminator / mem::drop on a normal path (engine crate)
    o2 = ctx.ob("C05.a", "rule2/summary", "K6", "an engine-side write batch is consumed only by submit/return/move, never dropped")
    n = 0
    for b in prog.all_bodies(["qbice"]):
        for bi in sorted(b.live_blocks):
            blk = b.blocks[bi]
            if blk["cleanup"]:
                continue
            t = blk["term"]
            if t["k"] == "drop":
                n += 1
                held = [h for h in held_batches(b, bi) if h[0][0] == t["pl"][0]]
                if held:
                    oo = ctx.ob("C05.a", "rule2/%s/drop:_%d" % (b.name, t["pl"][0]), "K6", o2.desc)
                    oo.sites = 1
                    ctx.fail(oo, Site(b, bi, len(blk["stmts"])), "an owned write batch may still be initialised when `%s` is dropped in %s (normal path): "
                             "a batch must be submitted exactly once, never dropped" % ("_%d" % t["pl"][0], b.name))
            elif t["k"] == "call" and t["fn"].get("path") in ("core::mem::drop", "core::mem::forget"):
                a = t["args"][0]
                l = op_local(a)
                if l is not None and any(m in x for m in BATCH_MARKS for x in b.locals[l]["own"] if not x.endswith("@arc")):
                    oo = ctx.ob("C05.a", "rule2/%s/%s" % (b.name, t["fn"]["path"].split("::")[-1]), "K6", o2.desc)
                    oo.sites = 1
                    ctx.fail(oo, Site(b, bi, len(blk["stmts"])), "write batch passed to %s in %s" % (t["fn"]["path"], b.name))
    o2.sites = n
    ctx.call_sites += n
    if n < 500:
        ctx.fail(o2, "(program)", "only %d Drop terminators examined in qbice (expected >= 500)" % n)


def c05b(ctx):
    prog = ctx.prog
    for guard, table in (("ComputingLockGuard", "computing_lock"), ("BackwardProjectionLockGuard", "backward_projection_lock")):
        o = ctx.ob("C05.b", "%s/drop-releases" % guard, "K2", "Drop of the lock guard removes the table entry and wakes the waiters unless already done")
        adt = [a for p, a in prog.adts.items() if p.endswith("computing::" + guard)]
        if len(adt) != 1 or not adt[0].get("drop"):
            ctx.fail(o, "(program)", "%s has no Drop impl: a cancelled computation would keep its slot forever" % guard)
            continue
        d = prog.bodies.get(adt[0]["drop"])
        if d is None:
            ctx.fail(o, "(program)", "Drop body of %s not found" % guard)
            continue
        ctx.touch(d)
        dones = d.calls_to(r"computing::%s::<C>::done$" % guard)
        o.sites += len(dones)
        if not dones or d.must_pass([0], [s.bb for s in dones]):
            ctx.fail(o, Site(d, 0, 0), "Drop for %s does not call done() on every path" % guard)
        done = prog.body("%s::done" % guard)
        ctx.touch(done)
        rem = [s for s in done.calls_to(r"scc::hash_map::HashMap::<K, V, H>::remove_sync$") if table in df.access_path(done, s.node["args"][0])]
        notif = done.calls_to(r"tokio::sync::notify::Notify::notify_waiters$")
        o.sites += len(rem) + len(notif)
        if not rem:
            ctx.fail(o, Site(done, 0, 0), "%s::done does not remove the entry from Computing::%s" % (guard, table))
        if not notif:
            ctx.fail(o, Site(done, 0, 0), "%s::done does not notify the waiters" % guard)
        # remove ≺ notify, and both on every path that is not the `defused` early return
        for nsite in notif:
            if not any(done.site_dominates(r, nsite) for r in rem):
                ctx.fail(o, nsite, "notify_waiters is not preceded by remove_sync in %s::done: a woken waiter could still find the entry" % guard)
        # the only path to return that avoids remove+notify is the branch on self.defused
        sw = [sb for sb in df.switches(done) if "defused" in df.access_path(done, done.blocks[sb]["term"]["op"])]
        if len(sw) != 1:
            ctx.fail(o, Site(done, 0, 0), "%s::done: expected exactly one test of `defused`" % guard)
        else:
            tt, ft = df.bool_edges(done, sw[0])
            bad = done.must_pass([ft], [s.bb for s in notif])
            if bad:
                ctx.fail(o, Site(done, bad[0], 0), "%s::done can return without notify_waiters on the not-defused path" % guard)
            # defused = true is set before removing (so a re-entrant drop is harmless)
    # guards are what the lock functions return
    o = ctx.ob("C05.b", "UndoRegisterCallee/drop-aborts", "K4", "dropping the undo token un-registers the callee unless defused")
    d = prog.body("<UndoRegisterCallee as Drop>::drop")
    ctx.touch(d)
    ab = d.calls_to(r"QueryComputing::abort_callee$")
    o.sites += len(ab)
    if len(ab) != 1:
        ctx.fail(o, Site(d, 0, 0), "Drop for UndoRegisterCallee must call abort_callee exactly once")
    else:
        sw = [sb for sb in df.switches(d) if "defused" in df.access_path(d, d.blocks[sb]["term"]["op"])]
        if len(sw) != 1:
            ctx.fail(o, Site(d, 0, 0), "Drop for UndoRegisterCallee: expected one test of `defused`")
        else:
            tt, ft = df.bool_edges(d, sw[0])
            if not d.edge_dominates((sw[0], ft), ab[0].bb) or d.must_pass([ft], [ab[0].bb]):
                ctx.fail(o, ab[0], "abort_callee must run exactly on the not-defused path")
    oo = ctx.ob("C05.b", "UndoRegisterCallee/defuse-disarms", "K5", "UndoRegisterCallee::defuse sets `defused` to true and nothing else")
    dfz = ctx.touch(prog.body("UndoRegisterCallee::defuse"))
    st = dfz.assigns(lambda st_: any(e.startswith("f:defused") for e in st_["lhs"][1]))
    oo.sites = len(st)
    if len(st) != 1 or (st[0].node["rv"].get("op") or {}).get("c", {}).get("s") != "true":
        ctx.fail(oo, Site(dfz, 0, 0), "UndoRegisterCallee::defuse does not set `defused = true`: a completed call would still un-register its callee when the token is dropped")
    for nb in [x for x in prog.bodies.values() if x.name in ("UndoRegisterCallee::new",)]:
        ctx.touch(nb)
        for a in nb.aggregates(r"register_callee::UndoRegisterCallee$"):
            by = dict(zip(a.node["rv"].get("fields") or [], a.node["rv"]["ops"]))
            oo.sites += 1
            if ((by.get("defused") or {}).get("c") or {}).get("s") != "false":
                ctx.fail(oo, a, "UndoRegisterCallee::new creates the token already defused: a cancelled call never un-registers its callee (phantom dependency, phantom wait-for edge)")
    o = ctx.ob("C05.b", "UndoRegisterCallee/defuse-sites", "K3+K4", "the undo token is defused only after a Hit or when reporting a cycle")
    sites = prog.callers_of(r"register_callee::UndoRegisterCallee::defuse$")
    ctx.floor(o, sites, 2, "defuse call sites")
    q = prog.coroutine_of("Engine::query_for")
    ctx.touch(q)
    for s in sites:
        if s.body is not q:
            ctx.fail(o, s, "UndoRegisterCallee::defuse called outside Engine::query_for (in %s)" % s.body.name)
            continue
        # must be dominated by a match edge on FastPathResult::Hit or on Err of exit_scc
        g_hit = df.guarded_by(q, s.bb, lambda c: c.kind == "disc" and c.adt and c.adt.endswith("fast_path::FastPathResult"))
        g_err = df.guarded_by(q, s.bb, lambda c: c.kind == "disc" and c.adt == "core::result::Result"
                              and any(x.kind == "call" and (x.callee() or "").endswith("::exit_scc") for x in df.origins_of_place(q, c.place)))
        ok = any(v == 1 for _, v, _, _ in g_hit) or any(v == 1 for _, v, _, _ in g_err)
        if not ok:
            ctx.fail(o, s, "defuse() is reachable without a FastPathResult::Hit or an Err from exit_scc: a cancelled call would leave a "
                     "phantom dependency edge / or lose the wait-for edge")


def c05c(ctx):
    prog = ctx.prog
    o = ctx.ob("C05.c", "execute-under-catch_unwind", "K3+K5", "Executor::execute is invoked only as the future handed to catch_unwind")
    sites = prog.callers_of(r"qbice::executor::Executor::execute$")
    if ctx.floor(o, sites, 1, "Executor::execute call sites"):
        for s in sites:
            ctx.touch(s.body)
            if not s.body.name.startswith("executor::invoke_executor"):
                ctx.fail(o, s, "Executor::execute called outside executor::invoke_executor (in %s): a panic would bypass catch_unwind" % s.body.name)
                continue
            ev = df.forward_uses(s.body, s)
            # the future must flow (through AssertUnwindSafe{..}) into FutureExt::catch_unwind and nowhere else
            args = [(e[1].node["fn"].get("path", "")) for e in ev if e[0] == "arg"]
            if not any(p.endswith("FutureExt::catch_unwind") for p in args):
                ctx.fail(o, s, "the executor future does not flow into FutureExt::catch_unwind")
            other = [p for p in args if not p.endswith("FutureExt::catch_unwind")]
            if other:
                ctx.fail(o, s, "the executor future is also handed to %s" % other[0])
    eq = [b for b in prog.find(r"^Snapshot::execute_query::\{closure#0\}(::\{closure#0\})?$")
          if b.calls_to(r"executor::Entry::<C>::invoke_executor$")]
    o = ctx.ob("C05.c", "execute_query/wait-then-publish", "K1", "helpers spawned by the executor are awaited before anything is published")
    if len(eq) != 1:
        ctx.fail(o, "(program)", "anchor missing: body of Snapshot::execute_query that calls invoke_executor (found %d)" % len(eq))
        return
    b = ctx.touch(eq[0])
    inv = b.calls_to(r"executor::Entry::<C>::invoke_executor$")
    waits = b.calls_to(r"waitgroup::WaitGroup::wait$")
    guarded = b.calls_to(r"engine::guard::GuardExt::guarded$")
    o.sites = len(inv) + len(waits) + len(guarded)
    aw_wait = [df.await_of_call(b, w) for w in waits]
    aw_inv = [df.await_of_call(b, w) for w in inv]
    if len(waits) != 1 or aw_wait[0] is None or len(guarded) != 1 or len(inv) != 1 or aw_inv[0] is None:
        ctx.fail(o, Site(b, 0, 0), "expected one awaited invoke_executor, one awaited WaitGroup::wait and one guarded publish block")
    else:
        if not aw_inv[0].completed_before(waits[0]):
            ctx.fail(o, waits[0], "WaitGroup::wait is not after the executor returned")
        if not aw_wait[0].completed_before(guarded[0]):
            ctx.fail(o, guarded[0], "the guarded publish block can start before `wait_group.wait().await` completed: a helper task could still "
                     "record dependencies while the node is being published")
        # the tracked engine (holding a worker) must be dropped before waiting, else wait() never returns
        drops = [s for s in b.calls_to(r"^core::mem::drop$") if "TrackedEngine" in b.locals[op_local(s.node["args"][0])]["ty"]]
        if not drops or not any(b.site_dominates(d, waits[0]) for d in drops):
            ctx.fail(o, waits[0], "tracked engine (which holds a WaitGroup worker) is not dropped before wait(): the wait could never finish")
    o = ctx.ob("C05.c", "execute_query/resume-before-publish", "K1+K6", "a caught executor panic is resumed before any column write and while the computing lock guard is owned")
    res = b.calls_to(r"executor::Panicked::resume_unwind$")
    o.sites = len(res)
    if len(res) != 1:
        ctx.fail(o, Site(b, 0, 0), "expected exactly one Panicked::resume_unwind in execute_query (found %d)" % len(res))
    else:
        r = res[0]
        if guarded and b.site_dominates(guarded[0], r):
            ctx.fail(o, r, "panic resumed after the publish block")
        if guarded and r.bb in b.reachable([guarded[0].bb]):
            ctx.fail(o, r, "resume_unwind reachable after the publish block started")
        held = b.held(r.bb, "ComputingLockGuard")
        if not held:
            ctx.fail(o, r, "the ComputingLockGuard is not owned by execute_query when the panic is resumed: unwinding would not release the computing slot")
        if aw_wait and aw_wait[0] is not None and not aw_wait[0].completed_before(r):
            ctx.fail(o, r, "panic resumed before the helper tasks were awaited")


COLUMN_FIELDS = ("last_verified", "forward_edge_order", "forward_edge_observation", "query_kind", "node_info",
                 "pending_backward_projection", "dirty_edge_set", "query_store", "backward_edges", "external_input_queries")
MAP_WRITE = re.compile(r"qbice_storage::(single_map::SingleMap|dynamic_map::DynamicMap|key_of_set_map::KeyOfSetMap)::(insert|remove)$")


def column_writes(prog):
    out = []
    for b in prog.all_bodies(["qbice"]):
        for s in b.calls(lambda f, t: bool(MAP_WRITE.search(f["path"]))):
            ap = df.access_path(b, s.node["args"][0])
            col = [f for f in ap if f in COLUMN_FIELDS]
            out.append((s, col[-1] if col else None, ap))
    return out


def c05d(ctx):
    prog, af = ctx.prog, ctx.af
    o = ctx.ob("C05.d", "column-writes-in-RTC", "K3", "every write to a node/edge/value column happens in a run-to-completion body")
    ws = column_writes(prog)
    ctx.floor(o, ws, 30, "column write call sites")
    # Sync::new writes the epoch column through a local before the Sync value exists (no node exists yet)
    unknown = [w for w in ws if w[1] is None and "timestamp_map" not in w[2] and w[0].body.name != "Sync::new::{closure#0}"]
    for s, col, ap in unknown:
        ctx.fail(o, s, "write to a storage map that is neither a known Database column nor Sync::timestamp_map (access path %s)" % ap)
    for s, col, ap in ws:
        if col is None:
            continue
        b = s.body
        ctx.touch(b)
        if not b.is_coroutine:
            ctx.fail(o, s, "column write in a non-async body %s" % b.name)
            continue
        if not af.rtc[b.key]:
            oo = ctx.ob("C05.d", "column-write/%s/%s" % (b.name, col), "K3", o.desc)
            oo.sites = 1
            ctx.fail(oo, s, "write to Database::%s in %s, which is not run-to-completion (%s): a dropped future could leave the node half-published" % (
                col, b.name, af.rtc_why.get(b.key, "?")))


def c05e(ctx):
    prog = ctx.prog
    o = ctx.ob("C05.e", "Guard/drop-spawns", "K4", "dropping an unfinished Guard hands the boxed future to tokio::spawn")
    d = prog.body("<Guard as Drop>::drop")
    ctx.touch(d)
    sp = d.calls_to(r"^tokio::task::spawn::spawn$")
    tk = d.calls_to(r"core::option::Option::<T>::take$")
    o.sites = len(sp) + len(tk)
    if len(sp) != 1 or len(tk) != 1:
        ctx.fail(o, Site(d, 0, 0), "Drop for Guard must take() the future and spawn it (found %d take, %d spawn)" % (len(tk), len(sp)))
    else:
        # spawn's argument derives from take(), and spawn is on the Some branch, and every Some path spawns
        if "future" not in df.access_path(d, sp[0].node["args"][0]) or not d.site_dominates(tk[0], sp[0]):
            ctx.fail(o, sp[0], "the spawned future is not the one taken out of the Guard")
        if d.must_pass([0], [tk[0].bb]):
            ctx.fail(o, tk[0], "Drop for Guard can return without taking the unfinished future (an early exit before take()): a guarded block dropped on that path is abandoned "
                     "half way (e.g. during the unwinding of a SIBLING's panic) instead of being run to completion")
        g = df.guarded_by(d, sp[0].bb, lambda c: c.kind == "disc" and c.adt == "core::option::Option")
        some_edges = [(sb, tb) for sb, v, tb, c in g if v == 1]
        if not some_edges:
            ctx.fail(o, sp[0], "tokio::spawn is not on the Some(future) branch")
        else:
            sb, tb = some_edges[0]
            if d.must_pass([tb], [sp[0].bb]):
                ctx.fail(o, sp[0], "a path through the Some(future) branch of Guard::drop returns without spawning the future")
    o = ctx.ob("C05.e", "Guard/poll-clears-on-ready-only", "K4", "Guard::poll forgets the inner future only when it returned Ready")
    p = prog.body("<Guard as Future>::poll")
    ctx.touch(p)
    clears = p.assigns(lambda st: st["rv"]["k"] == "agg" and st["rv"].get("adt") == "core::option::Option" and st["rv"]["vname"] == "None"
                       and any(e.startswith("f:future") for e in st["lhs"][1]))
    # the store may go through a temporary: accept `*x = None` where x derives from &mut self.future
    if not clears:
        clears = []
        for st_site in p.assigns(lambda st: st["rv"]["k"] == "use" and any(e == "*" for e in st["lhs"][1]) or any(e.startswith("f:future") for e in st["lhs"][1])):
            os_ = df.origins_of_operand(p, st_site.node["rv"]["op"]) if st_site.node["rv"]["k"] == "use" else set()
            if any(x.kind == "agg" and x.site.node["rv"].get("vname") == "None" for x in os_):
                clears.append(st_site)
    o.sites = len(clears)
    if len(clears) != 1:
        ctx.fail(o, Site(p, 0, 0), "expected exactly one `self.future = None` in Guard::poll (found %d)" % len(clears))
    else:
        g = df.guarded_by(p, clears[0].bb, lambda c: c.kind == "disc" and c.adt == "core::task::poll::Poll")
        if not any(v == 0 for _, v, _, _ in g):
            ctx.fail(o, clears[0], "`self.future = None` is not restricted to the Poll::Ready branch: a Pending guard would be forgotten and never spawned on drop")


def c05i(ctx):
    """Helper tasks of a query (repairing firewalls, verifying an unordered group, re-executing projections) are children of
    the query's future: dropping the query must abort them.  A `JoinSet` does that; `tokio::spawn` detaches - the orphans
    keep running outside the locks their parent released and keep the phase guard they cloned, so a blocked executor
    keeps input sessions out for good.  Detaching is reserved for the places that MUST finish after a drop: Guard::drop,
    Drop for InputSession, and the long-lived workers started by constructors."""
    prog = ctx.prog
    o = ctx.ob("C05.i", "helper-tasks/aborted-with-their-parent", "K3", "tokio::spawn is called only by Guard::drop, Drop for InputSession and constructors; query-side fan-out goes through JoinSet::spawn")
    ALLOWED = (r"^<Guard as Drop>::drop$", r"^<InputSession as Drop>::drop$", r"^DirtyWorker::new$")
    det = [s_ for s_ in prog.callers_of(r"tokio::task::spawn::spawn$") if s_.body.crate == "qbice"]
    js = [s_ for s_ in prog.callers_of(r"tokio::task::join_set::JoinSet::<T>::spawn$") if s_.body.crate == "qbice"]
    o.sites = len(det) + len(js)
    for s_ in det:
        ctx.touch(s_.body)
        if not any(re.search(a, s_.body.name) for a in ALLOWED):
            ctx.fail(o, s_, "%s detaches a task with tokio::spawn: it is not aborted when the query that started it is dropped - it goes on working outside the locks its parent "
                     "released and keeps its clone of the phase guard (no input session can begin while it is blocked)" % s_.body.name)
    if len(js) < 3:
        ctx.fail(o, "(program)", "expected >= 3 JoinSet::spawn fan-out sites on the query side (firewall repair, unordered group, backward projection), found %d" % len(js))


def run(ctx):
    ctx.run_clause("C05.e", c05e)
    ctx.run_clause("C05.a", c05a)
    ctx.run_clause("C05.b", c05b)
    ctx.run_clause("C05.c", c05c)
    ctx.run_clause("C05.d", c05d)
    ctx.run_clause("C05.i", c05i)
    # a panic of a callee's executor inside an unordered group surfaces as a JoinError of its chunk: the join loop must
    # treat it as `recompute`, never as clean (rule shared with C01.n)
    from . import C01
    ctx.alias = {"C01.n": "C05.f"}
    ctx.run_clause("C05.f", C01.c01n_join)
    ctx.alias = {}
    # un-registering a cancelled call must leave the recorded dependencies exactly as if the call had never been made
    # (same set, same order): C01.r's CalleeOrder rules, evaluated here as C05.g
    ctx.alias = {"C01.r": "C05.g"}
    ctx.run_clause("C05.g", C01.c01r)
    ctx.alias = {}
    # ... and a cancelled call may only undo what it did itself: the undo token belongs to the registration (C02.i as C05.h)
    from . import C02
    ctx.alias = {"C02.i": "C05.h"}
    ctx.run_clause("C05.h", C02.c02i)
    ctx.alias = {}

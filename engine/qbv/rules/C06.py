"""C06 — dependency cycles terminate with cycle defaults (the discipline that makes the
wait-for search complete; structural clauses)."""
import re

from .. import dataflow as df
from ..facts import Site, op_local

EXPLANATION = (
    "Static analysis over rustc's promoted MIR. C06.a in query_for the wait-for edge (register_callee) is recorded before the first cycle probe "
    "and every iteration of the retry loop probes (exit_scc) before it can wait on another computation. C06.b exit_scc probes for a cycle before "
    "awaiting the callee's completion, marks the caller's SCC flag before reporting CyclicError, and reports it only when the probe found the caller; "
    "the probe marks every computation on the found path and recurses over all registered callees. C06.c execute_query decides from the SCC flag "
    "before the executor's result is used: the cycle default replaces the value, the caught (cyclic) panic is resumed only outside an SCC; "
    "TrackedEngine::query is the only place that raises the cyclic payload and caches only Ok values. Termination/values on arbitrary graphs are NOT decided.")

NOT_DECIDED = [
    "termination and the evaluated values for all dependency graphs, entry orders and concurrent requests",
    "that queries outside a cycle are unaffected (semantic)",
]
ASSUMPTIONS = ["a computation's registered callees are visible to other probers as soon as register_calee returns (scc::HashMap insert is linearizable)"]


def c06a(ctx):
    prog = ctx.prog
    o = ctx.ob("C06.a", "query_for/register-before-probe", "K1", "the dependency is registered (wait-for edge visible) before the first cycle probe and before any wait")
    b = ctx.touch(prog.coroutine_of("Engine::query_for"))
    reg = b.calls_to(r"Engine<C>>::register_callee$")
    ex = b.calls_to(r"Engine<C>>::exit_scc$")
    gw = b.calls_to(r"::get_write_guard$")
    pq = b.calls_to(r"::process_query$")
    o.sites = len(reg) + len(ex) + len(gw) + len(pq)
    if len(reg) != 1 or len(ex) != 1 or len(gw) != 1 or len(pq) != 1:
        ctx.fail(o, Site(b, 0, 0), "anchors missing in query_for (register_callee=%d exit_scc=%d get_write_guard=%d process_query=%d)" % (len(reg), len(ex), len(gw), len(pq)))
        return
    if not b.site_dominates(reg[0], ex[0]):
        ctx.fail(o, ex[0], "exit_scc can run before register_callee: two queries waiting on each other would both miss the other's edge and deadlock")
    for w in gw + pq + b.calls_to(r"::fast_path$") + b.calls_to(r"::get_read_snapshot$"):
        if not b.site_dominates(reg[0], w):
            ctx.fail(o, w, "a wait (%s) is reachable before the dependency was registered" % w.node["fn"]["path"].rsplit("::", 1)[-1])
    o = ctx.ob("C06.a", "query_for/probe-every-iteration", "K2-loop", "every iteration of the retry loop probes for a cycle before it can wait on the computing table again")
    aw_ex = df.await_of_call(b, ex[0])
    o.sites = 3
    if aw_ex is None:
        ctx.fail(o, ex[0], "exit_scc is not awaited")
        return
    # starting right after a completed wait (process_query finished / get_write_guard returned None), the next wait must pass exit_scc
    for w in (pq[0], gw[0]):
        aw = df.await_of_call(b, w)
        if aw is None or aw.ready_edge is None:
            ctx.fail(o, w, "%s is not awaited" % w.node["fn"]["path"].rsplit("::", 1)[-1])
            continue
        r = b.reachable([aw.ready_edge[1]], removed_nodes=[ex[0].bb])
        if gw[0].bb in r and w is pq[0]:
            ctx.fail(o, gw[0], "after process_query the loop can reach get_write_guard again without exit_scc: a query that became part of a cycle while we worked would be waited on forever")
        if w is gw[0]:
            # the `continue` (None) path
            if gw[0].bb in r:
                ctx.fail(o, gw[0], "after get_write_guard returned None the loop can wait again without a cycle probe")
    # exit_scc's Err leaves query_for with Err and keeps the registered edge (defuse) — see C05.b
    errs = [a for a in b.aggregates(r"core::result::Result$", "Err") if a.node["lhs"][0] == 0]
    if not errs or not all(aw_ex.completed_before(e) for e in errs if e.bb not in b.reachable([pq[0].bb])):
        pass


def c06b(ctx):
    prog = ctx.prog
    o = ctx.ob("C06.b", "exit_scc/probe-before-wait", "K1", "exit_scc searches the callee's transitive callees for the caller before it awaits the callee's completion")
    b = ctx.touch(prog.coroutine_of("Engine::exit_scc"))
    cc = b.calls_to(r"Engine<C>>::check_cyclic$")
    ys = b.yields()
    mk = b.calls_to(r"QueryComputing::mark_scc$")
    errs = [a for a in b.aggregates(r"core::result::Result$", "Err")]
    o.sites = len(cc) + len(ys)
    if len(cc) != 1 or not ys:
        ctx.fail(o, Site(b, 0, 0), "anchors missing in exit_scc (check_cyclic=%d awaits=%d)" % (len(cc), len(ys)))
        return
    for y in ys:
        if not b.site_dominates(cc[0], y):
            ctx.fail(o, y, "exit_scc can wait for the callee before probing for a cycle: a cyclic wait would never be detected")
    # the listener awaited is the one created under the table lock together with the state that is probed
    gl = b.calls_to(r"Computing::<C>::try_get_notified_computing_lock$")
    if len(gl) != 1:
        ctx.fail(o, Site(b, 0, 0), "exit_scc must obtain (listener, state) from try_get_notified_computing_lock")
    else:
        for a in df.awaits(b):
            if not any(x.kind == "call" and x.site == gl[0] for x in a.origins):
                ctx.fail(o, a.poll, "exit_scc awaits something other than the listener created under the table lock")
        if not any(x.kind == "call" and x.site == gl[0] for x in df.origins_of_operand(b, cc[0].node["args"][1])):
            ctx.fail(o, cc[0], "the cycle probe does not start from the running state read together with the listener")
    o = ctx.ob("C06.b", "exit_scc/mark-then-error", "K1+K4", "CyclicError is reported only when the probe found the caller, after marking the caller's SCC flag")
    o.sites = len(mk) + len(errs)
    if len(errs) != 1:
        ctx.fail(o, Site(b, 0, 0), "anchor missing: the single Err(CyclicError) exit of exit_scc (found %d)" % len(errs))
        return
    e = errs[0]
    if len(mk) != 1 or not b.site_dominates(mk[0], e):
        ctx.fail(o, e, "Err(CyclicError) without mark_scc: the caller's executor result would be published instead of its cycle default")
    sw = cc[0].node["t"]
    c = df.switch_cond(b, sw) if b.blocks[sw]["term"]["k"] == "switch" else None
    ok = False
    for sb in df.switches(b):
        cnd = df.switch_cond(b, sb)
        os_ = df.origins_of_operand(b, b.blocks[sb]["term"]["op"])
        if any(x.kind == "call" and x.site == cc[0] for x in os_):
            tt, ft = df.bool_edges(b, sb)
            if cnd.negated:
                tt, ft = ft, tt
            if tt is not None and b.edge_dominates((sb, tt), e.bb) and e.bb in b.reachable([tt]) and not any(y.bb in b.reachable([tt]) for y in ys):
                ok = True
            # on the not-cyclic edge no error
            if ft is not None and e.bb in b.reachable([ft]):
                ok = False
    if not ok:
        ctx.fail(o, e, "Err(CyclicError) is not exactly the `check_cyclic == true` branch (or that branch can still wait)")
    o = ctx.ob("C06.b", "is_query_running_in_scc/err-iff-flag", "K4", "the final cyclic check reports an error exactly when the caller's SCC flag is set")
    b2 = ctx.touch(prog.body("Engine::is_query_running_in_scc"))
    fl = b2.calls_to(r"QueryComputing::is_in_scc$")
    er = b2.aggregates(r"core::result::Result$", "Err")
    o.sites = len(fl) + len(er)
    if len(fl) != 1 or len(er) != 1:
        ctx.fail(o, Site(b2, 0, 0), "anchors missing in is_query_running_in_scc")
    else:
        sw = fl[0].node["t"]
        if b2.blocks[sw]["term"]["k"] != "switch":
            ctx.fail(o, fl[0], "is_in_scc() result is not branched on")
        else:
            tt, ft = df.bool_edges(b2, sw)
            if df.switch_cond(b2, sw).negated:
                tt, ft = ft, tt
            if not (b2.edge_dominates((sw, tt), er[0].bb) and er[0].bb not in b2.reachable([ft])):
                ctx.fail(o, er[0], "Err(CyclicError) is not exactly the is_in_scc() branch")
    qf = prog.coroutine_of("Engine::query_for")
    fin = qf.calls_to(r"Engine<C>>::is_query_running_in_scc$")
    if len(fin) != 1 or qf.must_pass([0], [fin[0].bb], [rb for rb in qf.returns()]) and False:
        ctx.fail(o, Site(qf, 0, 0), "query_for must end with is_query_running_in_scc")
    else:
        # every Ok(value) return of query_for passes the final check
        oks = [a for a in qf.aggregates(r"core::result::Result$", "Ok") if a.node["lhs"][0] == 0]
        for a in oks:
            if not qf.site_dominates(fin[0], a):
                ctx.fail(o, a, "query_for can return Ok without the final SCC check: a value computed inside a cycle would leak to the caller")
    o = ctx.ob("C06.b", "check_cyclic_internal/visits-all-marks-found", "K3+K4", "the probe looks at every registered callee of every reachable computation and marks exactly the computations that reach the caller")
    p = ctx.touch(prog.body("Engine::check_cyclic_internal"))
    stores = p.calls_to(r"core::sync::atomic::AtomicBool::store$|Atomic::<bool>::store$")
    it = p.calls_to(r"scc::hash_map::HashMap::<K, V, H>::iter_sync$")
    cont = p.calls_to(r"scc::hash_map::HashMap::<K, V, H>::contains_sync$")
    getc = p.calls_to(r"Computing::<C>::try_get_query_computing$")
    cl = [c for c in prog.find(r"^Engine::check_cyclic_internal::\{closure#\d+\}$") if c.calls_to(r"alloc::vec::Vec::<T(, A)?>::push$")]
    # the closure handed to iter_sync (the other pushing closure feeds the visited map)
    if it:
        handed = {x.site.node["rv"].get("def") for x in df.origins_of_operand(p, it[0].node["args"][-1]) if x.kind == "agg"}
        cl = [c for c in cl if c.key in handed]
    o.sites = len(stores) + len(it) + len(cont) + len(getc) + len(cl)
    if len(stores) != 1 or len(it) != 1 or len(cont) != 1 or len(getc) != 1 or len(cl) != 1:
        ctx.fail(o, Site(p, 0, 0), "anchors missing in check_cyclic_internal (flag stores=%d iter_sync=%d contains_sync=%d try_get_query_computing=%d collecting closure=%d)" % (
            len(stores), len(it), len(cont), len(getc), len(cl)))
    else:
        c = ctx.touch(cl[0])
        # the collecting closure keeps iterating (returns true) on every path
        rets = df.origins_of_place(c, [0, []])
        if not rets or not all(x.kind == "const" and str(x.info) in ("const true", "true") for x in rets):
            ctx.fail(o, Site(c, 0, 0), "the callee collector can stop the iteration early (returns false): a cycle through a later callee would be missed")
        # the target test is on the caller's id (the parameter), for every visited node (inside the worklist loop)
        if not all(x.kind == "param" for x in df.origins_of_operand(p, cont[0].node["args"][1])):
            ctx.fail(o, cont[0], "the probe does not test for the caller's id")
        # marking is conditional on the node's `reaches` flag
        sb_guards = [sb for sb in df.switches(p) if p.bb_dominates(sb, stores[0].bb) and df.switch_cond(p, sb).kind in ("value", "call")]
        if not any(p.edge_dominates((sb, tb), stores[0].bb) for sb in sb_guards for v, tb in df.switch_edges(p, sb)):
            ctx.fail(o, stores[0], "computations are marked as in-SCC unconditionally")
        # the value returned is the root's flag (computed, not a constant)
        ro = df.origins_of_place(p, [0, []])
        if any(x.kind == "const" for x in ro):
            ctx.fail(o, Site(p, 0, 0), "check_cyclic_internal can answer with a constant (%s) instead of the computed reachability of the caller: a query outside a cycle that asks for a "
                     "cycle member would be told it closes a cycle (and evaluate to its own cycle default), or a real cycle would be missed" % sorted(str(x.info) for x in ro if x.kind == "const"))
    o = ctx.ob("C06.b", "check_cyclic_internal/each-computation-once-no-lock-while-descending", "K3+K4",
               "the wait-for graph may contain rings that do not go through the caller: the probe must visit each computation once and must not descend while holding a callee-table bucket")
    o.sites = 2
    # (i) no recursion from inside a closure handed to a locking iteration of a shared table
    rec = [s for s in prog.callers_of(r"::check_cyclic_internal$") if s.body.name.startswith("Engine::check_cyclic_internal")]
    for s in rec:
        under_lock = s.body.kind == "Closure" and any(
            x.kind == "agg" and x.site.node["rv"].get("def") == s.body.key
            for it_ in prog.bodies[s.body.parent].calls_to(r"scc::hash_(map|set)::Hash(Map|Set)::<[^>]*>::(iter_sync|read_sync|retain_sync|any_sync)$")
            for x in df.origins_of_operand(prog.bodies[s.body.parent], it_.node["args"][-1])) if s.body.parent in prog.bodies else False
        guarded = False
        b2 = s.body
        for sb in df.switches(b2):
            os_ = df.origins_of_operand(b2, b2.blocks[sb]["term"]["op"])
            if any(x.kind == "call" and re.search(r"::(insert|contains|insert_sync|contains_sync)$", x.callee() or "") for x in os_) and b2.bb_dominates(sb, s.bb):
                guarded = True
        if under_lock:
            ctx.fail(o, s, "the cycle probe recurses from inside the iter_sync closure, i.e. while holding a bucket lock of the table it walks: on a ring that does not contain the caller "
                     "it re-enters that table and blocks (or recurses) for ever — the request of a query outside an already closed cycle never completes")
        elif not guarded:
            ctx.fail(o, s, "the cycle probe recurses without a visited set: a ring that does not contain the caller is walked for ever")
    if not rec:
        # iterative form: new computations enter the worklist only through a visited-map entry
        ent = p.calls_to(r"HashMap::<K, V, S(, A)?>::entry$")
        oiw = p.calls_to(r"Entry::<'a, K, V(, A)?>::or_insert_with$|hash::map::Entry<'a, K, V(, A)?>::or_insert_with$|::or_insert_with$")
        pushes = [c for c in prog.find(r"^Engine::check_cyclic_internal::\{closure#\d+\}$") if any("nodes" in n for n, _ in c.rec["dbg"])]
        if len(ent) != 1 or len(oiw) != 1:
            ctx.fail(o, Site(p, 0, 0), "the worklist of check_cyclic_internal is not de-duplicated through a visited map (entry().or_insert_with())")
        else:
            if not any(x.kind == "call" and x.site == getc[0] for x in df.origins_of_operand(p, ent[0].node["args"][1], extra_transparent=[(r"alloc::sync::Arc::<T(, A)?>::as_ptr$", None)])) if getc else True:
                ctx.fail(o, ent[0], "the visited map is not keyed by the computation that is about to be added")
        # no lock-holding iteration contains the descent: the iter_sync closure only collects keys
        if len(cl) == 1 and cl[0].calls_to(r"try_get_query_computing$|::check_cyclic"):
            ctx.fail(o, Site(cl[0], 0, 0), "the iter_sync closure looks up / descends into callees while the bucket is locked")


def c06c(ctx):
    prog = ctx.prog
    eq = [b for b in prog.find(r"^Snapshot::execute_query::\{closure#0\}(::\{closure#0\})?$") if b.calls_to(r"executor::Entry::<C>::invoke_executor$")]
    o = ctx.ob("C06.c", "execute_query/scc-decides-value", "K4", "inside an SCC the cycle default replaces the executor's result and the cyclic panic is swallowed; outside, the panic is resumed")
    if len(eq) != 1:
        ctx.fail(o, "(program)", "anchor missing: execute_query body")
        return
    b = ctx.touch(eq[0])
    fl = b.calls_to(r"QueryComputing::is_in_scc$")
    scc = b.calls_to(r"executor::Entry::<C>::obtain_scc_value$")
    res = b.calls_to(r"executor::Panicked::resume_unwind$")
    o.sites = len(fl) + len(scc) + len(res)
    if len(fl) != 1 or len(scc) != 1 or len(res) != 1:
        ctx.fail(o, Site(b, 0, 0), "anchors missing (is_in_scc=%d obtain_scc_value=%d resume_unwind=%d)" % (len(fl), len(scc), len(res)))
        return
    sws = [sb for sb in df.switches(b) if any(x.kind == "call" and x.site == fl[0] for x in df.origins_of_operand(b, b.blocks[sb]["term"]["op"]))]
    if len(sws) != 1:
        ctx.fail(o, fl[0], "the SCC flag is not branched on exactly once")
        return
    sb = sws[0]
    tt, ft = df.bool_edges(b, sb)
    if df.switch_cond(b, sb).negated:
        tt, ft = ft, tt
    if not b.edge_dominates((sb, tt), scc[0].bb) or scc[0].bb in b.reachable([ft], removed_nodes=[sb]):
        ctx.fail(o, scc[0], "obtain_scc_value is not exactly the in-SCC branch")
    if not b.edge_dominates((sb, ft), res[0].bb) or res[0].bb in b.reachable([tt], removed_nodes=[sb]):
        ctx.fail(o, res[0], "the caught panic can be resumed although the query is in an SCC (the private cyclic payload would escape to the user), or is swallowed outside an SCC")
    # the flag is read after the executor and its helpers finished
    inv = b.calls_to(r"executor::Entry::<C>::invoke_executor$")
    wt = b.calls_to(r"waitgroup::WaitGroup::wait$")
    aw = df.await_of_call(b, wt[0]) if len(wt) == 1 else None
    if aw is None or not aw.completed_before(fl[0]):
        ctx.fail(o, fl[0], "the SCC flag is sampled before the executor's helper tasks finished: a late cyclic read would be missed")
    o = ctx.ob("C06.c", "TrackedEngine::query/only-raiser-caches-ok-only", "K3+K4", "only TrackedEngine::query raises the cyclic payload, and it caches a value only when the query succeeded")
    rs = prog.callers_of(r"executor::CyclicPanicPayload::unwind$")
    o.sites = len(rs)
    if not rs:
        ctx.fail(o, "(program)", "anchor missing: CyclicPanicPayload::unwind call")
    for s in rs:
        if not s.body.name.startswith("TrackedEngine::query::"):
            ctx.fail(o, s, "the cyclic payload is raised outside TrackedEngine::query (in %s)" % s.body.name)
    q = ctx.touch(prog.coroutine_of("TrackedEngine::query"))
    ins = q.calls_to(r"HashMap::<K, V, S(, A)?>::insert$")
    o.sites += len(ins)
    if len(ins) != 1:
        ctx.fail(o, Site(q, 0, 0), "expected one local-cache insert in TrackedEngine::query")
    else:
        if not df.dominated_by_variant(q, ins[0].bb, "core::result::Result", {0}):
            ctx.fail(o, ins[0], "TrackedEngine::query caches a value although the query may have failed with CyclicError")


def c06d(ctx):
    """A call that *completes* — with a value or with CyclicError — keeps the dependency it registered: the undo token
    exists for cancellation only.  If a completed call un-registers its callee, a ring member that unwound with the cycle
    default stores no edge to its ring successor; when the ring is later broken, dirty propagation cannot reach it and it
    keeps returning the stale cycle default."""
    prog = ctx.prog
    o = ctx.ob("C06.d", "query_for/completed-calls-keep-their-dependency", "K2",
               "every completion of Engine::query_for (Ok or Err) passes UndoRegisterCallee::defuse, unless no caller registered anything")
    q = ctx.touch(prog.coroutine_of("Engine::query_for"))
    reg = q.calls_to(r"Engine::<C>::register_callee$|Engine<C>>::register_callee$")
    defs = q.calls_to(r"register_callee::UndoRegisterCallee::defuse$")
    o.sites = len(reg) + len(defs)
    if len(reg) != 1 or not defs:
        ctx.fail(o, Site(q, 0, 0), "anchor missing: register_callee / defuse in query_for (%d / %d)" % (len(reg), len(defs)))
        return
    none_edges = [(sb, tb) for sb, tb, v, c in df.variant_edges(q, "Option")
                  if v == 0 and any(x.kind == "call" and x.site == reg[0] for x in df.origins_of_place(q, c.place))]
    r = q.reachable([reg[0].node["t"]], removed_nodes=[d.bb for d in defs], removed_edges=none_edges)
    for t in q.returns():
        if t in r:
            ctx.fail(o, Site(q, t, len(q.blocks[t]["stmts"])), "query_for can complete while its UndoRegisterCallee is still armed: the drop un-registers the callee, so a query "
                     "that returns CyclicError (or a value) on that path records no dependency on what it called")


def c06e(ctx):
    """A read that ends in CyclicError keeps its dependency (C06.d) but records no Observation: the publication stores the
    *order* of all registered callees and the *observations* of those that have one (`if let Some(obs)`).  The consumer of
    both — check_callee, when the ring is later broken and the edge is dirty — must therefore look the observation up
    fallibly.  One side tests for None, the other unwraps: a contradiction (Engler et al.), decided here on the consumer."""
    prog = ctx.prog
    o = ctx.ob("C06.e", "check_callee/observation-of-a-cyclic-edge-may-be-missing", "K5",
               "check_callee never unwraps the lookup of a forward edge's observation: an edge recorded on a cyclic read has none")
    b = ctx.touch(prog.coroutine_of("Snapshot::check_callee"))
    gets = [s_ for s_ in b.calls_to(r"HashMap::<K, V, S(, A)?>::get$")
            if any(x.kind == "param" for x in df.origins_of_operand(b, s_.node["args"][0]))]
    o.sites = len(gets)
    if not gets:
        ctx.fail(o, Site(b, 0, 0), "anchor missing: the lookup of the callee's observation in check_callee")
        return
    UNWRAP = re.compile(r"Option::<[^>]*>::(unwrap|expect|unwrap_unchecked)$")
    LOOK_THROUGH = re.compile(r"Option::<[^>]*>::(copied|cloned|as_ref|as_deref)$")
    for g in gets:
        work, seen = [g], set()
        while work:
            s_ = work.pop()
            if (s_.bb, s_.idx) in seen:
                continue
            seen.add((s_.bb, s_.idx))
            for kind, site, i in df.forward_uses(b, s_):
                if kind != "arg":
                    continue
                path = site.node["fn"]["path"]
                if UNWRAP.search(path):
                    ctx.fail(o, site, "check_callee unwraps the observation of a forward edge; an edge recorded by a read that returned CyclicError has no observation, so "
                             "breaking the ring at another member and asking this one panics instead of recomputing it")
                elif LOOK_THROUGH.search(path):
                    work.append(site)


def c06f(ctx):
    """The wait-for graph that the cycle probe walks IS the callee tables of the in-flight computations.  Every call made
    on behalf of an in-flight query — executing or merely repairing — has to be entered there before the caller may wait:
    an edge left out makes a cycle through it invisible, and the closing query waits for ever."""
    prog = ctx.prog
    o = ctx.ob("C06.f", "register_callee/every-query-caller-is-registered", "K2",
               "Engine::register_callee records the callee in the caller's table on every path that has a query caller (no early return before register_calee)")
    cl = [x for x in prog.find(r"^Engine::register_callee::\{closure#\d+\}$") if x.calls_to(r"QueryComputing::register_calee$")]
    o.sites = len(cl)
    if len(cl) != 1:
        ctx.fail(o, "(program)", "anchor missing: the closure of register_callee that records the callee (found %d)" % len(cl))
        return
    c = ctx.touch(cl[0])
    reg = c.calls_to(r"QueryComputing::register_calee$")
    bad = c.must_pass([0], [r_.bb for r_ in reg])
    if bad:
        ctx.fail(o, Site(c, bad[0], 0), "register_callee can return for a query caller without having recorded the callee: the wait-for edge of that call is missing from "
                 "the graph the cycle probe searches (a repairing caller waits on its callee like an executing one)")
    # register_calee itself: the fast `already registered` exit is taken exactly when the callee IS in the table
    rc = ctx.touch(prog.body("QueryComputing::register_calee"))
    ent = rc.calls_to(r"scc::hash_map::HashMap::<K, V, H>::entry_sync$")
    if len(ent) != 1:
        ctx.fail(o, Site(rc, 0, 0), "anchor missing: entry_sync in QueryComputing::register_calee")
    else:
        g = df.guarded_by(rc, ent[0].bb, lambda cd: cd.kind == "call" and cd.callee.endswith("contains_sync"))
        pol = {((v != 0) != cd.negated) for sb, v, tb, cd in g if v != "otherwise"} | {(not cd.negated) for sb, v, tb, cd in g if v == "otherwise"}
        if pol and pol != {False}:
            ctx.fail(o, ent[0], "QueryComputing::register_calee inserts the callee only when it is ALREADY in the table (the `contains` shortcut is inverted): nothing is ever registered")
    # and the token it hands back un-registers exactly that callee of exactly that computing record
    ag = c.aggregates(r"register_callee::UndoRegisterCallee$") or c.calls_to(r"UndoRegisterCallee::new$")
    if not ag:
        ctx.fail(o, Site(c, 0, 0), "register_callee does not hand back an UndoRegisterCallee")


def c06g(ctx):
    """The probe's `reaches the target` marks start false for every computation it discovers; only a direct read of the
    target and the backward propagation raise them.  A mark that starts true makes every reachable in-flight query part of
    a cycle that does not exist (wrong cycle defaults for acyclic programs under concurrency)."""
    prog = ctx.prog
    o = ctx.ob("C06.g", "check_cyclic_internal/marks-start-false", "K5", "every `reaches_target` mark the probe creates for a discovered computation is the constant false")
    bodies = [x for x in prog.bodies.values() if x.name.startswith("Engine::check_cyclic_internal")]
    n = 0
    for b in bodies:
        for s_ in b.calls_to(r"alloc::vec::Vec::<T(, A)?>::push$"):
            if "bool" not in str(b.local_ty(op_local(s_.node["args"][1]))) if op_local(s_.node["args"][1]) is not None else True:
                c_ = s_.node["args"][1].get("c")
                if c_ is None or c_.get("ty") != "bool":
                    continue
            n += 1
            ctx.touch(b)
            os_ = list(df.origins_of_operand(b, s_.node["args"][1]))
            if not os_ or any(not (x.kind == "const" and str(x.info) == "false") for x in os_):
                ctx.fail(o, s_, "the probe marks a newly discovered computation as reaching the target from the start: every in-flight computation reachable from the callee is "
                         "declared part of a cycle")
    o.sites = n
    if n < 1:
        ctx.fail(o, "(program)", "anchor missing: the push of a fresh mark in check_cyclic_internal")


def c06h(ctx):
    """A nested query made on behalf of an in-flight query can come back with CyclicError (the callee waits, directly or not,
    for this very query).  During REPAIR that answer must not be dropped: the callee is still in flight, what is stored for
    it is its previous value, and comparing the observation with that verifies the caller clean although it now lies on a
    ring.  The cycle is only resolved by running the caller's executor (which unwinds with the cycle default)."""
    prog = ctx.prog
    o = ctx.ob("C06.h", "check_callee/cyclic-answer-of-the-callee-repair-is-not-discarded", "K5",
               "check_callee inspects the Result of the callee's repair (Err(CyclicError) => Recompute) before it reads the callee's stored node info")
    b = ctx.touch(prog.coroutine_of("Snapshot::check_callee"))
    rep = b.calls_to(r"executor::Entry::<C>::repair_query_from_query_id$")
    if len(rep) != 1:
        ctx.fail(o, Site(b, 0, 0), "anchor missing: the recursive repair in check_callee (found %d)" % len(rep))
        return
    aw = df.await_of_call(b, rep[0])
    if aw is None or aw.ready_edge is None:
        ctx.fail(o, rep[0], "anchor missing: the await of the recursive repair")
        return
    o.sites = 1
    # the value taken out of Poll::Ready on the ready edge
    outs = []
    for bi in b.reachable([aw.ready_edge[1]]):
        for si, st in enumerate(b.blocks[bi]["stmts"]):
            if st["k"] == "assign" and st["rv"]["k"] == "use":
                pl = df.op_place(st["rv"]["op"])
                if pl is not None and pl[0] == op_local(aw.poll.node["dest"] and {"cp": aw.poll.node["dest"]}) and any(e.startswith("d:Ready") for e in pl[1]):
                    outs.append(Site(b, bi, si))
    if not outs:
        ctx.fail(o, rep[0], "anchor missing: the output of the awaited repair")
        return
    used = False
    for a in outs:
        l = a.node["lhs"][0]
        if any(k == "arg" for k, s_, i in df.forward_uses(b, a)):
            used = True
        for sb in df.switches(b):
            c = df.switch_cond(b, sb)
            pl = getattr(c, "place", None)
            if pl is not None and (pl[0] == l or any(x.kind == "unknown" for x in [])):
                used = True
            if c.kind == "disc" and pl is not None and any(getattr(x, "site", None) == a for x in df.origins_of_place(b, pl)):
                used = True
    if not used:
        ctx.fail(o, rep[0], "check_callee discards the result of the callee's repair: a CyclicError (the callee is in flight and waits for this query) goes unnoticed, the callee's "
                 "PREVIOUS node info is compared with the observation and the caller is verified clean on a ring that an input edit has just created")


def c06j(ctx):
    """D15.  A caller that is already marked as a member of a cycle gets CyclicError for every read.  What such a read would
    observe (for a non-closing member: the closer's published cycle default) is not what the member's result depends on:
    recording it as an ordinary observation lets a later repair compare fingerprints and verify the member clean after it
    left the cycle.  The fast path records an observation only for a caller that is not in an SCC."""
    prog = ctx.prog
    o = ctx.ob("C06.j", "fast_path/no-observation-for-a-caller-on-a-cycle", "K4", "Snapshot::fast_path records the callee's fingerprints only under QueryComputing::is_in_scc() == false")
    b = ctx.touch(prog.coroutine_of("Snapshot::fast_path"))
    obs = b.calls_to(r"observe_callee_fingerprint$")
    o.sites = len(obs)
    if len(obs) != 1:
        ctx.fail(o, Site(b, 0, 0), "anchor missing: observe_callee_fingerprint in Snapshot::fast_path (found %d)" % len(obs))
        return
    g = df.guarded_by(b, obs[0].bb, lambda c: c.kind == "call" and c.callee.endswith("QueryComputing::is_in_scc"))
    pol = {((v != 0) != c.negated) for sb, v, tb, c in g if v != "otherwise"} | {(not c.negated) for sb, v, tb, c in g if v == "otherwise"}
    if pol != {False}:
        ctx.fail(o, obs[0], "Snapshot::fast_path records the observation of a read under is_in_scc() == %s (must be exactly `false`): a ring member that reads the ring's closer after "
                 "the closer published its cycle default stores that default as an ordinary observation, is later verified clean against it and keeps its own cycle default after "
                 "the cycle is gone" % (sorted(pol) or "no test"))


def c06k(ctx):
    """K5.  should_recompute_query runs the repair phase with the node's QueryComputing; when it decides to re-execute,
    clear_dependencies() throws away what the repair phase recorded.  The SCC mark is part of that state: if a callee's
    repair found a cycle (D9), the mark is set, and an executor started with the mark already set gets CyclicError from its
    FIRST read, whatever it reads - the node is stored with its cycle default and that one edge only; the edge into the
    cycle and every other read are lost, so nothing dirties it when the cycle disappears.  Necessary in the shape of the
    code: clear_dependencies resets the mark as well (or the re-execution gets a fresh QueryComputing).  NOT sufficient: the
    naive reset alone lets the cyclic panic escape in another history (the demonstration of seeded change C06-3), see
    DESIGN 6b."""
    prog = ctx.prog
    o = ctx.ob("C06.k", "repair_query/scc-mark-of-the-repair-phase-does-not-reach-the-executor", "K3", "QueryComputing::clear_dependencies also resets is_in_scc (every per-attempt field)")
    b = ctx.touch(prog.body("QueryComputing::clear_dependencies"))
    touched = set()
    for s_ in b.calls():
        if s_.node["args"]:
            ap = [e for e in df.access_path(b, s_.node["args"][0]) if not e.startswith("<")]
            touched |= set(ap)
    o.sites = len(touched)
    rq = ctx.touch(prog.coroutine_of("Snapshot::repair_query"))
    if not rq.calls_to(r"QueryComputing::clear_dependencies$"):
        ctx.fail(o, Site(rq, 0, 0), "anchor missing: repair_query no longer calls clear_dependencies before re-executing")
        return
    if "is_in_scc" not in touched:
        ctx.fail(o, Site(b, 0, 0), "QueryComputing::clear_dependencies resets %s but not is_in_scc: a cycle found while the node was still being repaired leaves the mark set, the "
                 "re-execution unwinds at its first read and the node is stored with that single dependency - it keeps its cycle default after the cycle is gone" % sorted(touched - {"callee_info"}))


def c06l(ctx):
    """The wait-for graph of cycle detection is keyed by who waits for whom.  When a node repairs one of its callees it
    introduces itself (QueryCaller) under ITS OWN id, paired with its own QueryComputing: exit_scc asks "can the in-flight
    callee reach the caller?".  Introducing itself under the callee's id turns the question into "can the callee reach
    itself?" - true for every ring the callee lies on, also one that another request closed and that is still unwinding:
    an outside reader is then told it is cyclic.  In check_callee the id handed to QueryCaller is the SOURCE of the edge
    whose dirtiness it looks up, never its target."""
    prog = ctx.prog
    o = ctx.ob("C06.l", "check_callee/repairing-caller-introduces-itself-under-its-own-id", "K5", "the QueryCaller built by check_callee carries the id that is the source of is_edge_dirty(source, callee)")
    b = ctx.touch(prog.coroutine_of("Snapshot::check_callee"))
    qc = b.calls_to(r"QueryCaller::new_with_pedantic_repair$")
    ed = b.calls_to(r"is_edge_dirty$")
    o.sites = len(qc) + len(ed)
    if len(qc) != 1 or len(ed) != 1:
        ctx.fail(o, Site(b, 0, 0), "anchor missing: QueryCaller::new_with_pedantic_repair / is_edge_dirty in check_callee (%d / %d)" % (len(qc), len(ed)))
        return
    key = lambda op: {(x.kind, str(x.info)) for x in df.origins_of_operand(b, op)}
    me, src, tgt = key(qc[0].node["args"][0]), key(ed[0].node["args"][1]), key(ed[0].node["args"][2])
    if me != src or me == tgt:
        ctx.fail(o, qc[0], "check_callee introduces the repairing node to its callee under %s id: cycle detection then asks whether the callee can reach ITSELF, and an outside reader of a "
                 "ring that is still unwinding is answered CyclicError and stored with its cycle default" % ("the callee's" if me == tgt else "another"))
    # the executing node does the same with its own snapshot's id
    e = [x for x in prog.find(r"^Snapshot::execute_query::\{closure#0\}(::\{closure#0\})?$") if x.calls_to(r"QueryCaller::new_with_pedantic_repair$")]
    for x in e:
        ctx.touch(x)
        for s_ in x.calls_to(r"QueryCaller::new_with_pedantic_repair$"):
            o.sites += 1
            if not any(y.kind == "call" and (y.callee() or "").endswith("Snapshot::<C, Q>::query_id") for y in df.origins_of_operand(x, s_.node["args"][0])):
                ctx.fail(o, s_, "execute_query introduces the executing node under an id that is not its own snapshot's query_id()")


def run(ctx):
    # "when an input change removes a cycle the results follow": the member that closed the ring keeps its callee in the edge
    # ORDER but has no observation - it is dirtied through the backward edge wired from that order (C01.c's arm-symmetry /
    # role clauses on set_computed and friends), evaluated here as C06.i
    from . import C01
    ctx.alias = {"C01.c": "C06.i"}
    ctx.run_clause("C06.i", C01.c01c)
    ctx.run_clause("C06.i", C01.c01c_roles)
    ctx.alias = {}
    ctx.run_clause("C06.h", c06h)
    ctx.run_clause("C06.j", c06j)
    ctx.run_clause("C06.l", c06l)
    ctx.run_clause("C06.k", c06k)
    ctx.run_clause("C06.g", c06g)
    ctx.run_clause("C06.f", c06f)
    ctx.run_clause("C06.d", c06d)
    ctx.run_clause("C06.e", c06e)
    ctx.run_clause("C06.a", c06a)
    ctx.run_clause("C06.b", c06b)
    ctx.run_clause("C06.c", c06c)

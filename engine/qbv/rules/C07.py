"""C07 — state survives a clean restart and is reused (structural clauses)."""
import re

from .. import dataflow as df
from ..facts import Site, op_local
from .C05 import MAP_WRITE, COLUMN_FIELDS, held_batches

EXPLANATION = (
    "Static analysis over rustc's promoted MIR. C07.a each publication body (set_computed, clean_query, done_backward_projection, commit_internal, "
    "Sync::new) submits the batch it writes to on every normal path, exactly once, and every column write in the body goes to that batch. "
    "C07.b shutdown order of the write manager and the committer's final drain (shared with C10.e). C07.c Drop for Database takes every "
    "ManuallyDrop field, hands it to a blocking drop task and waits for all of them (so the write manager inside `sync` is drained before the "
    "engine is gone). C07.d the epoch is reloaded from the stored timestamp at open. C07.e top-level encodings start from a fresh interning "
    "session, so every stored value is self-contained. Faithfulness of the stored image for all histories is NOT decided. C07.i the committer gives up only when nothing is ready and its expected epoch only advances by one (C10.a, C10.h).")

NOT_DECIDED = [
    "that the reopened engine returns from-scratch values for all histories, cache sizes and batching behaviours (needs execution)",
    "that results up to date at shutdown are served without running executors",
]
ASSUMPTIONS = ["tokio::task::spawn_blocking runs its closure (runtime alive while the engine is dropped)"]


def c07a(ctx):
    prog = ctx.prog
    bodies = [("set_computed", prog.coroutine_of("Snapshot::set_computed"), "param"),
              ("clean_query", prog.coroutine_of("Snapshot::clean_query"), "new"),
              ("commit_internal", prog.coroutine_of("InputSession::commit_internal"), "param"),
              ("Sync::new", prog.coroutine_of("Sync::new"), "new-conditional")]
    dbp = [b for b in prog.find(r"^Snapshot::done_backward_projection::\{closure#0\}::\{closure#0\}$")]
    if len(dbp) == 1:
        bodies.append(("done_backward_projection", dbp[0], "new"))
    o0 = ctx.ob("C07.a", "publication-bodies", "K3", "the five publication bodies are present")
    o0.sites = len(bodies)
    if len(bodies) != 5:
        ctx.fail(o0, "(program)", "anchor missing: guarded block of done_backward_projection")
    for tag, b, how in bodies:
        ctx.touch(b)
        o = ctx.ob("C07.a", "%s/one-batch-submitted-once" % tag, "K2+K5", "the publication writes to one batch and submits it exactly once on every normal path")
        subs = b.calls_to(r"::submit_write_buffer$|WriteManager::submit_write_batch$")
        news = b.calls_to(r"::new_write_transaction$|WriteManager::new_write_batch$")
        o.sites = len(subs) + len(news)
        if len(subs) != 1:
            ctx.fail(o, Site(b, 0, 0), "%s must contain exactly one submit (found %d)" % (tag, len(subs)))
            continue
        s = subs[0]
        if how == "param":
            if news:
                ctx.fail(o, news[0], "%s creates a batch of its own although it is handed one" % tag)
            if b.must_pass([0], [s.bb]):
                ctx.fail(o, s, "%s can return without submitting the batch it was given: its writes never reach the store" % tag)
        elif how == "new":
            if len(news) != 1:
                ctx.fail(o, Site(b, 0, 0), "%s must create exactly one batch (found %d)" % (tag, len(news)))
                continue
            if b.must_pass([news[0].node["t"]], [s.bb]):
                ctx.fail(o, s, "%s can return without submitting the batch it created" % tag)
        else:
            if len(news) != 1:
                ctx.fail(o, Site(b, 0, 0), "%s must create exactly one batch (found %d)" % (tag, len(news)))
                continue
            if b.must_pass([news[0].node["t"]], [s.bb]):
                ctx.fail(o, s, "%s can leave the batch it created un-submitted" % tag)
        # the submitted value is the batch the writes went to
        sub_o = df.origins_deep(prog, b, s.node["args"][-1])
        sub_keys = {x.key() for x in sub_o if x.kind in ("param", "call")}
        ws = b.calls(lambda f, t: bool(MAP_WRITE.search(f["path"])))
        o.sites += len(ws)
        for w in ws:
            wo = df.origins_deep(prog, b, w.node["args"][-1])
            wk = {x.key() for x in wo if x.kind in ("param", "call")}
            if not (wk & sub_keys):
                ctx.fail(o, w, "a column write in %s goes to a batch other than the one submitted" % tag)
            if not b.site_dominates(w, s) and s.bb in b.reachable([w.bb]) is False:
                pass
            if w.bb in b.reachable([s.node["t"]]) if s.node["t"] is not None else False:
                ctx.fail(o, w, "a column write in %s happens after the batch was submitted" % tag)
        # no batch left owned at return
        for rb in b.returns():
            if held_batches(b, rb):
                ctx.fail(o, Site(b, rb, 0), "%s returns while still owning a write batch" % tag)


def c07a_columns(ctx):
    """Every publication writes the complete set of columns that make up a node, on every path."""
    prog = ctx.prog
    want = {
        "Snapshot::set_computed": ["node_info", "query_kind", "last_verified", "forward_edge_order", "forward_edge_observation", "query_store", "query_store"],
        "Snapshot::set_computed_input": ["last_verified", "forward_edge_order", "forward_edge_observation", "node_info", "query_store", "query_store"],
        "Snapshot::clean_query": ["last_verified"],
    }
    for fn, cols in want.items():
        o = ctx.ob("C07.a", "%s/writes-every-column-of-the-node" % fn.split("::")[1], "K2", "a publication stores all parts of the node on every path (a missing column is only noticed after a restart or an eviction)")
        b = ctx.touch(prog.coroutine_of(fn))
        ws = []
        for s in b.calls(lambda f, t: bool(MAP_WRITE.search(f["path"])) and f["path"].endswith("::insert")):
            ap = df.access_path(b, s.node["args"][0])
            col = [f for f in ap if f in COLUMN_FIELDS]
            if col:
                ws.append((col[-1], s))
        o.sites = len(ws)
        need = {}
        for c in cols:
            need[c] = need.get(c, 0) + 1
        for c, k in need.items():
            sites = [s for cc, s in ws if cc == c]
            # unconditional = on every path from entry to return
            uncond = [s for s in sites if not b.must_pass([0], [s.bb])]
            if len(uncond) < k:
                ctx.fail(o, Site(b, 0, 0), "%s does not insert into Database::%s on every path (%d of %d required writes are unconditional): after a restart / eviction the node is "
                         "incomplete (e.g. a value without its kind or its dependency list)" % (fn, c, len(uncond), k))
        # the two query_store writes are input and result
        qs = [s for cc, s in ws if cc == "query_store"]
        kinds = set()
        for s in qs:
            g = " ".join(s.node["fn"].get("gargs", []))
            kinds.add("QueryInput" if "QueryInput" in g else "QueryResult" if "QueryResult" in g else g)
        if "query_store" in need and not {"QueryInput", "QueryResult"} <= kinds:
            ctx.fail(o, Site(b, 0, 0), "%s must store both the query input and the query result (found %s)" % (fn, sorted(kinds)))


def c07a_kind(ctx):
    """An explicitly set input is stored with QueryKind::Input — that is what makes repair compare its fingerprint instead of
    trying to execute it, and what stops dirty propagation from treating it as a firewall.  set_input / update say so with
    `set_input = true`; refresh of an external input re-uses the function with `false` (its kind stays what the executor
    declared)."""
    prog = ctx.prog
    o = ctx.ob("C07.a", "set_computed_input/kind-written-exactly-for-explicit-inputs", "K4+K5",
               "set_computed_input stores QueryKind::Input exactly under set_input == true; InputSession::set_input and ::update pass true, the external-input refresh passes false")
    b = ctx.touch(prog.coroutine_of("Snapshot::set_computed_input"))
    ws = [s_ for s_ in b.calls(lambda f, t: bool(MAP_WRITE.search(f["path"])) and f["path"].endswith("::insert")) if "query_kind" in df.access_path(b, s_.node["args"][0])]
    o.sites = len(ws)
    if len(ws) != 1:
        ctx.fail(o, Site(b, 0, 0), "anchor missing: the query_kind write of set_computed_input (found %d)" % len(ws))
    else:
        g = [x for x in df.guarded_by(b, ws[0].bb, lambda c: True) if x[3].kind not in ("disc", "call") or (x[3].kind == "call" and "poll" not in x[3].callee)]
        pols = set()
        for sb, v, tb, c in g:
            pl = getattr(c, "place", None)
            src = list(df.origins_of_place(b, pl)) if pl is not None else (list(df.origins_of_operand(b, b.blocks[sb]["term"]["op"])))
            if any(x.kind == "param" for x in src):
                pols.add((v != 0 and v != "0") if v != "otherwise" else True)
        if pols != {True}:
            ctx.fail(o, ws[0], "QueryKind::Input is stored under set_input == %s (must be exactly `true`)" % (sorted(pols) or "no test of the parameter"))
    sites = prog.callers_of(r"Snapshot<C, Q>>::set_computed_input$|Snapshot::<C, Q>::set_computed_input$")
    o.sites += len(sites)
    if len(sites) < 3:
        ctx.fail(o, "(program)", "expected >= 3 callers of set_computed_input, found %d" % len(sites))
    for s_ in sites:
        c_ = (s_.node["args"][6].get("c") or {}) if len(s_.node["args"]) > 6 else {}
        val = c_.get("s")
        want = "false" if "refresh" in s_.body.name or "external" in s_.body.name.lower() else "true"
        ctx.touch(s_.body)
        if val != want:
            ctx.fail(o, s_, "%s calls set_computed_input with set_input = %s (expected %s)" % (s_.body.name, val, want))


def c07c(ctx):
    prog = ctx.prog
    o = ctx.ob("C07.c", "Database-drop/takes-and-waits-all-fields", "K10+K2", "Drop for Database drains every ManuallyDrop field (incl. the write manager inside `sync`) and waits for all drop tasks")
    adt = prog.adts.get("qbice::engine::computation_graph::database::Database")
    if adt is None:
        ctx.fail(o, "(program)", "anchor missing: struct Database")
        return
    md = [f["name"] for f in adt["variants"][0]["fields"] if "ManuallyDrop<" in f["ty"]]
    allf = [f["name"] for f in adt["variants"][0]["fields"]]
    o.sites = len(md)
    if len(md) < 11:
        ctx.fail(o, "(program)", "expected >= 11 ManuallyDrop fields in Database, found %d" % len(md))
    if set(md) != set(allf):
        ctx.notes.append("Database fields not wrapped in ManuallyDrop (dropped in place): %s" % sorted(set(allf) - set(md)))
    b = ctx.touch(prog.body("<Database as Drop>::drop"))
    takes = b.calls_to(r"ManuallyDrop::<T>::take$")
    taken = {}
    for t in takes:
        ap = df.access_path(b, t.node["args"][0])
        for f in md:
            if f in ap:
                taken[f] = t
    for f in md:
        if f not in taken:
            ctx.fail(o, Site(b, 0, 0), "Database::%s is never taken out of its ManuallyDrop in Drop for Database: it is leaked%s" % (
                f, " — the write manager is never shut down, pending batches are not flushed" if f == "sync" else ""))
    sp = b.calls_to(r"tokio::task::blocking::spawn_blocking$|tokio::task::spawn_blocking$")
    wt = b.calls_to(r"crossbeam_utils::sync::wait_group::WaitGroup::wait$")
    o.sites += len(sp) + len(wt)
    if len(wt) != 1:
        ctx.fail(o, Site(b, 0, 0), "Drop for Database must wait for the drop tasks (WaitGroup::wait)")
    elif b.must_pass([0], [wt[0].bb]):
        ctx.fail(o, wt[0], "Drop for Database can return without waiting for the drop tasks")
    if len(sp) < len(md):
        ctx.fail(o, Site(b, 0, 0), "only %d of %d taken fields are handed to a drop task" % (len(sp), len(md)))
    for s in sp:
        if wt and not b.site_dominates(s, wt[0]):
            ctx.fail(o, s, "a drop task is spawned after the wait")
    # every taken value flows into a spawned closure, together with a clone of the wait group
    for f, t in taken.items():
        ev = df.forward_uses(b, t)
        if not any(e[0] == "agg" for e in ev):
            ctx.fail(o, t, "the value taken from Database::%s is not moved into a drop task" % f)
    # the drop closures drop the value and then their wait-group clone
    cls = [c for c in prog.find(r"^<Database as Drop>::drop::\{closure#\d+\}$")]
    o.sites += len(cls)
    if len(cls) < len(md):
        ctx.fail(o, Site(b, 0, 0), "expected one drop closure per field, found %d" % len(cls))
    for c in cls:
        ds = c.calls_to(r"^core::mem::drop$")
        if len(ds) != 2:
            ctx.fail(o, Site(c, 0, 0), "a Database drop task must drop the field and then its WaitGroup clone")
            continue
        wg = [d for d in ds if "WaitGroup" in c.locals[op_local(d.node["args"][0])]["ty"]]
        other = [d for d in ds if d not in wg]
        if len(wg) != 1 or not c.site_dominates(other[0], wg[0]):
            ctx.fail(o, Site(c, 0, 0), "a Database drop task releases the wait group before the field is dropped: Drop returns while the write manager is still flushing")


def c07d(ctx):
    prog = ctx.prog
    o = ctx.ob("C07.d", "Sync::new/epoch-reloaded", "K5", "the in-memory epoch starts from the stored timestamp when one exists")
    b = ctx.touch(prog.coroutine_of("Sync::new"))
    aggs = b.aggregates(r"database::sync::Sync$")
    at = b.calls_to(r"core::sync::atomic::Atomic::<u64>::new$")
    gt = b.calls_to(r"single_map::SingleMap::get$")
    o.sites = len(aggs) + len(at) + len(gt)
    if len(aggs) != 1 or len(at) != 1 or len(gt) != 1:
        ctx.fail(o, Site(b, 0, 0), "anchors missing in Sync::new (Sync{..}=%d AtomicU64::new=%d timestamp_map.get=%d)" % (len(aggs), len(at), len(gt)))
        return
    os_ = df.origins_of_operand(b, at[0].node["args"][0])
    if not any(x.kind == "call" and x.site == gt[0] for x in os_) or any(x.kind == "bin" for x in os_):
        ctx.fail(o, at[0], "the epoch atomic is not initialised from timestamp_map.get(): after a restart epochs would restart at 0 and nodes verified at old epochs "
                 "would be taken as current")
    # the stored map handed to Sync is the one that was read
    # first-open path writes Timestamp(0) and submits it
    ins = b.calls_to(r"single_map::SingleMap::insert$")
    sub = b.calls_to(r"WriteManager::submit_write_batch$")
    if len(ins) != 1 or len(sub) != 1:
        ctx.fail(o, Site(b, 0, 0), "first-open path must store the initial timestamp and submit it")
    else:
        if not df.dominated_by_variant(b, ins[0].bb, "core::option::Option", {0}) and not df.dominated_by_variant(b, ins[0].bb, "core::option::Option", {"otherwise"}):
            pass
    o = ctx.ob("C07.d", "session/epoch-stored-with-session", "K5", "the new epoch of a session is written to the timestamp column in the session's batch")
    s = ctx.touch(prog.coroutine_of("Engine::acquire_active_input_session_guard"))
    ins = s.calls_to(r"single_map::SingleMap::insert$")
    fa = s.calls_to(r"core::sync::atomic::Atomic::<u64>::fetch_add$")
    o.sites = len(ins) + len(fa)
    if len(ins) != 1 or len(fa) != 1:
        ctx.fail(o, Site(s, 0, 0), "anchors missing in acquire_active_input_session_guard")
    else:
        if "timestamp_map" not in df.access_path(s, ins[0].node["args"][0]):
            ctx.fail(o, ins[0], "the session does not write the timestamp column")
        vo = df.origins_of_operand(s, ins[0].node["args"][2])
        if not any(x.kind == "call" and x.site == fa[0] for x in vo):
            ctx.fail(o, ins[0], "the stored timestamp is not derived from the epoch just drawn")
        # stored value = prev + 1 (the new epoch), not prev
        adds = [x for x in vo if x.kind == "bin" and x.info in ("AddWithOverflow", "Add")]
        if len(adds) != 1 or len([x for x in vo if x.kind == "bin"]) != 1:
            ctx.fail(o, ins[0], "the stored timestamp is the previous epoch, not the new one")
        ro = df.origins_of_place(s, [0, []])
        bo = df.origins_of_operand(s, ins[0].node["args"][3])
        if not ({x.key() for x in ro if x.kind == "call"} & {x.key() for x in bo if x.kind == "call"}):
            ctx.fail(o, ins[0], "the timestamp is written to a batch other than the one returned to the session")


def c07e(ctx):
    prog = ctx.prog
    o = ctx.ob("C07.e", "encode/fresh-session-per-value", "K3+K5", "every top-level value is encoded/decoded with its own interning session (stored values are self-contained)")
    n = 0
    for tr, meth in (("qbice_serialize::encode::Encoder", "encode"), ("qbice_serialize::decode::Decoder", "decode")):
        bodies = [b for b in prog.all_bodies(["qbice_serialize"]) if b.rec.get("trait_default") == tr and b.rec.get("name") == meth]
        n += len(bodies)
        if len(bodies) != 1:
            ctx.fail(o, "(program)", "anchor missing: default method %s::%s" % (tr, meth))
            continue
        b = ctx.touch(bodies[0])
        ses = b.calls_to(r"session::Session::new$|<.*Session as .*Default>::default$|core::default::Default::default$")
        ses = [s for s in ses if "Session" in b.locals[s.node["dest"][0]]["ty"]]
        inner = b.calls_to(r"qbice_serialize::(encode::Encode::encode|decode::Decode::decode)$")
        n += len(ses) + len(inner)
        if len(ses) != 1 or len(inner) != 1:
            ctx.fail(o, Site(b, 0, 0), "%s::%s must create one Session and use it for the value (sessions=%d, inner calls=%d)" % (tr, meth, len(ses), len(inner)))
            continue
        so = df.origins_of_operand(b, inner[0].node["args"][-1])
        if not any(x.kind == "call" and x.site == ses[0] for x in so):
            ctx.fail(o, inner[0], "the value is (de)serialized with a session that outlives the call: interned values could be stored as bare references to another value's payload")
    o.sites = n
    # both backends go through these entry points
    o2 = ctx.ob("C07.e", "backends-use-top-level-entry", "K3", "the store backends encode values and keys only through Encoder::encode / Decoder::decode")
    m = 0
    for b in prog.all_bodies(["qbice_storage"]):
        if "/kv_database/" not in b.file:
            continue
        for s in b.calls_to(r"qbice_serialize::(encode::Encode::encode|decode::Decode::decode)$"):
            m += 1
            ctx.fail(o2, s, "%s calls Encode::encode/Decode::decode directly, sharing or bypassing the per-value session" % b.name)
        m += len(b.calls_to(r"qbice_serialize::(encode::Encoder::encode|decode::Decoder::decode)$"))
    o2.sites = m
    if m < 4:
        ctx.fail(o2, "(program)", "expected >= 4 Encoder::encode/Decoder::decode uses in the fjall backend, found %d" % m)


def c07h(ctx):
    """`commit()` is an ordinary future: the caller may drop it at its suspension point.  The session's batch (new epoch, input
    values, dirty marks) exists only inside that future; if it is dropped there the running engine keeps the new inputs in
    its caches while the store never receives them - and because the batch's epoch number never arrives at the committer,
    every later batch is held back too.  The work therefore runs in a block driven through guarded() (finished by a
    detached task on drop), and `comitted` - which switches off the Drop fallback - is set inside that block."""
    prog = ctx.prog
    o = ctx.ob("C07.h", "InputSession::commit/runs-to-completion", "K3", "InputSession::commit calls commit_internal and sets `comitted` only inside the block it hands to guarded()")
    cands = [x for x in prog.find(r"^InputSession::commit::\{closure#0\}$")]
    if len(cands) != 1:
        ctx.fail(o, "(program)", "anchor missing: InputSession::commit (found %d)" % len(cands))
        return
    b = ctx.touch(cands[0])
    g = b.calls_to(r"engine::guard::GuardExt::guarded$")
    direct = b.calls_to(r"InputSession::<C>::commit_internal$|InputSession<C>>::commit_internal$")
    o.sites = len(g) + len(direct)
    child = None
    for s_ in g:
        for x in df.origins_of_operand(b, s_.node["args"][0]):
            if x.kind == "agg" and x.site.node["rv"].get("ak") == "coroutine":
                child = prog.bodies.get(x.site.node["rv"].get("def"))
    if direct or child is None:
        ctx.fail(o, direct[0] if direct else Site(b, 0, 0), "InputSession::commit runs commit_internal in its own, droppable future (not inside a guarded() block): a commit() dropped at its "
                 "suspension point loses the session's batch - the engine goes on with the new inputs, the store never gets them and every later batch waits for the missing epoch")
        return
    ctx.touch(child)
    inner = child.calls_to(r"commit_internal$")
    o.sites += len(inner)
    if len(inner) != 1:
        ctx.fail(o, Site(child, 0, 0), "the guarded block of InputSession::commit does not call commit_internal exactly once (%d)" % len(inner))
    # the flag that disables the Drop fallback is written inside the block, not before it
    for body, where in ((b, "before the guarded block"),):
        for st_site in body.sites():
            n_ = st_site.node
            if not st_site.is_term and n_.get("k") == "assign" and any(str(e).startswith("f:") and "comitted" in str(e) for e in n_["lhs"][1]):
                ctx.fail(o, st_site, "InputSession::commit sets `comitted` %s: Drop then does nothing for a commit() that is dropped before its block has run" % where)


def run(ctx):
    from . import C10
    ctx.run_clause("C07.a", c07a)
    ctx.run_clause("C07.a", c07a_columns)
    ctx.run_clause("C07.a", c07a_kind)
    ctx.alias = {"C10.e": "C07.b"}
    ctx.run_clause("C07.b", C10.c10e)
    ctx.alias = {}
    # "everything computed before a clean shutdown is there after it": the committer applies every batch it is handed - it
    # gives up only when nothing is ready (C10.a) and its position in creation order only ever advances by one (C10.h); a
    # position that is reset or skipped parks every later batch until the engine is dropped.  Evaluated here as C07.i
    ctx.alias = {"C10.a": "C07.i", "C10.h": "C07.i"}
    ctx.run_clause("C07.i", C10.c10a)
    ctx.run_clause("C07.i", C10.c10h)
    ctx.alias = {}
    # what reaches the store is what the batch coalesced: last operation per key / element, both write families
    from . import C09
    ctx.alias = {"C09.g": "C07.f"}
    ctx.run_clause("C07.f", C09.c09g_batch)
    # ... and what is read back after a restart is all of it: the cold load of a key-of-set entry (C09.g staging clauses)
    ctx.run_clause("C07.f", C09.c09g_staging)
    ctx.alias = {}
    ctx.run_clause("C07.c", c07c)
    ctx.run_clause("C07.d", c07d)
    ctx.run_clause("C07.e", c07e)
    ctx.run_clause("C07.h", c07h)
    # the stored image is reused only if it can be decoded: a persisted value with a repeated interned handle is written as
    # Source + References, and the decoder must register the Source with the interner (C15.c, C15.a), evaluated as C07.g
    from . import C15
    ctx.alias = {"C15.c": "C07.g", "C15.a": "C07.g"}
    ctx.run_clause("C07.g", C15.c15c)
    ctx.run_clause("C07.g", C15.c15a)
    ctx.alias = {}

"""C08 — a crash loses recent work but never yields wrong answers (structural clauses: what shares
a batch, causal order of batch creation, physical atomicity, durability configuration)."""
import re

from .. import dataflow as df
from ..facts import Site, op_local, const_int

# both backends are already analysed from their own build shapes (the workspace shape has no fjall backend)
WORKSPACE_PASS = False

EXPLANATION = (
    "Static analysis over rustc's promoted MIR (engine from the RocksDB-free shape; rocksdb.rs from the full workspace shape). C08.a a recomputed "
    "firewall/projection writes its new value into the very batch that received its dirty marks. C08.b a session's epoch record, inputs and dirty marks "
    "share one batch (the batch returned by acquire_active_input_session_guard is the one stored in the session; sessions create no other batch). "
    "C08.c batches are created in causal order: execute_query creates its batch only after the executor and its helpers returned, i.e. after every "
    "callee published; epochs come from one counter. C08.d physical atomicity: each backend's commit() performs exactly one store write, outside any "
    "loop, and flush() commits a physical batch exactly once. C08.e configuration consistency: the RocksDB commit disables the WAL, so the database "
    "options used at open must enable atomic flush on every path. Prefix-consistency of every crash cut is NOT decided.")

NOT_DECIDED = [
    "that every prefix of committed batches is a consistent image for all programs/histories/groupings (needs the dynamic batch contents)",
    "behaviour of RocksDB/fjall at kill -9 (third-party code)",
]
ASSUMPTIONS = ["rust_rocksdb write_opt applies a WriteBatch atomically; with atomic_flush all column families are flushed together", "fjall OwnedWriteBatch::commit is atomic"]


def c08a(ctx):
    prog = ctx.prog
    o = ctx.ob("C08.a", "execute_query/value-shares-batch-with-dirty-marks", "K5", "the batch that publishes a recomputed firewall's value is the one its dirty marks were written to")
    eq = [x for x in prog.find(r"^Snapshot::execute_query::") if x.is_coroutine and x.calls_to(r"::dirty_propagate_from_batch$")]
    if len(eq) != 1:
        ctx.fail(o, "(program)", "anchor missing: publish block of execute_query")
        return
    b = ctx.touch(eq[0])
    dp = b.calls_to(r"::dirty_propagate_from_batch$")
    cc = b.calls_to(r"::computing_lock_to_computed$")
    nw = b.calls_to(r"::new_write_transaction$")
    o.sites = len(dp) + len(cc) + len(nw)
    if len(dp) != 1 or len(cc) != 1 or len(nw) < 2:
        ctx.fail(o, Site(b, 0, 0), "anchors missing (dirty_propagate=%d computing_lock_to_computed=%d new_write_transaction=%d)" % (len(dp), len(cc), len(nw)))
        return
    tx = df.origins_of_operand(b, cc[0].node["args"][9])
    calls = {x.site for x in tx if x.kind == "call"}
    if dp[0] not in calls:
        ctx.fail(o, cc[0], "the batch handed to computing_lock_to_computed does not derive from dirty_propagate_from_batch: after a crash the store could hold the "
                 "firewall's new value without the dirty marks of its callers (stale answers above it)")
    extra = [s for s in calls if s != dp[0] and s not in nw]
    if extra:
        ctx.fail(o, cc[0], "the publishing batch can come from %s" % extra[0].node["fn"]["path"])
    # the batch given to dirty_propagate is a fresh one created in the same arm
    pin = {x.site for x in df.origins_of_operand(b, dp[0].node["args"][2]) if x.kind == "call"}
    if not (pin & set(nw)):
        ctx.fail(o, dp[0], "dirty_propagate_from_batch is not given the batch created for this publication")
    # on the updated path the un-propagated fresh batch must not be what is published: dp's result overwrites it
    arm_new = [n for n in nw if b.site_dominates(n, dp[0])]
    if len(arm_new) != 1:
        ctx.fail(o, dp[0], "expected the firewall arm to create exactly one batch before propagating (found %d): with a batch of its own the dirty marks get a later epoch "
                 "than the value they belong to and are committed after it" % len(arm_new))
    # nothing in the publish block hands the propagated batch to the write manager on its own
    for sb in b.calls_to(r"::submit_write_buffer$"):
        if any(x.kind == "call" and x.site == dp[0] for x in df.origins_of_operand(b, sb.node["args"][-1])):
            ctx.fail(o, sb, "the batch holding the callers' dirty marks is submitted on its own: it is committed separately from the firewall's new value, and a crash between "
                     "the two commits leaves the value verified for this timestamp above clean edges")


def c08b(ctx):
    prog = ctx.prog
    o = ctx.ob("C08.b", "session/batch-of-epoch-is-session-batch", "K5", "the batch holding the session's epoch record is the batch the session writes inputs and dirty marks to")
    b = ctx.touch(prog.coroutine_of("Engine::input_session"))
    acq = b.calls_to(r"::acquire_active_input_session_guard$")
    agg = b.aggregates(r"input_session::InputSession$")
    o.sites = len(acq) + len(agg)
    if len(acq) != 1 or len(agg) != 1:
        ctx.fail(o, Site(b, 0, 0), "anchors missing in Engine::input_session")
    else:
        f = agg[0].node["rv"]["fields"]
        to = df.origins_of_operand(b, agg[0].node["rv"]["ops"][f.index("transaction")])
        if not any(x.kind == "call" and x.site == acq[0] for x in to):
            ctx.fail(o, agg[0], "InputSession::transaction is not built from acquire_active_input_session_guard's (batch, guard)")
        if b.calls_to(r"::new_write_transaction$|WriteManager::new_write_batch$"):
            ctx.fail(o, Site(b, 0, 0), "input_session creates a second batch")
    # the three writers of a session use the session transaction
    for fn in ("InputSession::set_input", "InputSession::update", "InputSession::refresh"):
        blk = [x for x in prog.find(r"^%s::\{closure#0\}::\{closure#\d+\}$" % re.escape(fn)) if x.is_coroutine and x.calls_to(r"::set_computed_input$")]
        o.sites += len(blk)
        if len(blk) != 1:
            ctx.fail(o, "(program)", "anchor missing: guarded block of %s" % fn)
            continue
        g = ctx.touch(blk[0])
        for s in g.calls_to(r"::set_computed_input$"):
            ap = df.origins_deep(prog, g, s.node["args"][5])
            tys = [g.locals[op_local(s.node["args"][5])]["ty"]]
            # derives from the locked `transaction` upvar (Arc<RwLock<Option<(batch, guard)>>>)
            if not any(x.kind == "call" and re.search(r"RwLock::<T>::write$", x.callee() or "") for x in df.origins_of_operand(g, s.node["args"][5])):
                ctx.fail(o, s, "%s does not write through the session's locked transaction" % fn)
    # commit: the dirty marks go into the taken transaction (C01.e) — cross-reference only
    ci = ctx.touch(prog.coroutine_of("InputSession::commit_internal"))
    if ci.calls_to(r"::new_write_transaction$"):
        ctx.fail(o, Site(ci, 0, 0), "commit_internal creates its own batch: inputs and dirty marks would be committed separately")


def c08c(ctx):
    prog = ctx.prog
    o = ctx.ob("C08.c", "execute_query/batch-created-after-callees-published", "K1", "a query's batch is created (gets its epoch) only after its executor and helper tasks returned")
    outer = [b for b in prog.find(r"^Snapshot::execute_query::\{closure#0\}(::\{closure#0\})?$") if b.calls_to(r"executor::Entry::<C>::invoke_executor$")]
    inner = [x for x in prog.find(r"^Snapshot::execute_query::") if x.is_coroutine and x.calls_to(r"::new_write_transaction$")]
    if len(outer) != 1 or len(inner) != 1:
        ctx.fail(o, "(program)", "anchors missing: execute_query bodies")
        return
    b, g = ctx.touch(outer[0]), ctx.touch(inner[0])
    o.sites = len(g.calls_to(r"::new_write_transaction$"))
    if g is b:
        ctx.fail(o, Site(b, 0, 0), "batches are created in the same body as the executor call; expected them inside the guarded publish block")
        return
    # the inner block is created after wait_group.wait().await
    wt = b.calls_to(r"waitgroup::WaitGroup::wait$")
    aw = df.await_of_call(b, wt[0]) if len(wt) == 1 else None
    crea = b.assigns(lambda st: st["rv"]["k"] == "agg" and st["rv"].get("ak") == "coroutine" and st["rv"].get("def") == g.key)
    if aw is None or len(crea) != 1 or not aw.completed_before(crea[0]):
        ctx.fail(o, crea[0] if crea else Site(b, 0, 0), "the publish block (which creates the batch) can start before the executor's helpers finished: a caller's batch could get an "
                 "epoch lower than a callee's and be committed first")
    for fn in ("Snapshot::clean_query",):
        c = ctx.touch(prog.coroutine_of(fn))
    o2 = ctx.ob("C08.c", "epoch-monotone-source", "K3", "epochs are drawn from one counter when a batch is created (see C10.c)")
    pool = ctx.touch(prog.body("WriteBufferPool::get_buffer"))
    fa = pool.calls_to(r"core::sync::atomic::Atomic::<u64>::fetch_add$")
    o2.sites = len(fa)
    if len(fa) != 1:
        ctx.fail(o2, Site(pool, 0, 0), "get_buffer must draw exactly one epoch")


def physical(ctx, prog, name, store_pat, tag):
    o = ctx.ob("C08.d", "%s/commit-is-one-store-write" % tag, "K3+K2", "a physical batch reaches the store through exactly one write call, outside any loop")
    b = ctx.touch(prog.body(name))
    w = b.calls_to(store_pat)
    o.sites = len(w)
    if len(w) != 1:
        ctx.fail(o, Site(b, 0, 0), "%s must contain exactly one store write (found %d): a crash between two writes would expose half a batch" % (name, len(w)))
        return
    if b.must_pass([0], [w[0].bb]):
        ctx.fail(o, w[0], "%s can return without writing" % name)
    if w[0].bb in b.reachable([w[0].node["t"]]) if w[0].node["t"] is not None else False:
        ctx.fail(o, w[0], "the store write of %s sits in a loop" % name)
    # the thing written is self's batch
    return w[0]


def c08d(ctx):
    prog = ctx.prog
    physical(ctx, prog, "<FjallWriteBatch as WriteBatch>::commit", r"fjall::.*::commit$", "fjall")
    o = ctx.ob("C08.d", "flush/commit-once-per-physical-batch", "K3", "CurrentBatch::flush commits the physical batch exactly once and replaces it with a fresh one")
    b = ctx.touch(prog.body("CurrentBatch::flush"))
    cm = b.calls_to(r"kv_database::WriteBatch::commit$")
    rp = b.calls_to(r"core::mem::replace$")
    o.sites = len(cm) + len(rp)
    if len(cm) != 1 or len(rp) != 1:
        ctx.fail(o, Site(b, 0, 0), "flush must mem::replace the physical batch and commit the old one exactly once")
    else:
        # ... either the replaced field itself, or the db_write_batch field of the whole CurrentBatch taken out of `self`
        whole = "db_write_batch" in df.access_path(b, cm[0].node["args"][0]) and \
            any(x.kind == "param" and str(x.info).split(".")[0] == "_1" for x in df.origins_of_operand(b, cm[0].node["args"][0]))
        if not whole and not any(x.kind == "call" and x.site == rp[0] for x in df.origins_of_operand(b, cm[0].node["args"][0], extra_transparent=[(r"^$", None)])) and \
           "db_write_batch" not in df.access_path(b, rp[0].node["args"][0]):
            ctx.fail(o, cm[0], "flush commits something other than the current physical batch")
        if cm[0].bb in b.reachable([cm[0].node["t"]]):
            ctx.fail(o, cm[0], "commit sits in a loop")
    rocks = ctx.program("rocks")
    w = physical(ctx, rocks, "<RocksDBWriteBatch as WriteBatch>::commit", r"rust_rocksdb::.*::write_opt$|rust_rocksdb::.*::write$|rust_rocksdb::.*::write_without_wal$", "rocksdb")
    # ---------------------------------------------------------------- C08.e
    o = ctx.ob("C08.e", "rocksdb/wal-off-implies-atomic-flush", "K10", "the WAL is disabled at commit, therefore the DB options must enable atomic flush across column families")
    cb = ctx.touch(rocks.body("<RocksDBWriteBatch as WriteBatch>::commit"))
    dw = cb.calls_to(r"WriteOptions::disable_wal$")
    o.sites = len(dw)
    wal_off = any((s.node["args"][1].get("c") or {}).get("s") == "true" for s in dw)
    opts = ctx.touch(rocks.body("rocksdb::configure_rocksdb_for_small_kv_high_writes"))
    af = opts.calls_to(r"Options::set_atomic_flush$")
    o.sites += len(af)
    af_on = [s for s in af if (s.node["args"][1].get("c") or {}).get("s") == "true"]
    if wal_off:
        if len(af_on) != 1 or opts.must_pass([0], [af_on[0].bb]):
            ctx.fail(o, dw[0], "commit() disables the WAL but the database options do not enable atomic_flush on every path: after a crash different column families "
                     "could be flushed to different points (a node's kind without its value, a value without its dirty marks)")
        # the options so built are the ones used to open the DB
        op = ctx.touch(rocks.body("RocksDB::open"))
        cfgs = op.calls_to(r"rocksdb::configure_rocksdb_for_small_kv_high_writes$")
        opens = op.calls_to(r"DBCommon::<.*>::open(_cf_descriptors)?$|DBWithThreadMode::<.*>::open(_cf_descriptors)?$")
        o.sites += len(cfgs) + len(opens)
        if not cfgs or len(opens) < 2:
            ctx.fail(o, Site(op, 0, 0), "anchors missing in RocksDB::open (configure=%d open calls=%d)" % (len(cfgs), len(opens)))
        for s in opens:
            if not any(x.kind == "call" and x.site in cfgs for x in df.origins_of_operand(op, s.node["args"][0])):
                ctx.fail(o, s, "the database is opened with options that do not come from configure_rocksdb_for_small_kv_high_writes")
    else:
        ctx.notes.append("RocksDB commit keeps the WAL on: atomic flush not required")
    # fjall: durability(None) batches are still atomic; nothing to pair


def c08h(ctx):
    """The persisted pending-backward-projection marker is the only record from which an interrupted propagation can be
    resumed (after a crash, a cancelled query).  It is cleared by done_backward_projection, and that must be the LAST thing
    invoke_backward_projections does: if the marker is cleared before the projections above the node were re-run, a crash
    between the two commits leaves a store in which nothing remembers that they are owed - the reopened engine verifies
    their callers clean on stale values."""
    prog = ctx.prog
    o = ctx.ob("C08.h", "invoke_backward_projections/resume-record-cleared-last", "K1", "done_backward_projection is called only after every projection task was spawned and joined")
    cands = [x for x in prog.find(r"^Snapshot::invoke_backward_projections::\{closure#0\}(::\{closure#0\})?$")]
    bodies = [x for x in cands if x.calls_to(r"done_backward_projection$")]
    if len(bodies) != 1:
        ctx.fail(o, "(program)", "anchor missing: Snapshot::invoke_backward_projections calling done_backward_projection (found %d)" % len(bodies))
        return
    b = ctx.touch(bodies[0])
    done = b.calls_to(r"done_backward_projection$")
    work = b.calls_to(r"JoinSet::<T>::spawn$|JoinSet::<T>::join_next$|tokio::task::spawn::spawn$")
    o.sites = len(done) + len(work)
    if not work:
        ctx.fail(o, Site(b, 0, 0), "anchor missing: the projection fan-out (JoinSet::spawn / join_next) in invoke_backward_projections")
        return
    for d in done:
        after = b.reachable([d.node["t"]] if d.node.get("t") is not None else [])
        late = [w for w in work if w.bb in after]
        if late:
            ctx.fail(o, d, "invoke_backward_projections clears the pending marker (done_backward_projection) and THEN still spawns / joins projection tasks: a crash between the two "
                     "commits leaves no record that the projections above this node are owed; after reopening their callers are verified clean with stale values")


def run(ctx):
    ctx.run_clause("C08.a", c08a)
    ctx.run_clause("C08.b", c08b)
    ctx.run_clause("C08.c", c08c)
    ctx.run_clause("C08.d", c08d)
    ctx.run_clause("C08.h", c08h)
    # every crash image is a *prefix* of the committed batches only if the committer applies batches strictly in epoch
    # order: C10.a's rules, evaluated here as C08.f
    from . import C10
    ctx.alias = {"C10.a": "C08.f"}
    ctx.run_clause("C08.f", C10.c10a)
    ctx.alias = {}
    # "shows the inputs of some earlier committed session": the epoch a reopened engine starts from is the one stored with the
    # session's batch and reloaded by Sync::new (C07.d), evaluated here as C08.g
    from . import C07
    ctx.alias = {"C07.d": "C08.g"}
    ctx.run_clause("C08.g", C07.c07d)
    ctx.alias = {}

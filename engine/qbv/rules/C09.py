"""C09 — cached maps return the latest write: the pin protocol of the three cached maps
(structural clauses)."""
import re

from .. import dataflow as df
from ..facts import Site, op_local, const_int, short

EXPLANATION = (
    "Static analysis over rustc's promoted MIR of qbice_storage. C09.a at each of the 6 write sites (insert/remove of the single, dynamic and "
    "key-of-set cached maps) the write is recorded in the caller's batch first and the bool it returns is the `updated` argument of the cache "
    "operation; the cache handle given to the batch is a downgrade of the map's own cache. C09.b WideColumnCache::{insert,remove}: the pin count is "
    "raised/initialised exactly under `updated`, a remove of a vacant key under `updated` leaves a negative entry, an entry is physically removed "
    "only when its pin count is 0. C09.c a miss-fill stores only in the Vacant arm (never overwrites a concurrently written entry). C09.d physical "
    "commit precedes every un-pin notification; after_commit precedes returning the buffer; flush_staging un-pins exactly the keys drained from the "
    "committed batch. C09.e key-of-set staging operations carry the batch's epoch and FlushUpTo carries the committed batch's epoch. "
    "Linearizability of reads racing with flushes is NOT decided.")

NOT_DECIDED = [
    "read-your-writes under all placements of commits/un-pins between operations (e.g. a database read that started before a commit and fills after eviction)",
    "exactness of the staging overlay for sets beyond the spill threshold",
]
ASSUMPTIONS = ["TinyLFU::entry runs its closure under the bucket lock (scc entry_sync)", "eviction respects pins (C16.a)"]


def c09a(ctx):
    prog = ctx.prog
    o = ctx.ob("C09.a", "write-sites/record-then-cache-with-updated", "K8+K5", "every cached-map write records the operation in the batch and passes the batch's `newly recorded` bool to the cache")
    sites = [("<CacheSingleMap as SingleMap>::insert", "put_wide_column", r"WideColumnCache::<K, V, T>::insert$", 3),
             ("<CacheSingleMap as SingleMap>::remove", "put_wide_column", r"WideColumnCache::<K, V, T>::remove$", 2),
             ("<CacheDynamicMap as DynamicMap>::insert", "put_wide_column", r"WideColumnCache::<K, V, T>::insert$", 3),
             ("<CacheDynamicMap as DynamicMap>::remove", "put_wide_column", r"WideColumnCache::<K, V, T>::remove$", 2),
             ("<CacheKeyOfSetMap as KeyOfSetMap>::insert", "put_set", r"CacheKeyOfSetMap::<K, C, Db>::apply_op$", 4),
             ("<CacheKeyOfSetMap as KeyOfSetMap>::remove", "put_set", r"CacheKeyOfSetMap::<K, C, Db>::apply_op$", 4)]
    n = 0
    for fn, put, cache_pat, upd_idx in sites:
        b = ctx.touch(prog.coroutine_of(fn))
        puts = b.calls_to(r"write_behind::WriteBatch::<Db>::%s$" % put)
        cops = b.calls_to(cache_pat)
        n += len(puts) + len(cops)
        if len(puts) != 1 or len(cops) != 1:
            ctx.fail(o, Site(b, 0, 0), "%s: expected one %s and one cache operation (found %d / %d)" % (fn, put, len(puts), len(cops)))
            continue
        if not b.site_dominates(puts[0], cops[0]):
            ctx.fail(o, cops[0], "%s updates the cache before the write is recorded in the batch" % fn)
        os_ = df.origins_of_operand(b, cops[0].node["args"][upd_idx])
        if not (len(os_) == 1 and any(x.kind == "call" and x.site == puts[0] for x in os_)):
            ctx.fail(o, cops[0], "%s: the `updated` flag given to the cache is not the bool returned by %s (origins %s): the entry would be pinned too often (never evictable) "
                     "or not at all (evictable before the write is durable -> stale read from the store)" % (fn, put, sorted(map(repr, os_))))
        # batch parameter is the caller's; weak handle is a downgrade of this map's cache
        bo = df.origins_of_operand(b, puts[0].node["args"][0])
        if not all(x.kind == "param" for x in bo):
            ctx.fail(o, puts[0], "%s records the write in a batch other than the caller's" % fn)
        wo = df.origins_of_operand(b, puts[0].node["args"][-1])
        fields = df.access_path(b, puts[0].node["args"][-1])
        if not any(x.kind == "call" and re.search(r"Arc::<T(, A)?>::downgrade$", x.callee() or "") for x in wo) and not any(x.kind == "param" for x in wo):
            ctx.fail(o, puts[0], "%s: the cache handle stored in the batch is not a Weak of this map's cache" % fn)
    o.sites = n
    if n < 12:
        ctx.fail(o, "(program)", "expected 6 write sites x 2 calls, found %d" % n)


def c09b(ctx):
    prog = ctx.prog
    o = ctx.ob("C09.b", "WideColumnCache::insert/pin-under-updated", "K4+K5", "insert pins the entry exactly when the batch newly recorded the key")
    cl = prog.body("WideColumnCache::insert::{closure#0}")
    b = ctx.touch(cl)
    # vacant arm: pin_count = i32::from(updated); occupied arm: += 1 under updated
    aggs = b.aggregates(r"wide_column_cache::Entry$")
    o.sites = len(aggs)
    if len(aggs) != 1:
        ctx.fail(o, Site(b, 0, 0), "expected one Entry construction in the Vacant arm of WideColumnCache::insert")
    else:
        os_ = df.origins_deep(prog, b, aggs[0].node["rv"]["ops"][1])
        if not any(x.kind == "param" for x in os_) or any(x.kind == "const" and str(x.info) not in ("0_i32", "1_i32") for x in os_ if False):
            ctx.fail(o, aggs[0], "the initial pin count of a new entry does not derive from `updated`")
        if not any(x.kind == "call" and re.search(r"From<bool>>::from$|convert::From::from$", x.callee() or "") for x in df.origins_of_operand(b, aggs[0].node["rv"]["ops"][1], extra_transparent=[])) and \
           not any(x.kind == "call" and "from" in (x.callee() or "") for x in df.origins_of_operand(b, aggs[0].node["rv"]["ops"][1], extra_transparent=[(r"^$", None)])):
            pass
    incs = b.assigns(lambda st: st["rv"]["k"] == "bin" and st["rv"]["op"] in ("AddWithOverflow", "Add", "AddUnchecked"))
    o.sites += len(incs)
    if len(incs) != 1:
        ctx.fail(o, Site(b, 0, 0), "expected one pin_count increment in the Occupied arm of WideColumnCache::insert (found %d)" % len(incs))
    else:
        ok = False
        for sb in df.switches(b):
            os_ = df.origins_of_operand(b, b.blocks[sb]["term"]["op"])
            if any(x.kind == "param" for x in os_) and df.switch_cond(b, sb).kind == "value":
                tt, ft = df.bool_edges(b, sb)
                if b.edge_dominates((sb, tt), incs[0].bb) and incs[0].bb not in b.reachable([ft], removed_nodes=[sb]):
                    ok = True
        if not ok:
            ctx.fail(o, incs[0], "the pin count is incremented independently of `updated`: the count would not match the number of batches that hold the key, "
                     "so the entry is un-pinned too early (stale read after eviction) or never")
    o = ctx.ob("C09.b", "WideColumnCache::remove/negative-entry-and-pin", "K4", "remove leaves a pinned negative entry for a vacant key under `updated`, pins an occupied one, and physically removes only un-pinned entries")
    b = ctx.touch(prog.body("WideColumnCache::remove::{closure#0}"))
    aggs = b.aggregates(r"wide_column_cache::Entry$")
    vins = b.calls_to(r"tiny_lfu::VacantEntry::<.*>::insert$")
    orem = b.calls_to(r"tiny_lfu::OccupiedEntry::<.*>::remove$")
    incs = b.assigns(lambda st: st["rv"]["k"] == "bin" and st["rv"]["op"] in ("AddWithOverflow", "Add", "AddUnchecked"))
    o.sites = len(aggs) + len(vins) + len(orem) + len(incs)
    if len(aggs) != 1 or len(vins) != 1 or len(orem) != 1 or len(incs) != 1:
        ctx.fail(o, Site(b, 0, 0), "anchors missing in WideColumnCache::remove (Entry=%d vacant.insert=%d occupied.remove=%d increments=%d)" % (len(aggs), len(vins), len(orem), len(incs)))
        return
    # negative entry: value None, pin 1, under updated
    ops = aggs[0].node["rv"]["ops"]
    vo = df.origins_of_operand(b, ops[0])
    if not any(x.kind == "agg" and x.site.node["rv"].get("vname") == "None" for x in vo):
        ctx.fail(o, aggs[0], "the entry inserted by remove() for a vacant key is not a negative (None) entry")
    po = df.origins_of_operand(b, ops[1])
    pin_consts = {str(x.info) for x in po if x.kind == "const"}

    def under_updated(site, want_true):
        for sb in df.switches(b):
            os_ = df.origins_of_operand(b, b.blocks[sb]["term"]["op"])
            if any(x.kind == "param" for x in os_) and df.switch_cond(b, sb).kind == "value":
                tt, ft = df.bool_edges(b, sb)
                good, bad = (tt, ft) if want_true else (ft, tt)
                if b.edge_dominates((sb, good), site.bb) and site.bb not in b.reachable([bad], removed_nodes=[sb]):
                    return True
        return False
    if not under_updated(vins[0], True):
        ctx.fail(o, vins[0], "the negative entry is inserted regardless of `updated`")
    # and on the `updated` path of the Vacant arm the negative entry is inserted on every path
    for sb in df.switches(b):
        os_ = df.origins_of_operand(b, b.blocks[sb]["term"]["op"])
        if any(x.kind == "param" for x in os_) and df.switch_cond(b, sb).kind == "value":
            tt, ft = df.bool_edges(b, sb)
            if b.edge_dominates((sb, tt), vins[0].bb) and b.must_pass([tt], [vins[0].bb]):
                ctx.fail(o, vins[0], "remove() of a key that is not cached can skip the negative entry although the batch recorded the delete: a later read reloads the deleted value from the store")
    if not under_updated(incs[0], True):
        ctx.fail(o, incs[0], "remove() pins an occupied entry regardless of `updated`")
    if not under_updated(orem[0], False):
        ctx.fail(o, orem[0], "remove() physically removes the entry on the `updated` path: the remembered absence is lost and a later read reloads the old value from the store")
    # physical removal only when pin_count == 0
    ok = df.dominated_by_equality(b, orem[0].bb, "eq", lambda x, y: ("pin_count" in x.fields or x.has("get_mut")) and any(c in ("0_i32", "const 0_i32") for c in y.consts), prog)
    if not ok:
        ctx.fail(o, orem[0], "an occupied entry is physically removed without `pin_count == 0`: a key with unflushed writes disappears from the cache and reads fall through to the stale store")


def c09c(ctx):
    prog = ctx.prog
    # the fill closure may sit any number of closures deep inside the loader (single-flight work closure, a publish wrapper ...)
    for name, cl_pat, ent_adt in (("WideColumnCache::get", r"^WideColumnCache::get::\{closure#0\}(::\{closure#\d+\})+$", "tiny_lfu::Entry"),
                                  ("CacheKeyOfSetMap::get_entry", r"^CacheKeyOfSetMap::get_entry::\{closure#0\}(::\{closure#\d+\})+$", "tiny_lfu::Entry")):
        o = ctx.ob("C09.c", "%s/fill-only-when-vacant" % name, "K4", "a miss-fill never overwrites an entry that appeared while the store was read")
        cls = prog.find(cl_pat)
        cls = [c for c in cls if c.calls_to(r"tiny_lfu::VacantEntry::<.*>::insert$")]
        o.sites = len(cls)
        if len(cls) != 1:
            ctx.fail(o, "(program)", "anchor missing: the TinyLFU::entry closure of %s (found %d)" % (name, len(cls)))
            continue
        c = ctx.touch(cls[0])
        ins = c.calls_to(r"tiny_lfu::VacantEntry::<.*>::insert$")
        stores = c.calls_to(r"tiny_lfu::OccupiedEntry::<.*>::(get_mut|remove)$")
        if stores:
            ctx.fail(o, stores[0], "the miss-fill of %s touches the Occupied entry: it would overwrite a value written concurrently with the store read" % name)
        if not df.dominated_by_variant(c, ins[0].bb, ent_adt, {0}):
            ctx.fail(o, ins[0], "the miss-fill insert of %s is not restricted to the Vacant arm" % name)
        # the single-flight wrapper is used (one loader per key)
        outer = prog.coroutine_of(name)
        if not outer.calls_to(r"single_flight::SingleFlight::<K>::wait_or_work$"):
            ctx.fail(o, Site(outer, 0, 0), "%s no longer loads through SingleFlight::wait_or_work" % name)
        # a filled entry is un-pinned (pin 0): only writers pin
        for a in c.aggregates(r"wide_column_cache::Entry$"):
            po = df.origins_of_operand(c, a.node["rv"]["ops"][1])
            # AtomicI32::new(0)
            pass


def c09d(ctx):
    prog = ctx.prog
    o = ctx.ob("C09.d", "flush/commit-before-unpin-notification", "K1", "the physical commit precedes every after-commit (un-pin) message")
    b = ctx.touch(prog.body("CurrentBatch::flush"))
    cm = b.calls_to(r"kv_database::WriteBatch::commit$")
    snd = b.calls_to(r"crossbeam_channel::channel::Sender::<T>::send$")
    o.sites = len(cm) + len(snd)
    if len(cm) != 1 or not snd:
        ctx.fail(o, Site(b, 0, 0), "anchors missing in CurrentBatch::flush (commit=%d send=%d)" % (len(cm), len(snd)))
    else:
        for s in snd:
            if not b.site_dominates(cm[0], s):
                ctx.fail(o, s, "an after-commit task is sent before the physical batch is committed: the cache entry could be un-pinned and evicted while the store still has the old value")
        if b.must_pass([0], [cm[0].bb]):
            ctx.fail(o, cm[0], "CurrentBatch::flush can return without committing")
    o = ctx.ob("C09.d", "after_commit_worker/unpin-then-return-buffer", "K1", "a batch's keys are un-pinned before its buffer is recycled")
    b = ctx.touch(prog.body("WriteBehind::after_commit_worker"))
    ac = b.calls_to(r"write_behind::WriteBatch::<Db>::after_commit$")
    rb = b.calls_to(r"WriteBufferPool::<Db>::return_buffer$")
    ep = b.calls_to(r"write_behind::WriteBatch::<Db>::epoch$")
    o.sites = len(ac) + len(rb) + len(ep)
    if len(ac) != 1 or len(rb) != 1 or len(ep) != 1:
        ctx.fail(o, Site(b, 0, 0), "anchors missing in after_commit_worker")
    else:
        if not b.site_dominates(ac[0], rb[0]):
            ctx.fail(o, rb[0], "the buffer is recycled before after_commit ran")
        if not any(x.kind == "call" and x.site == ep[0] for x in df.origins_of_operand(b, ac[0].node["args"][1])):
            ctx.fail(o, ac[0], "after_commit is not given the committed batch's own epoch")
    o = ctx.ob("C09.d", "after_commit/flushes-exactly-drained-keys", "K5", "the keys un-pinned are exactly the keys drained from the committed batch")
    n = 0
    for nm in ("<TypedWideColumnWrites as WriteEntry>::after_commit", "<TypedKeyOfSetWrites as WriteEntry>::after_commit"):
        b = ctx.touch(prog.body(nm))
        fl = b.calls_to(r"write_behind::(WideColumnCache|KeyOfSetCache)::flush$")
        dr = b.calls_to(r"HashMap::<K, V, S(, A)?>::drain$")
        n += len(fl) + len(dr)
        if len(fl) != 1 or len(dr) != 1:
            ctx.fail(o, Site(b, 0, 0), "%s must drain its writes and flush them to the originating cache" % nm)
            continue
        ko = df.origins_of_operand(b, fl[0].node["args"][2])
        if not any(x.kind == "call" and x.site == dr[0] for x in ko):
            ctx.fail(o, fl[0], "%s flushes keys that do not come from this batch's drained writes" % nm)
        eo = df.origins_of_operand(b, fl[0].node["args"][1])
        if not all(x.kind == "param" for x in eo):
            ctx.fail(o, fl[0], "%s does not forward the committed epoch" % nm)
    o.sites = n


def c09e(ctx):
    prog = ctx.prog
    o = ctx.ob("C09.e", "key-of-set/epochs", "K5", "staged set operations carry the recording batch's epoch; FlushUpTo carries the committed epoch")
    n = 0
    for fn in ("<CacheKeyOfSetMap as KeyOfSetMap>::insert", "<CacheKeyOfSetMap as KeyOfSetMap>::remove"):
        b = ctx.touch(prog.coroutine_of(fn))
        ap = b.calls_to(r"CacheKeyOfSetMap::<K, C, Db>::apply_op$")
        n += len(ap)
        if len(ap) != 1 or not any(x.kind == "call" and (x.callee() or "").endswith("WriteBatch::<Db>::epoch") for x in df.origins_of_operand(b, ap[0].node["args"][3])):
            ctx.fail(o, Site(b, 0, 0), "%s does not stamp the staged operation with write_batch.epoch()" % fn)
    b = ctx.touch(prog.body("CacheKeyOfSetMap::apply_op"))
    vo = b.aggregates(r"key_of_set_map::cache::VersionedOperation$")
    n += len(vo)
    if len(vo) != 1 or not all(x.kind == "param" for x in df.origins_of_operand(b, vo[0].node["rv"]["ops"][1])):
        ctx.fail(o, Site(b, 0, 0), "apply_op does not store the given epoch in the VersionedOperation")
    # the staged op is appended before the cache entry is touched (the log is the anchor)
    apm = b.calls_to(r"ConcurrentLog::<V>::apply_message$")
    cg = b.calls_to(r"tiny_lfu::TinyLFU::<K, V, L>::get$")
    n += len(apm) + len(cg)
    if len(apm) != 1 or len(cg) != 1 or not b.site_dominates(apm[0], cg[0]) or b.must_pass([0], [apm[0].bb]):
        ctx.fail(o, Site(b, 0, 0), "apply_op must append the operation to the staging log on every path, before consulting the cache")
    b = ctx.touch(prog.body("Repr::flush_staging"))
    fu = b.aggregates(r"key_of_set_map::cache::ConcurrentLogMessage$", "FlushUpTo")
    n += len(fu)
    if len(fu) != 1 or not all(x.kind == "param" for x in df.origins_of_operand(b, fu[0].node["rv"]["ops"][0])):
        ctx.fail(o, Site(b, 0, 0), "flush_staging does not flush up to the committed epoch")
    # the heap trims `epoch <= flushed`
    h = ctx.touch(prog.body("ConcurrentLog::apply_message_to_heap"))
    le = h.calls_to(r"core::cmp::PartialOrd::le$")
    pops = h.calls_to(r"BinaryHeap::<T(, A)?>::pop$")
    n += len(le) + len(pops)
    if len(le) != 1 or len(pops) != 1:
        ctx.fail(o, Site(h, 0, 0), "apply_message_to_heap: expected `peek.epoch <= epoch` guarding pop")
    else:
        sw = le[0].node["t"]
        tt, ft = df.bool_edges(h, sw) if h.blocks[sw]["term"]["k"] == "switch" else (None, None)
        if tt is None or not h.edge_dominates((sw, tt), pops[0].bb):
            ctx.fail(o, pops[0], "staged operations are popped without `epoch <= flushed epoch`")


UNORDERED_TY = re.compile(r"BinaryHeap<|HashMap<|HashSet<|DashMap<|DashSet<|hash_map::|hash_set::|binary_heap::")
ACC_READ = re.compile(r"::(remove|insert|contains|contains_key|get|take|replace|pop)$")
ACC_WRITE = re.compile(r"::(remove|insert|push|push_back|extend|clear|pop|retain)$")


def order_sensitive_folds(prog, crates):
    """Loops over an unordered collection (hash containers, BinaryHeap::iter) whose body branches on the
    result of reading/updating a loop-carried accumulator and then updates an accumulator: the result of
    such a fold depends on the iteration order."""
    out = []
    examined = 0
    for b in prog.all_bodies(crates):
        for lp in df.iter_loops(b):
            # is the iterated source an unordered collection?
            unordered = False
            for o in lp.src:
                if o.kind == "call":
                    for a in o.site.node["args"][:1]:
                        l = op_local(a)
                        if l is not None and UNORDERED_TY.search(b.locals[l]["ty"]):
                            unordered = True
                    if UNORDERED_TY.search(o.callee() or "") and re.search(r"::(iter|keys|values|drain|into_iter)$", o.callee() or ""):
                        unordered = True
            tyl = op_local(lp.head.node["args"][0])
            if tyl is not None and UNORDERED_TY.search(b.locals[tyl]["ty"]):
                unordered = True
            if not unordered:
                continue
            examined += 1
            reg = lp.region()

            def loop_carried(site):
                # receiver is a local (or a reference to one) that is assigned before the loop
                os_ = df.origins_of_operand(b, site.node["args"][0])
                for x in os_:
                    if x.kind in ("call", "agg") and x.site is not None and x.site.bb not in reg and b.site_dominates(x.site, lp.head):
                        return True
                return False
            reads = [s for s in b.calls() if s.bb in reg and ACC_READ.search(s.node["fn"]["path"]) and s.node["args"] and loop_carried(s)]
            writes = [s for s in b.calls() if s.bb in reg and ACC_WRITE.search(s.node["fn"]["path"]) and s.node["args"] and loop_carried(s)]
            for r in reads:
                for sb in df.switches(b):
                    if sb not in reg or not b.bb_dominates(r.bb, sb):
                        continue
                    os_ = df.origins_of_operand(b, b.blocks[sb]["term"]["op"], extra_transparent=[(r"core::ops::bit::Not::not$", None), (r"core::option::Option::<[^>]*>::(is_some|is_none)$", [0])])
                    if not any(x.kind == "call" and x.site == r for x in os_):
                        continue
                    # a write to an accumulator on only one side of the branch
                    edges = df.switch_edges(b, sb)
                    sides = []
                    for v, tb in edges:
                        rr = b.reachable([tb], removed_nodes=[sb, lp.head.bb])
                        sides.append(frozenset(w for w in writes if w.bb in rr and w != r))
                    if len(set(sides)) > 1:
                        out.append((b, lp, r, sb))
    return out, examined


def c09f(ctx):
    prog = ctx.prog
    o = ctx.ob("C09.f", "staging-overlay/no-order-sensitive-fold-over-unordered-iteration", "K4+K5",
               "no fold whose updates depend on the accumulator's state iterates a collection without a defined order (heap / hash iteration)")
    hits, examined = order_sensitive_folds(prog, ["qbice_storage", "qbice"])
    o.sites = examined
    if examined < 10:
        ctx.fail(o, "(program)", "only %d loops over unordered collections examined (expected >= 10)" % examined)
    for b, lp, r, sb in hits:
        ctx.touch(b)
        oo = ctx.ob("C09.f", "order-sensitive-fold/%s" % b.name, "K4+K5", o.desc)
        oo.sites = 1
        ctx.fail(oo, r, "%s folds an unordered iteration (line %d) with an update that depends on what was folded before (%s decides which accumulator is written): the result depends on "
                 "the container's internal order — for the key-of-set staging overlay a remove/insert pair replayed in the wrong order makes a present element look absent" % (
                     b.name, lp.head.line, r.node["fn"]["path"].rsplit("::", 1)[-1]))
    # the overlay is replayed in issue order: sorted by (epoch, sequence) before folding
    o2 = ctx.ob("C09.f", "get_snapshot/replay-in-issue-order", "K5", "the staging overlay replays the staged operations sorted by (epoch, issue sequence)")
    b = ctx.touch(prog.body("ConcurrentLog::get_snapshot"))
    sorts = b.calls_to(r"::sort(_unstable)?_by_key$|::sort(_unstable)?_by$|::into_sorted_vec$")
    o2.sites = len(sorts)
    loops = [lp for lp in df.iter_loops(b)]
    if len(sorts) != 1 or not loops:
        ctx.fail(o2, Site(b, 0, 0), "get_snapshot does not sort the staged operations before replaying them")
    else:
        # the fold loop iterates the sorted vector
        fold = [lp for lp in loops if any(s.bb in lp.region() for s in b.calls_to(r"HashSet::<T, S(, A)?>::(insert|remove)$"))]
        if len(fold) != 1 or not b.site_dominates(sorts[0], fold[0].head):
            ctx.fail(o2, sorts[0], "the overlay fold does not run after the sort")
        else:
            src = {x.site for x in fold[0].src if x.kind == "call"}
            sorted_src = {x.site for x in df.origins_of_operand(b, sorts[0].node["args"][0]) if x.kind == "call"}
            if not (src & sorted_src):
                ctx.fail(o2, fold[0].head, "the overlay fold iterates something other than the sorted operations")
        cl = [c for c in prog.find(r"^ConcurrentLog::get_snapshot::\{closure#\d+\}$")]
        keyed = False
        for c in cl:
            ap = []
            for bi in c.live_blocks:
                for st in c.blocks[bi]["stmts"]:
                    if st["k"] == "assign":
                        ap.append(str(st["rv"]))
            txt = " ".join(ap)
            if "f:epoch" in txt and "f:sequence" in txt:
                keyed = True
        if not keyed:
            ctx.fail(o2, sorts[0], "the sort key is not (epoch, sequence): operations of one batch (equal epochs) would be replayed in arbitrary order")
    # every staged operation gets a fresh sequence number
    ap = ctx.touch(prog.body("CacheKeyOfSetMap::apply_op"))
    vo = ap.aggregates(r"key_of_set_map::cache::VersionedOperation$")
    if len(vo) == 1:
        f = vo[0].node["rv"]["fields"]
        if "sequence" not in f or not any(x.kind == "call" and (x.callee() or "").endswith("fetch_add") for x in df.origins_of_operand(ap, vo[0].node["rv"]["ops"][f.index("sequence")])):
            ctx.fail(o2, vo[0], "staged operations are not stamped with an issue sequence number")


def c09g_batch(ctx):
    """Clauses added after the exploratory (challenge) mutants: what a write batch hands to the store."""
    prog = ctx.prog
    # ---- coalescing inside one batch keeps the LATEST operation on a key / element
    o = ctx.ob("C09.g", "batch/coalescing-keeps-the-latest-operation", "K3",
               "within a batch a later operation on the same key (or set element) overwrites the earlier one: the per-batch maps are written with HashMap::insert only")
    for fn in ("TypedWideColumnWrites::insert", "TypedKeyOfSetWrites::insert"):
        b = ctx.touch(prog.body(fn))
        ins = b.calls_to(r"HashMap::<K, V, S(, A)?>::insert$")
        keep_first = b.calls_to(r"Entry::<[^>]*>::(or_insert|or_insert_with|or_insert_with_key|or_default)$|::try_insert$|OccupiedEntry::<[^>]*>::get$")
        o.sites += len(ins) + len(keep_first)
        if not ins:
            ctx.fail(o, Site(b, 0, 0), "%s does not overwrite the recorded operation with HashMap::insert" % fn)
        elif b.must_pass([0], [i_.bb for i_ in ins]):
            ctx.fail(o, Site(b, 0, 0), "%s can return without having recorded the operation (an arm without HashMap::insert): that write never reaches the store" % fn)
        for s_ in b.calls_to(r"Entry::<[^>]*>::(or_insert|or_insert_with|or_insert_with_key|or_default)$|::try_insert$"):
            # or_default()/or_insert on the *outer* (per-key) map is fine when its result is then written with insert
            if not any(k == "arg" and st.node["fn"]["path"].endswith("::insert") for k, st, i in df.forward_uses(b, s_)):
                ctx.fail(o, s_, "%s keeps the FIRST operation recorded for a key/element (%s): `insert; remove` in one batch persists the insert" % (fn, short(s_.node["fn"]["path"])))
    # ---- both write families of a batch are serialised and notified
    o = ctx.ob("C09.g", "batch/every-write-family-serialised-and-notified", "K3",
               "WriteBatch::write_to_db and ::after_commit visit every *Writes field of the batch")
    adt = next((v for k, v in prog.adts.items() if k.endswith("write_behind::WriteBatch")), None)
    fams = [f["name"] for f in adt["variants"][0]["fields"] if "Writes<" in f["ty"]] if adt else []
    o.sites = len(fams)
    if len(fams) < 2:
        ctx.fail(o, "(program)", "anchor missing: the *Writes fields of write_behind::WriteBatch (found %s)" % fams)
    for fn, callee in (("WriteBatch::write_to_db", r"Writes::<Db>::write_to_db$"), ("WriteBatch::after_commit", r"Writes::<Db>::after_commit$")):
        cands = [x for x in prog.by_name.get(fn, []) if "write_behind" in x.file]
        if len(cands) != 1:
            ctx.fail(o, "(program)", "anchor missing: %s" % fn)
            continue
        b = ctx.touch(cands[0])
        seen = set()
        for s_ in b.calls_to(callee):
            seen |= set(df.access_path(b, s_.node["args"][0]))
            if b.must_pass([0], [s_.bb]):
                ctx.fail(o, s_, "%s does not reach %s on every path" % (fn, short(s_.node["fn"]["path"])))
        for f in fams:
            if f not in seen:
                ctx.fail(o, Site(b, 0, 0), "%s skips `%s`: those writes are never %s" % (fn, f, "persisted" if fn.endswith("write_to_db") else "un-pinned / flushed from the staging log"))


def c09g_order(ctx):
    """Operations migrate from the staging log to the store (commit, then flush of the log).  A reader that merges both
    must sample the *source* first: staging snapshot, then store.  The other way round an operation that is committed and
    flushed between the two samples is in neither — a staged insert disappears, a staged remove comes back."""
    prog = ctx.prog
    o = ctx.ob("C09.g", "key-of-set/staging-sampled-before-the-store", "K1+K2",
               "CacheKeyOfSetMap::get_entry snapshots the staging log on every path before it returns, and get never snapshots after scanning the store")
    ge = ctx.touch(prog.coroutine_of("CacheKeyOfSetMap::get_entry"))
    snaps = ge.calls_to(r"CacheKeyOfSetMap::<K, C, Db>::get_staging_snapshot$")
    lookups = ge.calls_to(r"tiny_lfu::TinyLFU::<K, V, L>::get$")
    o.sites = len(snaps) + len(lookups)
    if not snaps:
        ctx.fail(o, Site(ge, 0, 0), "get_entry does not snapshot the staging log")
    else:
        bad = ge.must_pass([0], [s_.bb for s_ in snaps])
        if bad:
            ctx.fail(o, Site(ge, bad[0], 0), "get_entry can return without a staging snapshot taken before the cache / store were consulted")
        for l_ in lookups:
            if not any(ge.site_dominates(s_, l_) for s_ in snaps):
                ctx.fail(o, l_, "get_entry consults the cache before it snapshots the staging log")
    g = ctx.touch(prog.coroutine_of("<CacheKeyOfSetMap as KeyOfSetMap>::get"))
    scans = g.calls_to(r"KvDatabase::scan_members$")
    o.sites += len(scans)
    if not scans:
        ctx.fail(o, Site(g, 0, 0), "anchor missing: the store scan of the TooLarge path in get")
    # snapshot sites in get itself or inside closures it builds
    late = list(g.calls_to(r"CacheKeyOfSetMap::<K, C, Db>::get_staging_snapshot$"))
    for c in prog.bodies.values():
        if c.parent == g.key and c.calls_to(r"CacheKeyOfSetMap::<K, C, Db>::get_staging_snapshot$"):
            late += g.assigns(lambda st, c=c: st["rv"]["k"] == "agg" and st["rv"].get("ak") in ("closure", "coroutine") and st["rv"].get("def") == c.key)
    for sc in scans:
        r = g.reachable([sc.bb])
        for t in late:
            if t.bb in r:
                ctx.fail(o, t, "get samples the staging log after it opened the store scan: an operation committed and flushed in between is missing from both")


def c09h(ctx):
    """The in-memory engine's key-of-set map has no batch and no store behind it: an insert that returns without having
    put the element into the set has lost it for good (a missing backward edge: the caller is never marked dirty)."""
    prog = ctx.prog
    o = ctx.ob("C09.h", "in-memory/insert-reaches-the-set-on-every-path", "K2", "InMemoryKeyOfSetMap::insert calls insert_element on every path to its return")
    b = ctx.touch(prog.coroutine_of("<InMemoryKeyOfSetMap as KeyOfSetMap>::insert"))
    ins = b.calls_to(r"ConcurrentSet::insert_element$")
    o.sites = len(ins)
    if not ins:
        ctx.fail(o, Site(b, 0, 0), "InMemoryKeyOfSetMap::insert never inserts the element")
    else:
        bad = b.must_pass([0], [s_.bb for s_ in ins])
        if bad:
            ctx.fail(o, Site(b, bad[0], 0), "InMemoryKeyOfSetMap::insert can return without having inserted the element into the set")
        for s_ in ins:
            if not any(x.kind == "param" for x in df.origins_deep(prog, b, s_.node["args"][1])):
                ctx.fail(o, s_, "what is inserted is not the element that was passed in")
        # a set that did not exist is published in the map: the Vacant arm inserts it on every path
        pub = b.calls_to(r"VacantEntry::<[^>]*>::insert_entry$")
        vac = [(sb, tb) for sb, tb, v, c in df.variant_edges(b, "hash_map::Entry") if v == 1]
        o.sites += len(pub)
        if not pub or not vac:
            ctx.fail(o, Site(b, 0, 0), "anchor missing: the Vacant arm of InMemoryKeyOfSetMap::insert (insert_entry=%d, Vacant edges=%d)" % (len(pub), len(vac)))
        else:
            for sb, tb in vac:
                if b.must_pass([tb], [p_.bb for p_ in pub]):
                    ctx.fail(o, Site(b, tb, 0), "InMemoryKeyOfSetMap::insert creates a new set for a key but can return without publishing it in the map: the element is lost")


def c09h_remove(ctx):
    """... and a remove that finds the key's set takes the element out of it (else a dropped dependency keeps dirtying a
    caller that no longer reads the callee, and a read of the set returns a member that was removed)."""
    prog = ctx.prog
    o = ctx.ob("C09.h", "in-memory/remove-reaches-the-set", "K2", "InMemoryKeyOfSetMap::remove calls remove_element whenever the key has a set")
    b = ctx.touch(prog.coroutine_of("<InMemoryKeyOfSetMap as KeyOfSetMap>::remove"))
    rm = b.calls_to(r"ConcurrentSet::remove_element$")
    some = [(sb, tb) for sb, tb, v, c in df.variant_edges(b, "core::option::Option") if v == 1]
    o.sites = len(rm) + len(some)
    if not rm or not some:
        ctx.fail(o, Site(b, 0, 0), "InMemoryKeyOfSetMap::remove never removes the element from the key's set (remove_element=%d, Some edges=%d)" % (len(rm), len(some)))
        return
    for sb, tb in some:
        if b.must_pass([tb], [s_.bb for s_ in rm]):
            ctx.fail(o, Site(b, tb, 0), "InMemoryKeyOfSetMap::remove finds the key's set and can return without removing the element")


def c09i(ctx):
    """The merging reader of a key-of-set entry drains several sources in turn (the half-built set of a spilled load, the
    rest of the database scan, the staged additions) and drops the members that have a staged Remove.  Dropping one member
    must not end the drain of its source: the rejecting path has to come back to the same source's `next` - a filter
    applied to a single `next()` hands the turn to the following sources, and when those are exhausted the iterator ends
    with members of the first source still unread (D10)."""
    prog = ctx.prog
    o = ctx.ob("C09.i", "merge/filtered-source-is-drained-in-a-loop", "K2+K6", "in MergeIterator::next every source whose items are filtered against the staged removals is re-polled after a rejected item")
    bs = [b for b in prog.find(r"MergeIterator as Iterator>::next$")]
    if len(bs) != 1:
        ctx.fail(o, "(program)", "anchor missing: <MergeIterator as Iterator>::next (found %d)" % len(bs))
        return
    b = ctx.touch(bs[0])
    nexts = b.calls_to(r"iterator::Iterator::next$")
    def on_field(s_, name):
        ap = [e for e in df.access_path(b, s_.node["args"][0]) if not e.startswith("<")]
        return bool(ap) and ap[-1] == name
    setops = b.calls_to(r"HashSet::<T, S, A>::(contains|remove)$")
    filters = [s_ for s_ in setops if on_field(s_, "removed")]          # the staged removals are the filter
    taken = [s_ for s_ in setops if on_field(s_, "added")]              # the staged additions are de-duplicated (D16)
    o.sites = len(filters)
    if len(filters) < 3 or len(nexts) < 3:
        ctx.fail(o, Site(b, 0, 0), "expected >= 3 filtered sources (spilled half, spilled rest, streaming scan), found %d filters over %d next() calls" % (len(filters), len(nexts)))
        return
    for f in filters:
        dom = [n for n in nexts if b.site_dominates(n, f)]
        if not dom:
            ctx.fail(o, f, "the staged-removal filter is applied to something that does not come from a source's next()")
            continue
        # nearest dominating poll
        n = [x for x in dom if all(y == x or b.site_dominates(y, x) for y in dom)][0]
        if n.bb not in b.reachable(b.successors(f.bb)):
            ctx.fail(o, n, "MergeIterator::next polls this source once and filters the item against the staged removals without coming back to it: a rejected member hands the "
                     "turn to the later sources, and once those are exhausted the iterator ends although members of this source remain - a read of a spilled set with "
                     "staged removes loses committed members")
    # ---- D16: a member yielded from a store source is first taken out of the staged additions (else it is yielded twice)
    o2 = ctx.ob("C09.i", "merge/store-member-is-taken-out-of-the-staged-additions", "K1",
                "every accepted member of a filtered store source passes HashSet::remove on the staged additions before it is returned")
    o2.sites = len(taken)
    oks = b.aggregates(r"core::option::Option$", "Some")
    for f in filters:
        # the blocks that return this source's item: Some(..) aggregates reachable from the filter without going through
        # another source's poll
        rets = [k for k in oks if k.bb in b.reachable(b.successors(f.bb), removed_nodes=[n_.bb for n_ in nexts])]
        for k in rets:
            if not any(b.site_dominates(t_, k) and t_.bb in b.reachable(b.successors(f.bb)) for t_ in taken):
                ctx.fail(o2, k, "MergeIterator::next returns a member of the store scan without taking it out of the staged additions: a member that is in the store and staged as an "
                         "addition (inserted again before the first insert left the log) is yielded twice - the read has more items than the set has members")


def c09k(ctx):
    """K4.  The writer of a key-of-set entry appends its operation to the staging log and then patches the cached set - only if
    one is cached ("we do not load from the DB if missing").  The cold loader samples the staging log, scans the store,
    overlays the sample and publishes the set.  Nothing orders the two: an operation appended after the loader's sample and
    looked for before the loader's publication is in neither the sample nor the store nor patched in, and a cache hit on
    an in-memory set applies no overlay - every later read of the key misses the element (or keeps the removed one) until
    the entry is evicted, also after the operation reached the store.  In the shape of the code the pair is ordered when
    (1) the loader samples the log inside the single-flight it registered (so that a later append can find the flight) and
    (2) the writer consults that single-flight between its append and its cache lookup."""
    prog = ctx.prog
    o = ctx.ob("C09.k", "key-of-set/cold-load-and-concurrent-write-are-ordered", "K2+K8",
               "get_entry samples the staging log inside its single-flight closure and apply_op consults the single-flight between the append and the cache lookup")
    ge = [b for b in prog.find(r"^CacheKeyOfSetMap::get_entry::\{closure#0\}$")]
    ao = [b for b in prog.find(r"^CacheKeyOfSetMap::apply_op$")]
    if len(ge) != 1 or len(ao) != 1:
        ctx.fail(o, "(program)", "anchor missing: CacheKeyOfSetMap::get_entry / apply_op (%d / %d)" % (len(ge), len(ao)))
        return
    g, a = ctx.touch(ge[0]), ctx.touch(ao[0])
    wow = g.calls_to(r"single_flight::SingleFlight::<K>::wait_or_work$")
    app = a.calls_to(r"ConcurrentLog::<V>::apply_message$")
    look = a.calls_to(r"tiny_lfu::TinyLFU::<K, V, L>::get$")
    o.sites = len(wow) + len(app) + len(look)
    if len(wow) != 1 or not app or len(look) != 1:
        ctx.fail(o, Site(g, 0, 0), "anchor missing: wait_or_work in get_entry / apply_message + cache lookup in apply_op (%d / %d / %d)" % (len(wow), len(app), len(look)))
        return
    # (1) the loader's sample is taken by the work closure
    work = None
    for x in df.origins_of_operand(g, wow[0].node["args"][2] if len(wow[0].node["args"]) > 2 else wow[0].node["args"][-1]):
        if x.kind == "agg" and x.site.node["rv"].get("ak") == "closure":
            work = prog.bodies.get(x.site.node["rv"].get("def"))
    inside = bool(work is not None and ctx.touch(work).calls_to(r"CacheKeyOfSetMap::<K, C, Db>::get_staging_snapshot$"))
    # (2) the writer looks at the single-flight after the append and before the lookup
    sf = [s_ for s_ in a.calls_to(r"single_flight::SingleFlight::<K>::[a-z_]+$") if any(a.site_dominates(x, s_) for x in app) and a.site_dominates(s_, look[0])]
    if not inside or not sf:
        ctx.fail(o, look[0], "CacheKeyOfSetMap: %s%s%s - an operation issued while the key's set is being loaded can be lost from the cached set for as long as it stays "
                 "cached (the loader's sample predates it, the writer finds nothing to patch)" % (
                     "" if inside else "get_entry samples the staging log before it registers its single-flight", "" if inside or sf else "; ",
                     "" if sf else "apply_op goes from the log append straight to the cache lookup without consulting the key's single-flight"))


def c09m(ctx):
    """K7.  WideColumnCache::get fills a miss from the store: it reads the store (init), and inserts the result if the entry is
    still vacant.  Writers always write into the cache, so a write during the load makes the entry occupied and the fill is
    skipped (C09.c).  But the written entry can be committed, un-pinned and EVICTED while the loader is still between its store
    read and its fill: the entry is vacant again and the loader installs what it read before the write - with pin 0, so it
    stays: later reads return a value older than a committed write.  As for the key-of-set map (K4), the pair is ordered in
    the shape of the code only if the writers tell an in-flight load of the key that it is outdated (they consult the key's
    single-flight) or the fill re-validates against a version."""
    prog = ctx.prog
    o = ctx.ob("C09.m", "wide-column/late-fill-is-ordered-with-writes", "K8", "WideColumnCache::insert and ::remove consult the key's single-flight (or the fill re-validates), so that a load that predates the write cannot publish")
    ws = [b for b in prog.all_bodies(["qbice_storage"]) if re.match(r"^WideColumnCache::(insert|remove)$", b.name)]
    g = [b for b in prog.find(r"^WideColumnCache::get::\{closure#0\}$")]
    o.sites = len(ws)
    if len(ws) != 2 or len(g) != 1 or not ctx.touch(g[0]).calls_to(r"single_flight::SingleFlight::<K>::wait_or_work$"):
        ctx.fail(o, "(program)", "anchor missing: WideColumnCache::insert / ::remove / ::get with its single-flight (%d writers, %d loader)" % (len(ws), len(g)))
        return
    bad = [b for b in ws if not ctx.touch(b).calls_to(r"single_flight::SingleFlight::<K>::[a-z_]+$")]
    if not bad:
        # the repaired protocol (D20) in full: (1) writers mark the flight AFTER their write into the cache; (2) the loader looks
        # into the cache again inside its flight, before it reads the store; (3) the fill is published under the flight's mark
        for b in ws:
            wr = b.calls_to(r"tiny_lfu::TinyLFU::<K, V, L>::entry$")
            inv = b.calls_to(r"single_flight::SingleFlight::<K>::[a-z_]+$")
            o.sites += len(wr) + len(inv)
            if not wr or not all(any(b.site_dominates(w_, i_) for w_ in wr) for i_ in inv):
                ctx.fail(o, inv[0], "%s marks the key's in-flight load BEFORE writing into the cache: a load that registers in between misses both the mark and the entry" % b.name)
        work = [x for x in prog.find(r"^WideColumnCache::get::\{closure#0\}::\{closure#\d+\}$") if x.calls_to(r"core::ops::function::Fn::call$|FnOnce::call_once$")]
        if len(work) != 1:
            ctx.fail(o, Site(g[0], 0, 0), "anchor missing: the single-flight work closure of WideColumnCache::get (found %d)" % len(work))
        else:
            w = ctx.touch(work[0])
            init = w.calls_to(r"core::ops::function::Fn::call$|FnOnce::call_once$")
            look = w.calls_to(r"tiny_lfu::TinyLFU::<K, V, L>::(entry|get|get_map)$")
            pub = w.calls_to(r"single_flight::Flight::publish$")
            o.sites += len(init) + len(look) + len(pub)
            if not any(w.site_dominates(l_, init[0]) for l_ in look):
                ctx.fail(o, init[0], "WideColumnCache::get reads the store without having looked into the cache again inside its flight: a write made before the flight was registered "
                         "cannot mark it, and is missed when it is committed and evicted before the fill")
            if not pub or not all(w.site_dominates(init[0], p_) for p_ in pub):
                ctx.fail(o, init[0], "WideColumnCache::get does not publish its fill through the flight's mark (Flight::publish after the store read)")
    if bad:
        ctx.fail(o, Site(bad[0], 0, 0), "WideColumnCache::%s never tell a load of the same key that is in flight that it is outdated: a write that is committed, un-pinned and evicted while the "
                 "loader sits between its store read and its fill is followed by the loader installing the older value (pin 0), and reads keep returning it" %
                 " / ::".join(b.name.split("::")[-1] for b in bad))


def c09n(ctx):
    """The staging overlay of a key-of-set entry is two sets built by replaying the log: an Insert takes the element out of
    `removed` and puts it into `added`; a Remove takes it out of `added` and puts it into `removed`.  If one of the four
    updates is missing the overlay is wrong in one direction only (a staged remove that is not recorded leaves the member
    readable from the store; a staged insert that does not cancel an earlier remove hides a member) - nothing the
    existing tests look at."""
    prog = ctx.prog
    o = ctx.ob("C09.n", "staging/snapshot-replays-both-halves-of-every-operation", "K8", "get_snapshot: Insert = removed.remove + added.insert, Remove = added.remove + removed.insert")
    b = ctx.touch(prog.body("ConcurrentLog::get_snapshot"))
    ag = b.aggregates(r"StagingShapshot$")
    if len(ag) != 1:
        ctx.fail(o, Site(b, 0, 0), "anchor missing: the StagingShapshot aggregate of get_snapshot")
        return
    rv = ag[0].node["rv"]
    role = {}
    for f, op_ in zip(rv["fields"], rv["ops"]):
        for x in df.origins_of_operand(b, op_):
            if x.kind == "call":
                role[(x.site.bb, x.site.idx)] = f
    arms = {}
    for sb, tb, v, c in df.variant_edges(b, "cache::Operation"):
        if v != "otherwise":
            arms[int(v)] = (sb, tb)
    if set(arms) != {0, 1} or set(role.values()) != {"added", "removed"}:
        ctx.fail(o, Site(b, 0, 0), "anchor missing: the match on Operation / the two sets of get_snapshot")
        return
    seen = set()
    for s_ in b.calls_to(r"HashSet::<T, S, A>::(insert|remove)$"):
        which = None
        for x in df.origins_of_operand(b, s_.node["args"][0]):
            if x.kind == "call" and (x.site.bb, x.site.idx) in role:
                which = role[(x.site.bb, x.site.idx)]
        m = s_.node["fn"]["path"].rsplit("::", 1)[-1]
        for v, (sb, tb) in arms.items():
            other = arms[1 - v][1]
            if s_.bb in b.reachable([tb], removed_nodes=[sb]) and s_.bb not in b.reachable([other], removed_nodes=[sb]):
                seen.add((("Insert", "Remove")[v], which, m))
    o.sites = len(seen)
    want = {("Insert", "removed", "remove"), ("Insert", "added", "insert"), ("Remove", "added", "remove"), ("Remove", "removed", "insert")}
    missing = want - seen
    extra = {x for x in seen if x not in want}
    if missing or extra:
        ctx.fail(o, ag[0], "ConcurrentLog::get_snapshot does not replay both halves of every staged operation (missing: %s%s): the overlay of a key's set is wrong in one direction - "
                 "a staged remove that is not recorded leaves the member readable from the store, an insert that does not cancel an earlier remove hides it" % (
                     sorted("%s: %s.%s" % x for x in missing), "; unexpected: %s" % sorted("%s: %s.%s" % x for x in extra) if extra else ""))


def c09o(ctx):
    """The per-key flight record is what a writer marks and what a loader publishes under.  It is registered by the loader that
    becomes the worker and unregistered BY KEY by that same worker when its work is done.  Nobody else may take a record out
    of the map: if a writer detaches the flight it marks, a second loader can register for the key while the first worker is
    still running, the first worker's clean-up then removes the SECOND loader's record, a later write finds nothing to mark,
    and the second loader publishes a value it read before that write."""
    prog = ctx.prog
    o = ctx.ob("C09.o", "single-flight/only-the-worker-unregisters-its-flight", "K3", "the flight map is removed from only in the worker path of SingleFlight::wait_or_work, and invalidate only marks")
    n = 0
    for b in prog.all_bodies(["qbice_storage"]):
        if not (b.file or "").endswith("single_flight.rs"):
            continue
        for s_ in b.calls_to(r"HashMap::<K, V, S, A>::(remove|remove_entry|clear|drain|retain|extract_if)$|hash_map::OccupiedEntry::<.*>::remove(_entry)?$"):
            n += 1
            ctx.touch(b)
            if not b.name.startswith("SingleFlight::wait_or_work"):
                ctx.fail(o, s_, "%s takes a flight record out of the map: only the worker that registered it may (by key, when its work is done) - a detached flight lets a second load "
                         "register while the first is running, the first worker's clean-up removes the second's record, and a write made then can no longer mark the load it outdates" % b.name)
    inv = prog.body("SingleFlight::invalidate")
    ctx.touch(inv)
    if not inv.calls_to(r"Mutex::<R, T>::lock$"):
        ctx.fail(o, Site(inv, 0, 0), "SingleFlight::invalidate no longer marks the flight under its mutex")
    o.sites = n
    if n < 1:
        ctx.fail(o, "(program)", "anchor missing: the worker's unregistration in SingleFlight::wait_or_work")


def c09g_staging(ctx):
    prog = ctx.prog
    # ---- a staging snapshot first applies the deferred messages
    o = ctx.ob("C09.g", "staging/snapshot-applies-deferred-messages-first", "K1",
               "ConcurrentLog::get_snapshot drains the deferred-message queue (fix) before it reads the log")
    b = ctx.touch(prog.body("ConcurrentLog::get_snapshot"))
    fx = b.calls_to(r"ConcurrentLog::<V>::fix$")
    rd = b.calls_to(r"BinaryHeap::<T(, A)?>::(iter|into_sorted_vec|into_vec|drain|peek|clone)$|IntoIterator::into_iter$")
    o.sites = len(fx) + len(rd)
    if not fx or not rd:
        ctx.fail(o, Site(b, 0, 0), "get_snapshot must call fix() and then read the heap (fix=%d, reads=%d): operations deferred under contention would be invisible to readers" % (len(fx), len(rd)))
    else:
        for r_ in rd:
            if not any(b.site_dominates(f_, r_) for f_ in fx):
                ctx.fail(o, r_, "the log is read before the deferred messages were applied")
    # ---- a message for the staging log is never dropped: applied to the heap, or deferred when the heap is locked
    o = ctx.ob("C09.g", "staging/message-applied-or-deferred", "K2", "ConcurrentLog::apply_message hands every message either to the heap or to the deferred queue")
    am = ctx.touch(prog.body("ConcurrentLog::apply_message"))
    sinks = am.calls_to(r"ConcurrentLog::<V>::apply_message_to_heap$") + am.calls_to(r"SegQueue::<T>::push$")
    o.sites = len(sinks)
    if len(sinks) < 2 or am.must_pass([0], [s_.bb for s_ in sinks]):
        ctx.fail(o, Site(am, 0, 0), "ConcurrentLog::apply_message can return without applying or deferring the message: a staged operation issued while the log is being read is "
                 "lost, the key's readers never see that write until it is committed")
    # ---- a freshly loaded set is overlaid with BOTH halves of the staging snapshot
    o = ctx.ob("C09.g", "fetch_entry/overlays-added-and-removed", "K8",
               "fetch_entry inserts every staged addition and removes every staged removal from the set it loaded")
    b = ctx.touch(prog.body("CacheKeyOfSetMap::fetch_entry"))
    def overlay(callee, field):
        for s_ in b.calls_to(callee):
            for x in df.origins_of_operand(b, s_.node["args"][1]):
                if x.kind == "param":
                    pass
            if field in df.access_path(b, s_.node["args"][1]) or any(field in df.access_path(b, y.site.node["args"][0]) for y in df.origins_of_operand(b, s_.node["args"][1]) if y.kind == "call" and y.site.node["args"]):
                return s_
        return None
    # every member handed out by the store scan ends up in the loaded set (or, after the spill, in the remaining stream): the
    # element that trips the threshold was already taken from the iterator
    nx = [s_ for s_ in b.calls_to(r"Iterator::next$") if any(x.kind == "call" and (x.callee() or "").endswith("scan_members") for x in df.origins_of_operand(b, s_.node["args"][0]))]
    ins_scan = [s_ for s_ in b.calls_to(r"ConcurrentSet::insert_element$")
                if any(x.kind == "call" and (x.site in nx or (x.callee() or "").endswith("scan_members")) for x in df.origins_of_operand(b, s_.node["args"][1]))]
    if len(nx) != 1 or not ins_scan:
        ctx.fail(o, Site(b, 0, 0), "anchor missing: the scan loop of fetch_entry (next=%d, inserts of scanned members=%d)" % (len(nx), len(ins_scan)))
    else:
        some = [(sb, tb) for sb, tb, v, c in df.variant_edges(b, "Option") if v == 1 and b.site_dominates(nx[0], Site(b, sb, 0)) and nx[0].node["t"] == sb]
        for sb, tb in some:
            bad = b.must_pass([tb], [s_.bb for s_ in ins_scan], to_bbs=b.returns() + [nx[0].bb])
            if bad:
                ctx.fail(o, nx[0], "fetch_entry can take a member from the store scan and go on (or return the spilled state) without putting it into the set: that member is "
                         "in neither the buffered half nor the remaining stream")
    add = overlay(r"ConcurrentSet::insert_element$", "added")
    rem = overlay(r"ConcurrentSet::remove_element$", "removed")
    o.sites = int(add is not None) + int(rem is not None)
    if add is None:
        ctx.fail(o, Site(b, 0, 0), "fetch_entry does not insert the staged additions (snapshot.added) into the loaded set")
    if rem is None:
        ctx.fail(o, Site(b, 0, 0), "fetch_entry does not remove the staged removals (snapshot.removed) from the loaded set: an uncommitted remove is invisible after a cache miss")
    # ---- the staging pin counter is raised for every batch that newly records the key
    o = ctx.ob("C09.g", "apply_op/pin-counter-raised-under-updated", "K4",
               "apply_op raises `dirty` of an existing staging entry exactly when the batch newly recorded the key")
    c = ctx.touch(prog.body("CacheKeyOfSetMap::apply_op::{closure#0}"))
    fa = c.calls_to(r"core::sync::atomic::Atomic::<usize>::fetch_add$")
    o.sites = len(fa)
    if len(fa) != 1 or "dirty" not in df.access_path(c, fa[0].node["args"][0]):
        ctx.fail(o, Site(c, 0, 0), "apply_op's lookup of an existing staging entry does not raise its `dirty` counter: the later flush of this batch drops the counter below the "
                 "number of unflushed batches, the log is un-pinned early and evicted with uncommitted operations in it")
    else:
        g = [x for x in df.guarded_by(c, fa[0].bb, lambda cd: cd.kind in ("value", "param", "capture") or True) if x[3].kind != "disc"]
        if not g:
            ctx.fail(o, fa[0], "the counter is raised unconditionally (must depend on `updated`)")


def run(ctx):
    ctx.run_clause("C09.g", c09g_batch)
    ctx.run_clause("C09.g", c09g_staging)
    ctx.run_clause("C09.g", c09g_order)
    ctx.run_clause("C09.h", c09h)
    ctx.run_clause("C09.h", c09h_remove)
    ctx.run_clause("C09.i", c09i)
    ctx.run_clause("C09.n", c09n)
    ctx.run_clause("C09.k", c09k)
    ctx.run_clause("C09.m", c09m)
    ctx.run_clause("C09.o", c09o)
    # un-pin notifications release cached entries for eviction: they may only follow the commit of the data they cover, which
    # is decided in the committer (C10.a: apply the expected epoch, consume before listing for notification), here as C09.j
    from . import C10
    ctx.alias = {"C10.a": "C09.j"}
    ctx.run_clause("C09.j", C10.c10a)
    ctx.alias = {}
    # an entry whose owner reports it as pinned (an unflushed write) is never evicted - whatever message the policy is
    # processing: C16.a's who-may-remove / removal-requires-unpinned clauses, evaluated here as C09.l
    from . import C16
    ctx.alias = {"C16.a": "C09.l"}
    ctx.run_clause("C09.l", C16.c16a)
    ctx.alias = {}
    ctx.run_clause("C09.a", c09a)
    ctx.run_clause("C09.b", c09b)
    ctx.run_clause("C09.c", c09c)
    ctx.run_clause("C09.d", c09d)
    ctx.run_clause("C09.e", c09e)
    ctx.run_clause("C09.f", c09f)

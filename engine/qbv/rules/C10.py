"""C10 — write-behind applies every batch exactly once, in order, by shutdown (structural clauses)."""
import re

from .. import dataflow as df
from ..facts import Site, op_local, const_int

EXPLANATION = (
    "Static analysis over rustc's promoted MIR of qbice_storage::write_manager::write_behind. C10.a a pending batch is applied to the physical batch "
    "only on the `top.epoch == expected_epoch` branch and the expected epoch advances on that same path; the pending heap orders by reversed epoch "
    "(min-heap on a max-heap container). C10.b a logical batch is marked inactive only after its physical commit (return_buffer, and the "
    "shutting-down arms after commit). C10.c epochs come from one fetch_add and are assigned only when a buffer is handed out. C10.d a submitted "
    "batch flows unchanged through serialize -> commit (same buffer object in SerializeTask and WriteTask). C10.e ordered shutdown: close the "
    "channel, join serializers, join committer (whose exit path drains the heap and flushes), join notifier. C10.f at-most-once by ownership: "
    "submit takes the batch by value and WriteBatch is not Clone. Equality with the sequential model for all arrival orders is NOT decided.")

NOT_DECIDED = [
    "that the final store equals the sequential application for all submission orders, thread counts and physical groupings (needs execution/model checking)",
]
ASSUMPTIONS = ["crossbeam channels deliver every sent message before reporting disconnection", "std::collections::BinaryHeap is a max-heap"]

WB = "write_behind"


def c10a(ctx):
    prog = ctx.prog
    o = ctx.ob("C10.a", "process_pending_commits/apply-only-expected-epoch", "K4", "a batch is applied only when it is the next expected epoch, and the expectation advances with it")
    b = ctx.touch(prog.body("WriteBehind::process_pending_commits"))
    cons = b.calls_to(r"kv_database::WriteBatch::consume_serialization_buffer$")
    push = [s for s in b.calls_to(r"alloc::vec::Vec::<T(, A)?>::push$") if "processed_logical_batch" in df.access_path(b, s.node["args"][0])]
    pops = b.calls_to(r"BinaryHeap::<T(, A)?>::pop$")
    incq = lambda bd: bd.assigns(lambda st: st["rv"]["k"] == "bin" and st["rv"]["op"] in ("AddWithOverflow", "Add") and const_int(st["rv"]["b"]) == 1
                                 and "expected_epoch" in df.access_path(bd, st["rv"]["a"]))
    if not cons and not push and not incq(b) and len(pops) == 1:
        # the apply step may live in one helper of the same module that is handed the popped task (a behaviour-preserving
        # extraction): decide the helper's own order there and treat its call site as the site of the three anchors
        hs = _apply_helper(ctx, b, pops[0], incq)
        if hs is not None:
            return _c10a_through_helper(ctx, o, b, pops[0], hs, incq)
    o.sites = len(cons) + len(push) + len(pops)
    if len(cons) != 1 or len(push) != 1 or len(pops) != 1:
        ctx.fail(o, Site(b, 0, 0), "anchors missing in process_pending_commits (consume=%d push=%d pop=%d)" % (len(cons), len(push), len(pops)))
        return
    for s in (cons[0], push[0], pops[0]):
        if not df.dominated_by_equality(b, s.bb, "eq", lambda x, y: "epoch" in x.fields and "expected_epoch" in y.fields, prog):
            ctx.fail(o, s, "%s in process_pending_commits is not restricted to `top.epoch == expected_epoch`: a batch could be applied out of creation order "
                     "(an older value overwriting a newer one)" % s.node["fn"]["path"].rsplit("::", 1)[-1])
    # expected_epoch += 1 on the same path, before the loop tests again
    incs = b.assigns(lambda st: st["rv"]["k"] == "bin" and st["rv"]["op"] in ("AddWithOverflow", "Add") and const_int(st["rv"]["b"]) == 1
                     and "expected_epoch" in df.access_path(b, st["rv"]["a"]))
    o.sites += len(incs)
    if len(incs) != 1:
        ctx.fail(o, cons[0], "expected exactly one `expected_epoch += 1` (found %d)" % len(incs))
    else:
        pk = b.calls_to(r"BinaryHeap::<T(, A)?>::peek$")
        if len(pk) != 1:
            ctx.fail(o, Site(b, 0, 0), "anchor missing: heap peek")
        else:
            r = b.reachable([pops[0].node["t"]], removed_nodes=[incs[0].bb])
            if pk[0].bb in r:
                ctx.fail(o, incs[0], "the loop can test the next pending batch without having advanced expected_epoch")
    # a logical batch is listed for the after-commit (un-pin) notification only once its serialized writes sit in the physical
    # batch that the next flush commits: consume < push, and no flush between taking the task and consuming its buffer
    o3 = ctx.ob("C10.a", "process_pending_commits/consumed-before-listed-for-notification", "K1",
                "consume_serialization_buffer precedes the push onto processed_logical_batch and every flush of the same iteration")
    fl = b.calls_to(r"CurrentBatch::<Db>::flush$")
    o3.sites = 1 + len(fl)
    if not b.site_dominates(cons[0], push[0]):
        ctx.fail(o3, push[0], "a logical batch is listed for after-commit notification before its writes were moved into the physical batch: a flush in between "
                 "un-pins its cache entries while its data is still uncommitted (evicted, then read back stale from the store)")
    for f_ in fl:
        r2 = b.reachable([pops[0].node["t"]], removed_nodes=[cons[0].bb])
        if f_.bb in r2 and not b.site_dominates(cons[0], f_):
            ctx.fail(o3, f_, "the physical batch can be flushed between taking a task off the heap and consuming its buffer: the task's logical batch is notified as committed "
                     "although its writes go into the NEXT physical batch")
    # the consumed buffer and the pushed batch belong to the popped task
    for s, idx in ((cons[0], 1), (push[0], 1)):
        if not any(x.kind == "call" and x.site == pops[0] for x in df.origins_of_operand(b, s.node["args"][idx])):
            ctx.fail(o, s, "process_pending_commits applies something other than the popped task")
    _c10a_rest(ctx, b)


def _c10a_rest(ctx, b):
    prog = ctx.prog
    # the function gives up only when nothing is ready: heap empty, or its top is not the expected epoch
    o2 = ctx.ob("C10.a", "process_pending_commits/drains-until-nothing-is-ready", "K2",
                "process_pending_commits returns only over `heap is empty` or `top.epoch != expected_epoch` (every ready batch is applied before it gives up)")
    exits = []
    for sb, tb, rel, da, db_ in df.equality_edges(b, prog):
        if rel == "ne" and (("epoch" in da.fields and "expected_epoch" in db_.fields) or ("epoch" in db_.fields and "expected_epoch" in da.fields)):
            exits.append((sb, tb))
    pk = b.calls_to(r"BinaryHeap::<T(, A)?>::peek$")
    for sb, tb, v, c in df.variant_edges(b, "Option"):
        if v == 0 and pk and any(x.kind == "call" and x.site == pk[0] for x in df.origins_of_place(b, c.place)):
            exits.append((sb, tb))
    o2.sites = len(exits)
    if len(exits) < 2:
        ctx.fail(o2, Site(b, 0, 0), "anchors missing: the `heap is empty` / `top is not the expected epoch` exits of process_pending_commits (found %d)" % len(exits))
    else:
        r = b.reachable([0], removed_edges=exits)
        for t in b.returns():
            if t in r:
                ctx.fail(o2, Site(b, t, len(b.blocks[t]["stmts"])), "process_pending_commits can return while the heap's top is the expected epoch: ready batches stay parked "
                         "behind it, later batches pile up, and what is still parked when the write manager is dropped is never written")
    o = ctx.ob("C10.a", "WriteTask-order/reversed-epoch", "K5", "pending tasks are ordered so that the smallest epoch is on top of the (max-)heap")
    c = ctx.touch(prog.body("<WriteTask as Ord>::cmp"))
    cm = c.calls_to(r"core::cmp::Ord::cmp$")
    o.sites = len(cm)
    if len(cm) != 1:
        ctx.fail(o, Site(c, 0, 0), "anchor missing: epoch comparison in Ord for WriteTask")
    else:
        a0 = df.access_path(c, cm[0].node["args"][0])
        a1 = df.access_path(c, cm[0].node["args"][1])
        if not ("<param _2>" in a0 and "<param _1>" in a1 and "epoch" in a0 and "epoch" in a1):
            ctx.fail(o, cm[0], "Ord for WriteTask must compare `other.epoch.cmp(&self.epoch)` (found %s vs %s): with the natural order the heap's top is the newest "
                     "batch and the committer stalls behind it" % (a0, a1))
    e = ctx.touch(prog.body("<WriteTask as PartialEq>::eq"))
    p_ = ctx.touch(prog.body("<WriteTask as PartialOrd>::partial_cmp"))
    if not p_.calls_to(r"core::cmp::Ord::cmp$"):
        ctx.fail(o, Site(p_, 0, 0), "PartialOrd for WriteTask is not derived from Ord::cmp")


def _apply_helper(ctx, b, pop, incq):
    """(call site in b, helper body) of the single local function that receives the popped task and holds all three apply anchors."""
    prog = ctx.prog
    found = []
    for s in b.calls():
        fn = s.node["fn"]
        h = prog.bodies.get(fn.get("res_key") or fn.get("key"))
        if h is None or WB not in h.file or h is b:
            continue
        hc = h.calls_to(r"kv_database::WriteBatch::consume_serialization_buffer$")
        hp = [x for x in h.calls_to(r"alloc::vec::Vec::<T(, A)?>::push$") if "processed_logical_batch" in df.access_path(h, x.node["args"][0])]
        if len(hc) == 1 and len(hp) == 1 and len(incq(h)) == 1:
            found.append((s, h, hc[0], hp[0], incq(h)[0]))
    return found[0] if len(found) == 1 else None


def _c10a_through_helper(ctx, o, b, pop, hs, incq):
    prog = ctx.prog
    s, h, hc, hp, hi = hs
    ctx.touch(h)
    o.sites = 4
    if not df.dominated_by_equality(b, s.bb, "eq", lambda x, y: "epoch" in x.fields and "expected_epoch" in y.fields, prog) or \
            not df.dominated_by_equality(b, pop.bb, "eq", lambda x, y: "epoch" in x.fields and "expected_epoch" in y.fields, prog):
        ctx.fail(o, s, "the apply step (%s) is not restricted to `top.epoch == expected_epoch`: a batch could be applied out of creation order" % h.name)
    # the helper is handed the popped task, and applies its parameter
    targ = [i for i, a in enumerate(s.node["args"]) if any(x.kind == "call" and x.site == pop for x in df.origins_of_operand(b, a))]
    if len(targ) != 1:
        ctx.fail(o, s, "%s is not handed the popped task" % h.name)
    else:
        for x, idx in ((hc, 1), (hp, 1)):
            if not any(y.kind == "param" and str(y.info).split(".")[0] == "_%d" % (targ[0] + 1) for y in df.origins_of_operand(h, x.node["args"][idx])):
                ctx.fail(o, x, "%s applies something other than the task it was handed" % h.name)
    # every path through the helper consumes, lists and advances exactly once: each anchor dominates the returns
    for x in (hc, hp, hi):
        for t in h.returns():
            if not h.bb_dominates(x.bb, t):
                ctx.fail(o, x, "%s can return without %s" % (h.name, "advancing expected_epoch" if x is hi else "applying the task"))
    pk = b.calls_to(r"BinaryHeap::<T(, A)?>::peek$")
    if len(pk) != 1:
        ctx.fail(o, Site(b, 0, 0), "anchor missing: heap peek")
    elif pk[0].bb in b.reachable([pop.node["t"]], removed_nodes=[s.bb]):
        ctx.fail(o, s, "the loop can test the next pending batch without having advanced expected_epoch")
    o3 = ctx.ob("C10.a", "process_pending_commits/consumed-before-listed-for-notification", "K1",
                "consume_serialization_buffer precedes the push onto processed_logical_batch and every flush of the same iteration")
    fl = b.calls_to(r"CurrentBatch::<Db>::flush$")
    o3.sites = 1 + len(fl)
    if not h.site_dominates(hc, hp):
        ctx.fail(o3, hp, "a logical batch is listed for after-commit notification before its writes were moved into the physical batch")
    if h.calls_to(r"CurrentBatch::<Db>::flush$"):
        ctx.fail(o3, hc, "%s flushes the physical batch in the middle of applying a task" % h.name)
    for f_ in fl:
        if f_.bb in b.reachable([pop.node["t"]], removed_nodes=[s.bb]) and not b.site_dominates(s, f_):
            ctx.fail(o3, f_, "the physical batch can be flushed between taking a task off the heap and consuming its buffer")
    _c10a_rest(ctx, b)


def c10b(ctx):
    prog = ctx.prog
    o = ctx.ob("C10.b", "inactive-only-after-commit", "K3+K1", "a logical batch is released (active = false) only after the physical batch containing it was committed")
    writes = []
    for b in prog.all_bodies(["qbice_storage"]):
        if WB not in b.file:
            continue
        for s in b.assigns(lambda st: any(e.startswith("f:active") for e in st["lhs"][1])):
            writes.append(s)
    o.sites = len(writes)
    allowed = {"WriteBufferPool::return_buffer", "CurrentBatch::flush", "WriteBehind::after_commit_worker"}
    if len(writes) < 3:
        ctx.fail(o, "(program)", "expected >= 3 assignments of WriteBatch::active, found %d" % len(writes))
    for s in writes:
        ctx.touch(s.body)
        val = (s.node["rv"].get("op") or {}).get("c", {}).get("s") if s.node["rv"]["k"] == "use" else None
        if s.body.name.startswith("WriteBufferPool::get_buffer") or s.body.name == "WriteBatch::new":
            if val != "true" and s.body.name != "WriteBatch::new":
                ctx.fail(o, s, "a buffer is handed out without being marked active")
            continue
        if s.body.name not in allowed:
            ctx.fail(o, s, "WriteBatch::active is assigned in %s" % s.body.name)
        elif val != "false":
            ctx.fail(o, s, "unexpected value assigned to WriteBatch::active in %s" % s.body.name)
    fl = prog.body("CurrentBatch::flush")
    cm = fl.calls_to(r"kv_database::WriteBatch::commit$")
    for s in writes:
        if s.body is fl and (len(cm) != 1 or not fl.site_dominates(cm[0], s)):
            ctx.fail(o, s, "flush marks a logical batch inactive before the physical commit")
    # return_buffer is reached only from the after-commit worker, after after_commit
    rb = prog.callers_of(r"WriteBufferPool::<Db>::return_buffer$")
    for s in rb:
        if s.body.name != "WriteBehind::after_commit_worker":
            ctx.fail(o, s, "return_buffer called from %s" % s.body.name)
    # after-commit tasks are created only in flush, after the commit
    for b in prog.all_bodies(["qbice_storage"]):
        for a in b.aggregates(r"write_behind::AfterCommitTask$"):
            if b is not fl or not fl.site_dominates(cm[0], a):
                ctx.fail(o, a, "an AfterCommitTask is created outside flush / before the commit")


def c10c(ctx):
    prog = ctx.prog
    o = ctx.ob("C10.c", "single-epoch-source", "K3+K5", "batch epochs come from one fetch_add in get_buffer and are assigned nowhere else")
    b = ctx.touch(prog.body("WriteBufferPool::get_buffer"))
    fa = b.calls_to(r"core::sync::atomic::Atomic::<u64>::fetch_add$")
    o.sites = len(fa)
    if len(fa) != 1 or const_int(fa[0].node["args"][1]) != 1 or "epoch" not in df.access_path(b, fa[0].node["args"][0]):
        ctx.fail(o, Site(b, 0, 0), "get_buffer must draw the epoch with exactly one `epoch.fetch_add(1)`")
    # all writes of WriteBatch::epoch / constructions of WriteBatch
    n = 0
    for bb in prog.all_bodies(["qbice_storage"]):
        if WB not in bb.file:
            continue
        for s in bb.assigns(lambda st: any(e.startswith("f:epoch") for e in st["lhs"][1]) and "WriteBatch" in bb.locals[st["lhs"][0]]["ty"]):
            n += 1
            if not bb.name.startswith("WriteBufferPool::get_buffer"):
                ctx.fail(o, s, "WriteBatch::epoch is re-assigned in %s" % bb.name)
        for a in bb.aggregates(r"write_behind::WriteBatch$"):
            n += 1
            if bb.name != "WriteBatch::new":
                ctx.fail(o, a, "a WriteBatch is constructed in %s" % bb.name)
    for s in prog.callers_of(r"write_behind::WriteBatch::<Db>::new$"):
        n += 1
        if not s.body.name.startswith("WriteBufferPool::get_buffer"):
            ctx.fail(o, s, "WriteBatch::new called from %s (epoch not drawn from the pool counter)" % s.body.name)
    o.sites += n
    # both closures of get_buffer use the drawn epoch
    for cl in prog.find(r"^WriteBufferPool::get_buffer::\{closure#\d+\}$"):
        ctx.touch(cl)
        eps = cl.aggregates(r"write_behind::Epoch$")
        for a in eps:
            os_ = df.origins_deep(prog, cl, a.node["rv"]["ops"][0])
            if not any(x.kind == "call" and (x.callee() or "").endswith("fetch_add") for x in os_):
                ctx.fail(o, a, "a buffer is handed out with an epoch that is not the one just drawn")
    o = ctx.ob("C10.c", "new_write_batch-is-the-pool", "K5", "WriteBehind::new_write_batch hands out pool buffers only")
    nb = ctx.touch(prog.body("WriteBehind::new_write_batch"))
    o.sites = 1
    if not nb.calls_to(r"WriteBufferPool::<Db>::get_buffer$"):
        ctx.fail(o, Site(nb, 0, 0), "new_write_batch does not go through WriteBufferPool::get_buffer")


def c10d(ctx):
    prog = ctx.prog
    o = ctx.ob("C10.d", "pipeline/same-batch-flows-through", "K5", "submit -> serialize -> commit carry the submitted batch itself")
    sb = ctx.touch(prog.body("WriteBehind::submit_write_batch"))
    snd = sb.calls_to(r"crossbeam_channel::channel::Sender::<T>::send$")
    task = sb.aggregates(r"write_behind::SerializeTask$")
    o.sites = len(snd) + len(task)
    if len(snd) != 1 or len(task) != 1 or sb.must_pass([0], [snd[0].bb]):
        ctx.fail(o, Site(sb, 0, 0), "submit_write_batch must send exactly one SerializeTask on every path")
    else:
        if not all(x.kind == "param" for x in df.origins_of_operand(sb, task[0].node["rv"]["ops"][0])):
            ctx.fail(o, task[0], "the SerializeTask does not contain the submitted batch")
        if not any(x.kind == "agg" and x.site == task[0] for x in df.origins_of_operand(sb, snd[0].node["args"][1])):
            ctx.fail(o, snd[0], "something other than the SerializeTask is sent")
    sw = ctx.touch(prog.body("WriteBehind::serialize_worker"))
    wr = sw.calls_to(r"write_behind::WriteBatch::<Db>::write_to_db$")
    wt = sw.aggregates(r"write_behind::WriteTask$")
    snd = sw.calls_to(r"crossbeam_channel::channel::Sender::<T>::send$")
    rcv = sw.calls_to(r"crossbeam_channel::channel::Receiver::<T>::recv$")
    o.sites += len(wr) + len(wt) + len(snd) + len(rcv)
    if len(wr) != 1 or len(wt) != 1 or len(snd) != 1 or len(rcv) != 1:
        ctx.fail(o, Site(sw, 0, 0), "anchors missing in serialize_worker")
    else:
        ops = wt[0].node["rv"]["ops"]
        if not any(x.kind == "call" and x.site == rcv[0] for x in df.origins_of_operand(sw, ops[0])):
            ctx.fail(o, wt[0], "the WriteTask's batch is not the received one")
        sbuf = df.origins_of_operand(sw, ops[1])
        wbuf = df.origins_of_operand(sw, wr[0].node["args"][1])
        if not (set(x.key() for x in sbuf) & set(x.key() for x in wbuf)):
            ctx.fail(o, wt[0], "the serialization buffer sent on is not the one the batch was written into")
        if not sw.site_dominates(wr[0], snd[0]):
            ctx.fail(o, snd[0], "the task is forwarded before the batch was serialized")
        # every received task is forwarded (loop-form): from the Ok edge of recv back to recv passes send
        r = sw.reachable([rcv[0].node["t"]], removed_nodes=[snd[0].bb])
        loopback = rcv[0].bb in [p for p in r if rcv[0].bb in sw.succ[p]] or rcv[0].bb in sw.reachable(sw.succ[rcv[0].node["t"]], removed_nodes=[snd[0].bb]) and False
    # write_to_db covers both kinds of writes
    w = ctx.touch(prog.body("WriteBatch::write_to_db"))
    o.sites += 2
    if not w.calls_to(r"WideColumnWrites::<Db>::write_to_db$") or not w.calls_to(r"KeyOfSetWrites::<Db>::write_to_db$"):
        ctx.fail(o, Site(w, 0, 0), "WriteBatch::write_to_db must serialize both the wide-column and the key-of-set writes")


def c10e(ctx):
    prog = ctx.prog
    o = ctx.ob("C10.e", "shutdown/ordered-joins", "K1+K2", "dropping the write manager closes the channel, then joins serializers, committer and notifier, in that order, on every path")
    b = ctx.touch(prog.body("<WriteBehind as Drop>::drop"))
    takes = b.calls_to(r"core::option::Option::<T>::take$")
    joins = b.calls_to(r"thread::(join_handle::)?JoinHandle::<T>::join$")
    o.sites = len(takes) + len(joins)

    def take_of(field):
        return [t for t in takes if field in df.access_path(b, t.node["args"][0])]

    def join_of(field, via_drain=False):
        out = []
        for j in joins:
            os_ = df.origins_of_operand(b, j.node["args"][0])
            ap = []
            for x in os_:
                if x.kind == "call":
                    ap += df.access_path(b, x.site.node["args"][0]) if x.site.node["args"] else []
            if field in ap or field in df.access_path(b, j.node["args"][0]):
                out.append(j)
        return out
    close = take_of("serialize_sender")
    j_ser = join_of("serialize_handles")
    j_com = join_of("commit_handle")
    j_aft = join_of("after_commit_handle")
    if len(close) != 1 or len(j_ser) != 1 or len(j_com) != 1 or len(j_aft) != 1:
        ctx.fail(o, Site(b, 0, 0), "anchors missing in Drop for WriteBehind (close=%d join serializers=%d committer=%d notifier=%d)" % (len(close), len(j_ser), len(j_com), len(j_aft)))
        return
    # the sender taken must actually be dropped before the joins (mem::drop of the taken Option)
    drops = [s for s in b.calls_to(r"^core::mem::drop$") if op_local(s.node["args"][0]) == close[0].node["dest"][0]]
    if len(drops) != 1:
        ctx.fail(o, close[0], "the serialize sender is not dropped: serializer threads never see the channel close and join() blocks forever")
    else:
        if not b.site_dominates(drops[0], j_com[0]):
            ctx.fail(o, j_com[0], "the committer is joined before the serialize channel was closed")
    # joining the serializers happens in a loop over drain(..): the loop must be finished before the committer is joined
    loops = [l for l in df.iter_loops(b) if j_ser[0].bb in l.region()]
    if len(loops) != 1:
        ctx.fail(o, j_ser[0], "serializer handles are not joined in a loop over all handles")
    else:
        lp = loops[0]
        if "serialize_handles" not in df.access_path(b, lp.head.node["args"][0]):
            ctx.fail(o, lp.head, "the join loop does not iterate the serializer handles")
        if j_com[0].bb in b.reachable([0], removed_edges=[(p, lp.none) for p in b.pred[lp.none]]):
            ctx.fail(o, j_com[0], "the committer can be joined before every serializer was joined: its channel is still open, so batches in flight are lost or join() hangs")
        if drops and not b.site_dominates(drops[0], lp.head):
            ctx.fail(o, lp.head, "serializers are joined before their input channel was closed (deadlock)")
    if not b.site_dominates(j_com[0], j_aft[0]):
        ctx.fail(o, j_aft[0], "the notifier is joined before the committer")
    for j in (j_com[0], j_aft[0]):
        if b.must_pass([0], [j.bb]):
            ctx.fail(o, j, "Drop for WriteBehind can return without joining all threads")
    o = ctx.ob("C10.e", "commit_worker/final-drain-and-flush", "K2", "when its channel closes the committer applies what is still pending and flushes the open physical batch")
    c = ctx.touch(prog.body("WriteBehind::commit_worker"))
    rcv = c.calls_to(r"crossbeam_channel::channel::Receiver::<T>::recv$")
    ppc = c.calls_to(r"WriteBehind::<Db>::process_pending_commits$")
    fl = c.calls_to(r"CurrentBatch::<Db>::flush$")
    o.sites = len(rcv) + len(ppc) + len(fl)
    if len(rcv) != 1 or len(ppc) != 2 or len(fl) != 1:
        ctx.fail(o, Site(c, 0, 0), "anchors missing in commit_worker (recv=%d process_pending_commits=%d flush=%d)" % (len(rcv), len(ppc), len(fl)))
    else:
        # every path from the receive loop's exit to return passes a process_pending_commits that is outside the loop, then flush
        sw = rcv[0].node["t"]
        exits = [tb for v, tb in df.switch_edges(c, sw) if rcv[0].bb not in c.reachable([tb])] if c.blocks[sw]["term"]["k"] == "switch" else []
        if not exits:
            ctx.fail(o, rcv[0], "the receive loop of commit_worker has no exit")
        tail = [p for p in ppc if rcv[0].bb not in c.reachable([p.bb])]
        if len(tail) != 1:
            ctx.fail(o, Site(c, 0, 0), "no final process_pending_commits after the receive loop")
        else:
            if c.must_pass(exits, [tail[0].bb]) or c.must_pass(exits, [fl[0].bb]) or not c.site_dominates(tail[0], fl[0]):
                ctx.fail(o, fl[0], "commit_worker can exit without draining the pending heap and flushing the last physical batch: batches submitted just before shutdown are lost")
        inloop = [p for p in ppc if rcv[0].bb in c.reachable([p.bb])]
        psh = c.calls_to(r"BinaryHeap::<T(, A)?>::push$")
        if len(inloop) != 1 or len(psh) != 1 or not c.site_dominates(psh[0], inloop[0]):
            ctx.fail(o, Site(c, 0, 0), "a received task must be pushed onto the heap and processed in every iteration")


def c10f(ctx):
    prog = ctx.prog
    o = ctx.ob("C10.f", "at-most-once-by-ownership", "K10", "submitting moves the batch; WriteBatch cannot be cloned or copied")
    sigs = [v for k, v in prog.sigs.items() if k.endswith("write_behind::{impl#19}::submit_write_batch") or (k.endswith("::submit_write_batch") and "write_behind" in k)]
    o.sites = len(sigs)
    if not sigs:
        ctx.fail(o, "(program)", "anchor missing: signature of WriteBehind::submit_write_batch")
    for sg in sigs:
        tys = [i["ty"] for i in sg["inputs"]]
        if len(tys) < 2 or tys[1].startswith("&") or "WriteBatch" not in tys[1]:
            ctx.fail(o, "(signature)", "submit_write_batch does not take the WriteBatch by value (%s): the same batch could be submitted twice" % tys)
    for im in prog.impls:
        if im.get("self_adt") == "qbice_storage::write_manager::write_behind::WriteBatch" and im.get("trait") in ("core::clone::Clone", "core::marker::Copy"):
            ctx.fail(o, im["span"], "WriteBatch implements %s: a batch could be applied twice" % im["trait"])
    tr = [v for k, v in prog.sigs.items() if k.endswith("write_manager::WriteManager::submit_write_batch")]
    for sg in tr:
        if sg["inputs"][1]["ty"].startswith("&"):
            ctx.fail(o, "(signature)", "WriteManager::submit_write_batch takes the batch by reference")


def _carries_position(b, op):
    """The operand is a CurrentBatch aggregate built in this body whose expected_epoch field is read from an expected_epoch."""
    og = df.origins_of_operand(b, op, through_agg=False)
    aggs = [x for x in og if x.kind == "agg" and "CurrentBatch" in str(x.site.node["rv"].get("adt"))]
    if not aggs or len(aggs) != len(og):
        return False
    for x in aggs:
        rv = x.site.node["rv"]
        fields = rv.get("fields") or []
        if "expected_epoch" not in fields or "expected_epoch" not in df.access_path(b, rv["ops"][fields.index("expected_epoch")]):
            return False
    return True


def c10h(ctx):
    """`expected_epoch` is the committer's position in creation order.  It starts at the first epoch and moves by exactly one,
    in process_pending_commits, each time the batch of that epoch has been applied.  Any other write to it (taking it from
    an arriving task, resetting it) lets a batch that was created later be applied before an earlier one whose serializer
    is still running - arrival order is submission order, not creation order."""
    prog = ctx.prog
    o = ctx.ob("C10.h", "expected_epoch/only-advanced-by-one-after-applying", "K3", "CurrentBatch.expected_epoch is assigned only by its constructor and by increments by one")
    n = 0
    for b in prog.all_bodies(["qbice_storage"]):
        for bi, blk in enumerate(b.blocks):
            if blk["cleanup"]:
                continue
            for si, st in enumerate(blk["stmts"]):
                if st["k"] != "assign" or not any(str(e).startswith("f:expected_epoch#") for e in st["lhs"][1]):
                    continue
                n += 1
                ctx.touch(b)
                site = Site(b, bi, si)
                # whichever function does it (the apply step may live in a helper): the only legal write is `+ 1`
                # the value is expected_epoch + 1
                ok = False
                for x in df.origins_of_operand(b, st["rv"].get("op", {})) if st["rv"]["k"] == "use" else []:
                    pass
                src = op_local(st["rv"].get("op", {})) if st["rv"]["k"] == "use" else None
                for _s, dk, dn in (b.defs.get(src) or []):
                    if dk == "assign" and dn["rv"].get("k") == "bin" and dn["rv"]["op"] in ("Add", "AddWithOverflow") and const_int(dn["rv"]["b"]) == 1:
                        ok = True
                if not ok:
                    ctx.fail(o, site, "%s assigns CurrentBatch.expected_epoch something other than `expected_epoch + 1`: the committer's position in creation order may only advance by one, "
                             "after the expected batch was applied - taking it from anything else (an arriving task's epoch) lets a later-created batch overtake an earlier one that is still "
                             "being serialized" % b.name)
    # the position also moves when the whole CurrentBatch it lives in is overwritten (mem::replace / swap / take on
    # `&mut CurrentBatch`, `*self = ..`): a "fresh batch after every flush" written that way restarts the position at the
    # constructor's value, after which no later batch is ever the expected one (all of them stay parked and are lost at drop)
    whole = re.compile(r"^&mut (\w+::)*CurrentBatch<")
    for b in prog.all_bodies(["qbice_storage"]):
        if WB not in b.file:
            continue
        for s_ in b.calls_to(r"^core::mem::(replace|swap|take)$"):
            for a_ in s_.node["args"][:2 if s_.node["fn"]["path"].endswith("swap") else 1]:
                l = op_local(a_)
                if l is not None and whole.search(str(b.local_ty(l))):
                    n += 1
                    ctx.touch(b)
                    if s_.node["fn"]["path"].endswith("replace") and _carries_position(b, s_.node["args"][1]):
                        continue        # the replacement is built in place with the old expected_epoch: the position is kept
                    ctx.fail(o, s_, "%s overwrites a whole CurrentBatch (`%s`): expected_epoch - the committer's position in creation order - is replaced with it instead of "
                             "advancing by one; after the first such flush no arriving batch carries the expected epoch any more, every later batch stays parked in the "
                             "hold-back heap and is never written" % (b.name, s_.node["fn"]["path"].rsplit("::", 1)[-1]))
        for bi, blk in enumerate(b.blocks):
            if blk["cleanup"]:
                continue
            for si, st in enumerate(blk["stmts"]):
                if st["k"] == "assign" and [str(e) for e in st["lhs"][1]] == ["deref"] and whole.search(str(b.local_ty(st["lhs"][0]))):
                    n += 1
                    ctx.touch(b)
                    ctx.fail(o, Site(b, bi, si), "%s assigns a whole CurrentBatch through `&mut`: expected_epoch is replaced with it instead of advancing by one" % b.name)
    o.sites = n
    if n < 1:
        ctx.fail(o, "(program)", "anchor missing: no assignment to CurrentBatch.expected_epoch found")


def run(ctx):
    for c, f in (("C10.a", c10a), ("C10.b", c10b), ("C10.c", c10c), ("C10.d", c10d), ("C10.e", c10e), ("C10.f", c10f), ("C10.h", c10h)):
        ctx.run_clause(c, f)
    # "reaches the backing store exactly once": the last hop is the backend's WriteBatch::commit - exactly one store write on
    # every path, outside any loop (C08.d's rule, with its WAL/atomic-flush pairing C08.e), evaluated here as C10.g
    if ctx.key_prefix:
        return          # c08d already looks at both backend shapes itself; nothing to repeat on the workspace pass
    # "the store's final content equals applying the batches one after another": within one batch the LATEST operation on a key /
    # (key, element) is the one written (C09.g's coalescing clauses), evaluated here as C10.i
    from . import C09
    ctx.alias = {"C09.g": "C10.i"}
    ctx.run_clause("C10.i", C09.c09g_batch)
    ctx.alias = {}
    from . import C08
    ctx.alias = {"C08.d": "C10.g", "C08.e": "C10.g"}
    ctx.run_clause("C10.g", C08.c08d)
    ctx.alias = {}

"""C11 — store backends honour the key-value contract and isolate keys (structural clauses:
writer/reader agreement on key construction, discriminant tables, prefix scans)."""
import re

from .. import dataflow as df
from ..facts import Site, op_local, const_int, short

# both backends are already analysed from their own build shapes (the workspace shape has no fjall backend)
WORKSPACE_PASS = False

EXPLANATION = (
    "Static analysis over rustc's promoted MIR of both shipped backends (fjall from the RocksDB-free build shape, rocksdb from the full workspace shape). "
    "C11.a writer/reader agreement: in each backend the key bytes of WriteBatch::{put,delete}, SerializationBuffer::{put,delete} and get_wide_column are "
    "produced by the same call encode_wide_column_key::<W, C> on the same buffer that is handed to the store; member keys by "
    "encode_value_length_prefixed(key) followed by encode_value(element) into one buffer at all 4 sites; scan_members seeks with exactly "
    "encode_value_length_prefixed(key) and its iterator decodes the element at offset 8 + length read back from the first 8 bytes. "
    "C11.b the discriminants of all value types of one column are pairwise distinct (constants extracted from MIR). C11.c the length prefix written "
    "back is (end - start - 8) of the same buffer; RocksDB's upper bound is prefix_upper_bound of the seek prefix; fjall uses prefix() of it. "
    "C11.d the keyspace / column-family name is a function of the column's full StableTypeID and kind. Byte-level correctness of bounds and backend "
    "behaviour are NOT decided.")

NOT_DECIDED = [
    "numeric correctness of prefix_upper_bound beyond `the incremented bound is also cut` (C11.e) and of varint encodings; behaviour after reopen; multi-kilobyte and 0xFF-heavy keys (values, not shapes)",
    "that uncommitted batches are invisible and commits are atomic inside the third-party stores",
]
ASSUMPTIONS = ["postcard encodings of keys are self-delimiting (C12.b)", "distinct columns have distinct StableTypeIDs (C14)"]

WIDE_SITES = ["<{B}WriteBatch as WriteBatch>::put", "<{B}WriteBatch as WriteBatch>::delete",
              "<{B}SerializationBuffer as SerializationBuffer>::put", "<{B}SerializationBuffer as SerializationBuffer>::delete",
              "<{D} as KvDatabase>::get_wide_column"]
MEMBER_SITES = ["<{B}WriteBatch as WriteBatch>::insert_member", "<{B}WriteBatch as WriteBatch>::delete_member",
                "<{B}SerializationBuffer as SerializationBuffer>::insert_member", "<{B}SerializationBuffer as SerializationBuffer>::delete_member"]

STORE_CALL = re.compile(r"(fjall::.*(OwnedWriteBatch|Batch).*::(insert|remove)|fjall::.*Keyspace.*::get|rust_rocksdb::.*::(put_cf|delete_cf|get_cf))$")


def key_buffers(b, call_pat):
    """Locals (Vec<u8>) filled by calls matching call_pat: the `buffer` argument's root local."""
    out = {}
    for s in b.calls_to(call_pat):
        arg = s.node["args"][-1] if not call_pat.endswith("encode_value$") else s.node["args"][2]
        roots = [x for x in df.origins_of_operand(b, arg) if x.kind == "call" and (x.callee() or "").endswith("Vec::<T>::new")]
        for r in roots:
            out.setdefault(r.site, []).append(s)
    return out


def backend_rules(ctx, prog, B, D, modfile, tag):
    # ---------------------------------------------------------------- wide-column keys
    o = ctx.ob("C11.a", "%s/wide-column-key-agreement" % tag, "K8+K5", "all five wide-column sites build the key with encode_wide_column_key::<W, C> into the buffer that is given to the store")
    sigs = []
    n = 0
    for nm in WIDE_SITES:
        name = nm.format(B=B, D=D)
        b = ctx.touch(prog.body(name))
        ek = b.calls_to(r"::encode_wide_column_key$")
        n += len(ek)
        if len(ek) != 1:
            ctx.fail(o, Site(b, 0, 0), "%s must build its key with exactly one encode_wide_column_key call (found %d)" % (name, len(ek)))
            continue
        g = ek[0].node["fn"]["gargs"]
        sigs.append((name, tuple(g)))
        # generic args are this function's own <W, C>
        if [x for x in g if x not in ("W", "C")]:
            ctx.fail(o, ek[0], "%s encodes the key for %s instead of its own <W, C>: readers and writers of one value type would use different keys" % (name, g))
        # the buffer filled is the key given to the store (or stored in the Operation)
        buf_roots = {x.site for x in df.origins_of_operand(b, ek[0].node["args"][-1]) if x.kind == "call" and "Vec" in (x.callee() or "") and (x.callee() or "").endswith("::new")}
        used = False
        for s in b.calls(lambda f, t: bool(STORE_CALL.search(f["path"]))):
            for a in s.node["args"]:
                if df.op_place(a) is None:
                    continue
                if buf_roots & {x.site for x in df.origins_of_operand(b, a) if x.kind == "call"}:
                    used = True
        for a in b.aggregates(r"kv_database::%s::Operation$" % modfile):
            fields = a.node["rv"]["fields"]
            if "key" in fields:
                ko = a.node["rv"]["ops"][fields.index("key")]
                if buf_roots & {x.site for x in df.origins_of_operand(b, ko) if x.kind == "call"}:
                    used = True
        if not used:
            ctx.fail(o, ek[0], "%s does not hand the buffer filled by encode_wide_column_key to the store" % name)
        # no other encoder touches the key buffer
        for s in b.calls_to(r"::encode_value(_length_prefixed)?$"):
            if buf_roots & {x.site for x in df.origins_of_operand(b, s.node["args"][2]) if x.kind == "call"}:
                ctx.fail(o, s, "%s appends extra bytes to the key buffer" % name)
    o.sites = n
    if len(set(g for _, g in sigs)) > 1:
        ctx.fail(o, "(program)", "wide-column sites disagree on the generic arguments of encode_wide_column_key: %s" % sigs)
    # ---------------------------------------------------------------- encode_wide_column_key itself
    o = ctx.ob("C11.a", "%s/wide-column-key-layout" % tag, "K4+K5", "the discriminant is encoded before the key for Prefixed columns and after it for Suffixed ones, exactly once")
    cands = [x for x in prog.by_name.get("Impl::encode_wide_column_key", []) if modfile in x.file]
    if len(cands) != 1:
        ctx.fail(o, "(program)", "anchor missing: %s Impl::encode_wide_column_key" % tag)
    else:
        b = ctx.touch(cands[0])
        evs = b.calls_to(r"::encode_value$")
        disc = [s for s in evs if any(x.kind == "call" and (x.callee() or "").endswith("WideColumnValue::discriminant") for x in df.origins_of_operand(b, s.node["args"][1]))]
        keyc = [s for s in evs if s not in disc]
        o.sites = len(evs)
        if len(disc) != 2 or len(keyc) != 1:
            ctx.fail(o, Site(b, 0, 0), "expected two discriminant encodings (one per layout) and one key encoding (found %d / %d)" % (len(disc), len(keyc)))
        else:
            pre = [d for d in disc if b.site_dominates(d, keyc[0]) or keyc[0].bb in b.reachable([d.bb])]
            post = [d for d in disc if d not in pre]
            if len(pre) != 1 or len(post) != 1:
                ctx.fail(o, keyc[0], "the discriminant must be encoded once before (Prefixed) and once after (Suffixed) the key")
            else:
                for d, want in ((pre[0], "Prefixed"), (post[0], "Suffixed")):
                    ok = df.dominated_by_equality(b, d.bb, "eq", lambda x, y: x.has("discriminant_encoding") and any(want in a for a in y.aggs), prog)
                    if not ok:
                        ctx.fail(o, d, "the %s discriminant encoding is not guarded by `discriminant_encoding() == %s`" % ("leading" if want == "Prefixed" else "trailing", want))
                # all into the same buffer parameter
                for s in evs:
                    if not all(x.kind == "param" for x in df.origins_of_operand(b, s.node["args"][2]) if x.kind != "unknown"):
                        ctx.fail(o, s, "encode_wide_column_key writes into something other than its buffer parameter")
            if keyc and b.must_pass([0], [keyc[0].bb]):
                ctx.fail(o, keyc[0], "the key can be left out of the encoded wide-column key")
    # ---------------------------------------------------------------- member keys
    o = ctx.ob("C11.a", "%s/member-key-agreement" % tag, "K8+K5", "all four member sites build `len-prefixed(key) ++ element` in one buffer and hand it to the store")
    n = 0
    for nm in MEMBER_SITES:
        name = nm.format(B=B, D=D)
        b = ctx.touch(prog.body(name))
        lp = b.calls_to(r"::encode_value_length_prefixed$")
        ev = b.calls_to(r"::encode_value$")
        n += len(lp) + len(ev)
        if len(lp) != 1 or len(ev) != 1:
            ctx.fail(o, Site(b, 0, 0), "%s must call encode_value_length_prefixed(key) then encode_value(element) (found %d / %d)" % (name, len(lp), len(ev)))
            continue
        if not b.site_dominates(lp[0], ev[0]):
            ctx.fail(o, ev[0], "%s encodes the element before the key prefix" % name)
        r1 = {x.site for x in df.origins_of_operand(b, lp[0].node["args"][2]) if x.kind == "call"}
        r2 = {x.site for x in df.origins_of_operand(b, ev[0].node["args"][2]) if x.kind == "call"}
        if not (r1 & r2):
            ctx.fail(o, ev[0], "%s encodes key prefix and element into different buffers" % name)
        # key param -> prefix, value param -> element
        k1 = {str(x.info) for x in df.origins_of_operand(b, lp[0].node["args"][1]) if x.kind == "param"}
        k2 = {str(x.info) for x in df.origins_of_operand(b, ev[0].node["args"][1]) if x.kind == "param"}
        if k1 != {"_2"} or k2 != {"_3"}:
            ctx.fail(o, lp[0], "%s: the length-prefixed part must be the set key (param 2) and the suffix the element (param 3); found %s / %s" % (name, sorted(k1), sorted(k2)))
    o.sites = n
    # ---------------------------------------------------------------- scan
    o = ctx.ob("C11.a", "%s/scan-prefix-and-element-offset" % tag, "K5", "scan_members seeks with the length-prefixed key and the iterator decodes the element right after it")
    scan_bodies = [x for x in prog.find(r"^<%s as KvDatabase>::scan_members(::\{closure#0\})?$" % D)]
    lp_sites = []
    for b in scan_bodies:
        ctx.touch(b)
        lp_sites += b.calls_to(r"::encode_value_length_prefixed$")
        if b.calls_to(r"::encode_value$"):
            ctx.fail(o, Site(b, 0, 0), "scan_members appends something to the seek prefix")
    o.sites = len(lp_sites)
    if len(lp_sites) != 1:
        ctx.fail(o, "(program)", "scan_members of %s must build its prefix with exactly one encode_value_length_prefixed (found %d)" % (tag, len(lp_sites)))
    else:
        s = lp_sites[0]
        b = s.body
        if tag == "fjall":
            pf = b.calls_to(r"fjall::.*::prefix$")
            if len(pf) != 1 or not ({x.site for x in df.origins_of_operand(b, pf[0].node["args"][1]) if x.kind == "call"} & {x.site for x in df.origins_of_operand(b, s.node["args"][2]) if x.kind == "call"}):
                ctx.fail(o, s, "fjall scan does not use keyspace.prefix(<the encoded prefix>)")
        else:
            ub = b.calls_to(r"Impl::prefix_upper_bound$")
            su = b.calls_to(r"ReadOptions::set_iterate_upper_bound$")
            it = b.calls_to(r"::iterator_cf_opt$")
            if len(ub) != 1 or len(su) != 1 or len(it) != 1:
                ctx.fail(o, s, "rocksdb scan must set an upper bound computed by prefix_upper_bound and iterate from the prefix")
            else:
                root = {x.site for x in df.origins_of_operand(b, s.node["args"][2]) if x.kind == "call"}
                if not (root & {x.site for x in df.origins_of_operand(b, ub[0].node["args"][0]) if x.kind == "call"}):
                    ctx.fail(o, ub[0], "the upper bound is not computed from the seek prefix")
                if not any(x.kind == "call" and x.site == ub[0] for x in df.origins_of_operand(b, su[0].node["args"][1])):
                    ctx.fail(o, su[0], "set_iterate_upper_bound is not given prefix_upper_bound(prefix)")
                if not b.site_dominates(su[0], it[0]):
                    ctx.fail(o, it[0], "the iterator is created before the upper bound is set")
    itn = [x for x in prog.find(r"^<Scan(Member|Members)Iterator as Iterator>::next$") if modfile in x.file]
    if len(itn) != 1:
        ctx.fail(o, "(program)", "anchor missing: %s scan iterator next()" % tag)
    else:
        b = ctx.touch(itn[0])
        fl = b.calls_to(r"u64::from_le_bytes$|num::<impl u64>::from_le_bytes$")
        o.sites += len(fl)
        adds = b.assigns(lambda st: st["rv"]["k"] == "bin" and st["rv"]["op"] in ("AddWithOverflow", "Add") and const_int(st["rv"]["a"]) == 8)
        if len(fl) != 1 or len(adds) != 1:
            ctx.fail(o, Site(b, 0, 0), "the scan iterator must read the u64 length prefix and skip `8 + length` bytes (from_le_bytes=%d, `8 + _`=%d)" % (len(fl), len(adds)))
        else:
            if not any(x.kind == "call" and x.site == fl[0] for x in df.origins_of_operand(b, adds[0].node["rv"]["b"])):
                ctx.fail(o, adds[0], "the element offset is not 8 + the length read from the key")
    # ---------------------------------------------------------------- length prefix arithmetic
    o = ctx.ob("C11.c", "%s/length-prefix-backpatch" % tag, "K5", "the 8 bytes written back are (end - start - 8) of the same buffer, little-endian")
    cands = [x for x in prog.by_name.get("Impl::encode_value_length_prefixed", []) if modfile in x.file]
    if len(cands) != 1:
        ctx.fail(o, "(program)", "anchor missing: %s encode_value_length_prefixed" % tag)
    else:
        b = ctx.touch(cands[0])
        lens = b.calls_to(r"alloc::vec::Vec::<T(, A)?>::len$")
        subs = b.assigns(lambda st: st["rv"]["k"] == "bin" and st["rv"]["op"] in ("SubWithOverflow", "Sub"))
        tle = b.calls_to(r"u64::to_le_bytes$|num::<impl u64>::to_le_bytes$")
        enc = b.calls_to(r"qbice_serialize::encode::Encoder::encode$")
        o.sites = len(lens) + len(subs) + len(tle) + len(enc)
        if len(lens) != 2 or len(subs) != 2 or len(tle) != 2 or len(enc) != 1:
            ctx.fail(o, Site(b, 0, 0), "unexpected shape of encode_value_length_prefixed (len=%d sub=%d to_le_bytes=%d encode=%d)" % (len(lens), len(subs), len(tle), len(enc)))
        else:
            first, second = (lens[0], lens[1]) if b.site_dominates(lens[0], lens[1]) else (lens[1], lens[0])
            if not (b.site_dominates(first, enc[0]) and b.site_dominates(enc[0], second)):
                ctx.fail(o, enc[0], "start/end lengths are not sampled around the encoding of the key")
            consts = sorted(const_int(s_.node["rv"]["b"]) for s_ in subs if const_int(s_.node["rv"]["b"]) is not None)
            if consts != [8]:
                ctx.fail(o, subs[0], "the length must be end - start - 8 (constants found: %s)" % consts)
            final = [t for t in tle if b.site_dominates(enc[0], t)]
            if len(final) != 1 or not any(x.kind == "call" and x.site == second for x in df.origins_of_operand(b, final[0].node["args"][0])) \
                    or not any(x.kind == "call" and x.site == first for x in df.origins_of_operand(b, final[0].node["args"][0])):
                ctx.fail(o, Site(b, 0, 0), "the bytes written back are not derived from both the start and the end length")
    # ---------------------------------------------------------------- column naming
    o = ctx.ob("C11.d", "%s/column-name-from-full-id" % tag, "K5", "the keyspace / column-family name is derived from the column's full 128-bit StableTypeID and its kind")
    nm = "Impl::keyspace_name_from_id" if tag == "fjall" else "Impl::cf_name_from_id"
    cands = [x for x in prog.by_name.get(nm, []) if modfile in x.file]
    if len(cands) != 1:
        ctx.fail(o, "(program)", "anchor missing: %s" % nm)
    else:
        b = ctx.touch(cands[0])
        a = b.calls_to(r"StableTypeID::as_u128$")
        o.sites = len(a)
        if len(a) != 1 or not all(x.kind == "param" for x in df.origins_of_operand(b, a[0].node["args"][0])):
            ctx.fail(o, Site(b, 0, 0), "%s does not format the full id (as_u128) of its parameter" % nm)
        kinds = df.variant_edges(b, "kv_database::%s::ColumnKind" % modfile)
        if not kinds:
            ctx.fail(o, Site(b, 0, 0), "%s does not distinguish wide columns from key-of-set columns" % nm)
    getter = "Impl::get_or_create_keyspace" if tag == "fjall" else "Impl::get_or_create_cf"
    cands = [x for x in prog.by_name.get(getter, []) if modfile in x.file]
    if len(cands) == 1:
        b = ctx.touch(cands[0])
        ids = [s for bi in b.live_blocks for s in []]
        # uses C::STABLE_TYPE_ID of its own type parameter
        used = False
        for bi in b.live_blocks:
            for st in b.blocks[bi]["stmts"]:
                if st["k"] == "assign" and st["rv"]["k"] == "use":
                    c = st["rv"]["op"].get("c")
                    if c and c.get("uneval", "").endswith("Identifiable::STABLE_TYPE_ID") and c.get("self_ty") == "C":
                        used = True
        if not used:
            ctx.fail(o, Site(b, 0, 0), "%s does not address the store by <C as Identifiable>::STABLE_TYPE_ID" % getter)
    else:
        ctx.fail(o, "(program)", "anchor missing: %s" % getter)


def discriminant_table(ctx, prog):
    o = ctx.ob("C11.b", "discriminants-pairwise-distinct", "K10", "value types sharing a wide column have pairwise distinct discriminants")
    table = {}
    n = 0
    for im in prog.impls:
        if im.get("trait") != "qbice_storage::kv_database::WideColumnValue":
            continue
        col = im["trait_args"][0] if im.get("trait_args") else "?"
        meth = [k for nm, k, kd in im["items"] if nm == "discriminant"]
        if not meth or meth[0] not in prog.bodies:
            continue
        b = prog.bodies[meth[0]]
        n += 1
        val = []
        for x in sorted(df.origins_of_place(b, [0, []]), key=repr):
            if x.kind == "agg":
                rv = x.site.node["rv"]
                val.append("%s::%s" % (short(rv.get("adt") or rv.get("ak") or ""), rv.get("vname", "")) if rv.get("ak") == "adt" else rv.get("ak"))
            elif x.kind == "const":
                val.append(str(x.info))
        # generic value types (QueryInput<Q>) carry Q::STABLE_TYPE_ID: keep the constant's self type
        for bi in b.live_blocks:
            for st in b.blocks[bi]["stmts"]:
                if st["k"] == "assign" and st["rv"]["k"] == "use":
                    c = st["rv"]["op"].get("c")
                    if c and c.get("uneval"):
                        val.append("%s of %s" % (c["uneval"].split("::")[-1], c.get("self_ty")))
                if st["k"] == "assign" and st["rv"]["k"] == "agg":
                    for op_ in st["rv"]["ops"]:
                        c = op_.get("c")
                        if c and c.get("uneval"):
                            val.append("%s of %s" % (c["uneval"].split("::")[-1], c.get("self_ty")))
        table.setdefault(col, []).append((im["self_ty"], tuple(sorted(set(val)))))
    o.sites = n
    if n < 10:
        ctx.fail(o, "(program)", "expected >= 10 WideColumnValue impls, found %d" % n)
    for col, lst in table.items():
        seen = {}
        for ty, val in lst:
            if val in seen and len(lst) > 1:
                ctx.fail(o, "(impl)", "column %s: value types `%s` and `%s` have the same discriminant %s: they would overwrite each other under one key" % (
                    short(col), short(seen[val]), short(ty), list(val)))
            seen[val] = ty
    ctx.notes.append("discriminant table: %s" % {short(c): [(short(t), list(v)) for t, v in l] for c, l in table.items()})


SHRINK = r"Vec::<T(, A)?>::(truncate|pop|drain|split_off|resize|set_len|retain|clear)$"


def upper_bound_tight(ctx, prog):
    """RocksDB's member scan relies on the iterate-upper-bound alone (its iterator has no starts_with filter), so
    the bound has to be the prefix successor: the prefix cut after its right-most byte < 0xFF, that byte + 1.  For a
    prefix that ends in 0xFF the successor is strictly shorter than the prefix, hence on the path that increments a
    byte the vector must also be shortened (or be built from a sub-slice).  Decides that necessary shape only."""
    o = ctx.ob("C11.e", "rocksdb/scan-upper-bound-is-the-prefix-successor", "K2",
               "the scan bound is cut after the incremented byte (or scan results are filtered by the prefix)")
    itn = [x for x in prog.find(r"^<Scan(Member|Members)Iterator as Iterator>::next$") if "rocksdb" in x.file]
    if len(itn) == 1 and itn[0].calls_to(r"::starts_with$"):
        o.sites = 1
        o.detail = "the scan iterator filters by starts_with: the bound is an optimisation only"
        return
    cands = [x for x in prog.by_name.get("Impl::prefix_upper_bound", []) if "rocksdb" in x.file]
    if len(cands) != 1:
        ctx.fail(o, "(program)", "anchor missing: rocksdb Impl::prefix_upper_bound")
        return
    b = ctx.touch(cands[0])
    incs = []
    for a in b.assigns(lambda st: st["rv"]["k"] == "bin" and st["rv"]["op"] in ("Add", "AddWithOverflow", "AddUnchecked") and const_int(st["rv"]["b"]) == 1):
        pl = df.op_place(a.node["rv"]["a"])
        if pl is not None and "*" in pl[1] and b.local_ty(pl[0]).replace(" ", "") in ("&mutu8", "&'_mutu8"):
            incs.append(a)
    wraps = b.calls_to(r"u8>::(wrapping_add|checked_add|saturating_add|overflowing_add)$")
    shr = b.calls_to(SHRINK)
    # a bound built from a sub-slice of the prefix: Index::index(.., RangeTo / RangeToInclusive / Range)
    sub = [s_ for s_ in b.calls_to(r"Index::index$") if re.search(r"Range", " ".join(s_.node["fn"].get("gargs", [])) + (s_.node["fn"].get("res_key") or ""))]
    o.sites = len(incs) + len(shr) + len(sub)
    if not incs and not wraps:
        ctx.fail(o, Site(b, 0, 0), "cannot find where prefix_upper_bound increments a byte — the rule cannot be evaluated; failing closed")
        return
    for a in incs + wraps:
        ok = False
        for s_ in shr + sub:
            if s_.bb == a.bb or a.bb in b.reachable([s_.bb]) or s_.bb in b.reachable([a.bb]):
                ok = True
        if not ok:
            ctx.fail(o, a, "prefix_upper_bound increments a byte but never shortens the bound on that path: for a prefix ending in 0xFF the bound "
                           "`P'++[b+1]++[0xFF..]` admits the members of the neighbouring key `P'++[b+1]..` into the scan of this key")


def column_kind_agreement(ctx, prog, modfile, tag):
    """The keyspace / column family of a column is named after its id *and its kind*; every site of one family must ask for
    the same kind, else a write goes to `…wide_column_<id>` while the reads look in `…key_of_set_<id>` (and a handle cache
    keyed by id alone may even pin the wrong one for the whole process)."""
    o = ctx.ob("C11.d", "%s/column-kind-per-site-family" % tag, "K8",
               "put/delete/get_wide_column address ColumnKind::WideColumn, insert_member/delete_member/scan_members address ColumnKind::KeyOfSet")
    adt = next((k for k in prog.adts if k.endswith("kv_database::%s::ColumnKind" % modfile)), None)
    if adt is None:
        ctx.fail(o, "(program)", "anchor missing: %s::ColumnKind" % modfile)
        return
    names = [v["name"] for v in prog.adts[adt]["variants"]]
    n = 0
    for b in prog.all_bodies(["qbice_storage"]):
        if not b.file.endswith("kv_database/%s.rs" % modfile):
            continue
        base = re.sub(r"(::\{closure#\d+\})+$", "", b.name).rsplit("::", 1)[-1]
        want = "WideColumn" if base in ("put", "delete", "get_wide_column") else "KeyOfSet" if base in ("insert_member", "delete_member", "scan_members") else None
        if want is None:
            continue
        for a in b.assigns(lambda st: st["rv"]["k"] == "agg" and st["rv"].get("ak") == "adt" and st["rv"].get("adt") == adt):
            n += 1
            ctx.touch(b)
            got = names[int(a.node["rv"]["variant"])]
            if got != want:
                ctx.fail(o, a, "%s addresses the column as ColumnKind::%s (its family uses ColumnKind::%s): the operation lands in another keyspace / column family "
                         "than the one its readers use" % (b.name, got, want))
    o.sites = n
    if n < 9:
        ctx.fail(o, "(program)", "expected >= 9 ColumnKind arguments at the %s column sites, found %d" % (tag, n))


REORDER = re.compile(r"::(sort_unstable|sort_unstable_by|sort_unstable_by_key|select_nth_unstable\w*|reverse|swap|swap_remove|rotate_left|rotate_right|dedup\w*|sort_by_cached_key)$|Iterator::rev$")


def operation_order(ctx, prog, modfile, tag):
    """A batch is a *sequence*: later operations on a key override earlier ones.  The store applies them in the order it is
    given, so every stage between the caller and the store has to keep that order (a stable regrouping would be fine; an
    unstable sort, a reversal or a swap is not)."""
    o = ctx.ob("C11.f", "%s/batch-operation-order-preserved" % tag, "K3",
               "no unstable sort / reverse / swap on the operation list of a serialization buffer or write batch")
    n = 0
    for b in prog.all_bodies(["qbice_storage"]):
        if not b.file.endswith("kv_database/%s.rs" % modfile):
            continue
        base = re.sub(r"(::\{closure#\d+\})+$", "", b.name)
        if not re.search(r"(WriteBatch|SerializationBuffer)( as |::)", base):
            continue
        n += 1
        for s_ in b.calls():
            if REORDER.search(s_.node["fn"]["path"]):
                ctx.touch(b)
                ctx.fail(o, s_, "%s reorders batched operations with %s: two operations on one key can be swapped, the store then keeps the older write (or a deleted key)" % (
                    b.name, short(s_.node["fn"]["path"])))
    o.sites = n
    if n < 8:
        ctx.fail(o, "(program)", "expected >= 8 WriteBatch / SerializationBuffer bodies in %s, found %d" % (modfile, n))


def consume_replays_all(ctx, prog, B, modfile, tag):
    """What a serialization buffer recorded reaches the store only through WriteBatch::consume_serialization_buffer: every
    kind of buffered operation must be replayed by a store call of the right kind (an arm that does nothing silently drops
    that kind of write)."""
    o = ctx.ob("C11.g", "%s/consume-replays-every-operation-kind" % tag, "K3+K8", "consume_serialization_buffer performs a store call for every Operation variant")
    b = ctx.touch(prog.body("<%sWriteBatch as WriteBatch>::consume_serialization_buffer" % B))
    adt = next((k for k in prog.adts if k.endswith("kv_database::%s::Operation" % modfile)), None)
    if adt is None:
        ctx.fail(o, "(program)", "anchor missing: %s::Operation" % modfile)
        return
    names = [v["name"] for v in prog.adts[adt]["variants"]]
    edges = [(sb, tb, names[int(v)]) for sb, tb, v, c in df.variant_edges(b, "kv_database::%s::Operation" % modfile) if v != "otherwise"]
    o.sites = len(edges)
    seen = {n_ for _, _, n_ in edges}
    if set(names) - seen:
        ctx.fail(o, Site(b, 0, 0), "consume_serialization_buffer does not handle the operation kinds %s" % sorted(set(names) - seen))
    STORE = re.compile(r"::(insert|remove|put_cf|delete_cf)$")
    heads = [s_.bb for s_ in b.calls_to(r"Iterator::next$")]
    for sb, tb, nm in edges:
        mine = b.reachable([tb], removed_nodes=[sb] + heads)       # this arm (arms of an or-pattern share their body) up to the next iteration
        calls = [s_ for s_ in b.calls() if s_.bb in mine and STORE.search(s_.node["fn"]["path"])]
        want_put = nm in ("WideColumnPut", "InsertMember")
        if not calls:
            ctx.fail(o, Site(b, tb, 0), "consume_serialization_buffer drops buffered %s operations (no store call in that arm)" % nm)
        elif not any((s_.node["fn"]["path"].endswith(("insert", "put_cf"))) == want_put for s_ in calls):
            ctx.fail(o, calls[0], "consume_serialization_buffer replays %s with %s" % (nm, short(calls[0].node["fn"]["path"])))


def prefix_extractor_domain(ctx, prog):
    """RocksDB consults the prefix Bloom filter of an SST file only if both the stored rows and the seek target are in the
    extractor's domain, and it trusts a negative answer.  A member row is `[len][key][element]`, the seek target `[len][key]`:
    the domain test must accept every row whose seek target it accepts.  `key.len() >= 8` (a length header is present) does;
    any upper bound on the ROW length does not - a short key with long members is then absent from the filter while its
    seek target is in the domain, and a scan after the rows reached an SST file returns nothing."""
    o = ctx.ob("C11.i", "rocksdb/prefix-extractor-domain-has-no-upper-bound", "K5", "the in_domain closure of the key-of-set prefix extractor tests only that the length header is present")
    cl = [b for b in prog.find(r"create_key_of_set_prefix_extractor::\{closure#\d+\}$")]
    outer = [b for b in prog.find(r"Impl::create_key_of_set_prefix_extractor$")]
    if len(outer) != 1 or not cl:
        ctx.fail(o, "(program)", "anchor missing: Impl::create_key_of_set_prefix_extractor and its in_domain closure (%d / %d)" % (len(outer), len(cl)))
        return
    ctx.touch(outer[0])
    n = 0
    for c in cl:
        ctx.touch(c)
        cmps = [(Site(c, bi, si), st["rv"]) for bi, blk in enumerate(c.blocks) if not blk["cleanup"] for si, st in enumerate(blk["stmts"])
                if st["k"] == "assign" and st["rv"].get("k") == "bin" and st["rv"]["op"] in ("Ge", "Gt", "Le", "Lt", "Eq", "Ne")]
        calls = [s_ for s_ in c.calls() if not re.search(r"slice::<impl \[T\]>::len$", s_.node["fn"]["path"])]
        n += len(cmps) + len(calls)
        bad = [x for x in cmps if not (x[1]["op"] in ("Ge", "Gt") and const_int(x[1]["b"]) in (8, 7))]
        if len(cmps) != 1 or bad or calls:
            ctx.fail(o, (bad or cmps or [(Site(c, 0, 0), None)])[0][0] if not calls else calls[0],
                     "the domain test of the key-of-set prefix extractor does more than `len >= 8` (%d comparisons, %d calls): rows outside the domain are not in the SST prefix filter although "
                     "their seek target is - a scan of a short key whose members are all long returns nothing once the rows were flushed" % (len(cmps), len(calls)))
    o.sites = n


STORE_MUTATORS = {
    # the store's own mutating entry points (NOT the batch's staging calls put_cf / insert / remove on the write batch object)
    "rocksdb": r"^rust_rocksdb::db::DBCommon::<.*>::(write|write_opt|write_without_wal|put|put_opt|put_cf|put_cf_opt|delete|delete_opt|delete_cf|delete_cf_opt|"
               r"merge|merge_opt|merge_cf|merge_cf_opt|delete_range_cf|delete_range_cf_opt|delete_file_in_range|delete_file_in_range_cf|ingest_external_file\w*)$",
    "fjall": r"^fjall::batch::WriteBatch::commit$|^fjall::keyspace::Keyspace::(insert|remove|ingest\w*|clear)$|^fjall::\w+::\w*Tx\w*::(insert|remove|commit)$",
}


def store_written_only_by_commit(ctx, prog, tag, wb_type):
    """A batch takes effect as a whole or not at all (and never before commit) only if nothing but `commit` moves data into
    the store: a staging method (put / insert_member / consume_serialization_buffer) that writes to the store itself - a
    `spill when large` backstop, a write-through shortcut - makes a prefix of the batch visible and durable while the batch
    is still being built, and leaves it there when the batch is dropped."""
    o = ctx.ob("C11.j", "%s/store-is-written-only-by-commit" % tag, "K7+K2", "every call of a mutating entry point of the store sits in <%s as WriteBatch>::commit" % wb_type)
    rx = re.compile(STORE_MUTATORS[tag])
    owner = "<%s as WriteBatch>::commit" % wb_type
    n = 0
    for b in prog.all_bodies(["qbice_storage"]):
        for s_ in b.calls(lambda f, t: bool(rx.search(f["path"]) or rx.search(f.get("res_path", "")))):
            n += 1
            ctx.touch(b)
            if b.name != owner:
                ctx.fail(o, s_, "%s writes to the store directly (`%s`) outside %s: part of a batch becomes visible, and survives a crash or the batch being dropped, before "
                         "the batch is committed" % (b.name, s_.node["fn"]["path"].rsplit("::", 1)[-1], owner))
    o.sites = n
    if n < 1:
        ctx.fail(o, "(program)", "positive control silent: no store write found at all, not even in %s" % owner)


def run(ctx):
    prog = ctx.prog
    ctx.run_clause("C11.j", lambda c: store_written_only_by_commit(c, prog, "fjall", "FjallWriteBatch"))
    ctx.run_clause("C11.a", lambda c: backend_rules(c, prog, "Fjall", "Fjall", "fjall", "fjall"))
    ctx.run_clause("C11.b", lambda c: discriminant_table(c, prog))
    ctx.run_clause("C11.d", lambda c: column_kind_agreement(c, prog, "fjall", "fjall"))
    ctx.run_clause("C11.f", lambda c: operation_order(c, prog, "fjall", "fjall"))
    ctx.run_clause("C11.g", lambda c: consume_replays_all(c, prog, "Fjall", "fjall", "fjall"))
    # both backends hand every stored value / member / key to the one Postcard decoder: the raw-read and varint-reader
    # clauses of the serializer (C12.l, C12.k) are necessary conditions of "a read returns the committed bytes" here too
    from . import C12
    ctx.alias = {"C12.l": "C11.h", "C12.k": "C11.h"}
    ctx.run_clause("C11.h", lambda c: C12.c12l(c, prog))
    ctx.run_clause("C11.h", lambda c: C12.c12k(c, prog))
    ctx.alias = {}
    try:
        rocks = ctx.program("rocks")
    except Exception as e:  # EngineError is reported by the caller
        raise
    ctx.run_clause("C11.a", lambda c: backend_rules(c, rocks, "RocksDB", "RocksDB", "rocksdb", "rocksdb"))
    ctx.run_clause("C11.e", lambda c: upper_bound_tight(c, rocks))
    ctx.run_clause("C11.j", lambda c: store_written_only_by_commit(c, rocks, "rocksdb", "RocksDBWriteBatch"))
    ctx.run_clause("C11.i", lambda c: prefix_extractor_domain(c, rocks))
    ctx.run_clause("C11.d", lambda c: column_kind_agreement(c, rocks, "rocksdb", "rocksdb"))
    ctx.run_clause("C11.f", lambda c: operation_order(c, rocks, "rocksdb", "rocksdb"))
    ctx.run_clause("C11.g", lambda c: consume_replays_all(c, rocks, "RocksDB", "rocksdb", "rocksdb"))

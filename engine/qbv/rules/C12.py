"""C12 — serialization round-trips every supported value (structural clauses: wire-shape
equivalence of every Decode impl with the Encode impl selected for the same type, self-delimiting
shapes, primitive width table)."""
import os
import re

from .. import dataflow as df
from .. import extract
from .. import wire
from ..facts import Site, op_local, short, const_int

EXPLANATION = (
    "Static analysis over rustc's promoted MIR of every Encode/Decode impl of the workspace (hand-written, macro-generated and derived; smallvec and "
    "bitvec features on). C12.a each Decode body is turned into a finite automaton over wire events (primitive reads with the constants they are "
    "matched against, nested decodes; error exits pruned, loops as cycles) and compared, by determinisation and product search, with the automaton of "
    "the Encode impl that trait selection picks for the same self type (concrete nested types are expanded through their own impls, so Decode for "
    "Arc<[T]> is compared with Encode for Arc<U> at U=[T]). C12.b self-delimiting: every repetition in an Encode body is preceded by an emitted "
    "length (fixed-size arrays excepted) and every alternation on the value's own variant starts each arm with a distinct constant tag. C12.c the "
    "Postcard encoder and decoder (and the Encoder/Decoder default methods) use the same wire primitive for each of the 19 emit_X/read_X pairs. "
    "C12.n in every container decoder the bound of the element loop IS the length read from the stream (no clamp, no arithmetic; BitVec's "
    "bits-to-elements div_ceil excepted). Numeric correctness of LEB128/zig-zag and value equality after decoding are NOT decided.")

NOT_DECIDED = [
    "an exhausted RangeInclusive (its private `exhausted` flag takes part in equality) is encoded as (start, end) and decodes to a fresh range; non-UTF-8 paths are rejected by Encode for Path",
    "arithmetic of the (non-const) varint READERS at the boundaries (the const encoders and zig-zag are decided by the C12.g witness); equality of decoded collections; byte-exact consumption (follows from shape equality only if primitives round-trip)",
    "which variant a tag is decoded into when several variants carry the same field types (variant correspondence is checked only through the emitted tag constants)",
]
ASSUMPTIONS = ["user types implementing ToOwned encode like their Owned form (checked for str/String, [T]/Vec<T>, Path/PathBuf)"]

CRATES = ["qbice_serialize", "qbice_storage", "qbice", "qbice_stable_hash", "qbice_stable_type_id"]


def shapes_for(ctx, progs):
    enc = wire.Shapes(progs[0], "enc", progs[1:])
    dec = wire.Shapes(progs[0], "dec", progs[1:])
    return enc, dec


def c12a(ctx, progs, tag="main"):
    enc, dec = shapes_for(ctx, progs)
    o = ctx.ob("C12.a", "%s/enumeration" % tag, "K9", "every Decode impl is paired with the Encode impl selected for its self type")
    o.sites = len(dec.impls)
    floor = 90
    if len(dec.impls) < floor or len(enc.impls) < floor:
        ctx.fail(o, "(program)", "expected >= %d Decode and Encode impls, found %d / %d" % (floor, len(dec.impls), len(enc.impls)))
    ctx.notes.append("%s: %d Encode impls, %d Decode impls" % (tag, len(enc.impls), len(dec.impls)))
    unpaired = []
    compared = 0
    for d in sorted(dec.impls, key=lambda d: repr(d["self"])):
        b = d["body"]
        ctx.touch(b)
        e, s = enc.select(d["self"])
        name = repr(d["self"])
        if e is None:
            unpaired.append(name)
            oo = ctx.ob("C12.a", "%s/pair/%s" % (tag, short(name)), "K9", "Decode impl has an Encode counterpart")
            ctx.fail(oo, Site(b, 0, 0), "no Encode impl is selected for `%s`: values of this type can be decoded but not produced by this serializer" % short(name))
            continue
        ne = enc.lang_of_impl(e, s)
        nd = dec.lang_of_impl(d, {})
        diff = wire.language_diff(ne, nd)
        compared += 1
        if diff is not None:
            side, path = diff
            oo = ctx.ob("C12.a", "%s/shape/%s" % (tag, short(name)), "K9", "the decoder reads exactly what the encoder of the same type writes")
            oo.sites = 1
            ctx.touch(e["body"])
            ctx.fail(oo, Site(b, 0, 0), "wire shapes of Encode and Decode for `%s` disagree: only the %s accepts the event sequence [%s]" % (
                short(name), side, wire.fmt_path(path)),
                detail="Encode impl at %s, Decode impl at %s" % (e["rec"]["span"], d["rec"]["span"]))
    o.sites = compared
    o2 = ctx.ob("C12.a", "%s/summary" % tag, "K9", "all paired impls have equal wire languages")
    o2.sites = compared
    ctx.call_sites += compared
    return enc, dec


def is_self_place(b, place):
    """The place is (a reborrow/deref/field of) the `self` parameter, reached without any call."""
    l = place[0]
    seen = set()
    while l not in seen:
        seen.add(l)
        if l == 1:
            return True
        defs = b.defs.get(l, [])
        if len(defs) != 1 or defs[0][1] != "assign":
            return False
        rv = defs[0][2]["rv"]
        if rv["k"] in ("ref", "rawptr"):
            l = rv["pl"][0]
        elif rv["k"] in ("use", "cast") and op_local(rv["op"]) is not None:
            l = op_local(rv["op"])
        else:
            return False
    return False


def first_labels(nfa, state, eps, lab):
    """Set of first non-epsilon labels reachable from state, with the states after them."""
    seen, work, out = {state}, [state], []
    while work:
        s = work.pop()
        for t in eps.get(s, ()):
            if t not in seen:
                seen.add(t)
                work.append(t)
        for l, ts in lab.get(s, {}).items():
            for t in ts:
                out.append((l, t))
    return out, seen


def c12b(ctx, enc):
    o = ctx.ob("C12.b", "length-before-repetition", "K9", "every loop that emits wire events is preceded by an emitted length (fixed-size arrays excepted)")
    n = 0
    for e in enc.impls:
        b = e["body"]
        loops = df.iter_loops(b)
        for lp in loops:
            reg = lp.region()
            ev = [s for s in b.calls() if s.bb in reg and (wire.PRIM.search(s.node["fn"]["path"]) or s.node["fn"]["path"] == wire.ENC_TRAIT + "::encode")]
            if not ev:
                continue
            n += 1
            ctx.touch(b)
            if e["self"].kind == "array":
                continue
            lens = [s for s in b.calls_to(r"Encoder::emit_usize$") if b.site_dominates(s, lp.head)]
            if not lens:
                oo = ctx.ob("C12.b", "length-before-repetition/%s" % short(repr(e["self"])), "K9", o.desc)
                ctx.fail(oo, lp.head, "Encode for `%s` emits a repetition without a preceding length: a following value cannot be told apart from another element" % short(repr(e["self"])))
    o.sites = n
    if n < 10:
        ctx.fail(o, "(program)", "expected >= 10 emitting loops in Encode impls, found %d" % n)
    o = ctx.ob("C12.b", "tag-before-alternation", "K9", "every alternation on the encoded value's own variant starts each arm with a distinct constant tag")
    m = 0
    for e in enc.impls:
        b = e["body"]
        nfa = enc.body_nfa(b)
        for sb in df.switches(b):
            c = df.switch_cond(b, sb)
            if c.kind != "disc":
                continue
            if not is_self_place(b, c.place):
                continue
            # arms: which wire events follow?
            arms = {}
            for v, tb in df.switch_edges(b, sb):
                reg = b.reachable([tb], removed_nodes=[sb])
                evs = [s for s in b.calls() if s.bb in reg and (wire.PRIM.search(s.node["fn"]["path"]) or s.node["fn"]["path"] == wire.ENC_TRAIT + "::encode")]
                if tb in b.live_blocks and b.blocks[tb]["term"]["k"] != "unreachable":
                    arms[(v, tb)] = evs
            live_arms = {k: v for k, v in arms.items() if any(r in b.reachable([k[1]]) for r in b.returns())}
            if len(live_arms) < 2 or not any(live_arms.values()):
                continue
            m += 1
            ctx.touch(b)
            tags = []
            for (v, tb), evs in live_arms.items():
                # first event on every path from the arm must be emit_<k>(const)
                firsts = set()
                r = b.reachable([tb], removed_nodes=[sb], stop=set(s.bb for s in evs))
                for s in evs:
                    if s.bb in r and not any(b.site_dominates(o2, s) and o2.bb in r and o2 != s for o2 in evs):
                        firsts.add(s)
                tag = None
                for s in firsts:
                    fn = s.node["fn"]
                    mm = wire.PRIM.search(fn["path"])
                    cval = None
                    if mm and len(s.node["args"]) >= 2:
                        cc = s.node["args"][1].get("c")
                        if cc is not None and ("v" in cc or cc.get("s") in ("true", "false")):
                            cval = (mm.group(2), int(cc["v"]) if "v" in cc else (1 if cc["s"] == "true" else 0))
                    tag = cval if tag is None or tag == cval else "mixed"
                    if cval is None:
                        tag = "none"
                tags.append(((v, tb), tag))
            vals = [t for _, t in tags]
            if any(t in (None, "none", "mixed") for t in vals) or len(set(vals)) != len(vals):
                oo = ctx.ob("C12.b", "tag-before-alternation/%s" % short(repr(e["self"])), "K9", o.desc)
                ctx.fail(oo, Site(b, sb, len(b.blocks[sb]["stmts"])), "Encode for `%s` branches on the value's variant but the arms do not start with pairwise distinct constant tags (%s): "
                         "the decoder cannot tell the variants apart" % (short(repr(e["self"])), vals))
    o.sites = m
    if m < 4:
        ctx.fail(o, "(program)", "expected >= 4 variant alternations in Encode impls, found %d" % m)


ATOM = [
    (re.compile(r"encode_varint_u(\d+)$|read_varint_u(\d+)$"), lambda m: ("varint", m.group(1) or m.group(2))),
    (re.compile(r"zigzag_(?:encode|decode)_i(\d+)$"), lambda m: ("zigzag", m.group(1))),
    (re.compile(r"<impl (f32|f64)>::(to|from)_le_bytes$"), lambda m: ("le", m.group(1))),
    (re.compile(r"PostcardDecoder::<R>::read_byte$"), lambda m: ("byte", "")),
]


def prim_descriptor(prog, which, name, depth=0, seen=()):
    """Ordered list of wire atoms of PostcardEncoder::emit_<name> / PostcardDecoder::read_<name>."""
    trait = wire.ENCODER if which == "enc" else wire.DECODER
    impl_self = "PostcardEncoder" if which == "enc" else "PostcardDecoder"
    meth = ("emit_" if which == "enc" else "read_") + name
    body = None
    for b in prog.all_bodies(["qbice_serialize"]):
        r = b.rec
        if r.get("name") == meth and r.get("trait") == trait and impl_self in r.get("self_ty", ""):
            body = b
    if body is None:
        for b in prog.all_bodies(["qbice_serialize"]):
            r = b.rec
            if r.get("name") == meth and r.get("trait_default") == trait:
                body = b
    if body is None or depth > 5 or meth in seen:
        return [("missing", meth)]
    out = []
    order = body._rpo()
    for bi in order:
        blk = body.blocks[bi]
        if blk["cleanup"]:
            continue
        for st in blk["stmts"]:
            if st["k"] == "assign" and st["rv"]["k"] == "agg" and st["rv"].get("ak") == "array" and which == "enc":
                if len(st["rv"]["ops"]) == 1:
                    out.append(("byte", ""))
            if st["k"] == "assign" and st["rv"]["k"] == "cast" and st["rv"]["ty"] in ("u64", "i64", "usize", "isize"):
                pass
        t = blk["term"]
        if t["k"] != "call" or "path" not in t["fn"]:
            continue
        p = t["fn"]["path"]
        mm = re.search(r"::(emit|read)_([a-z0-9_]+)$", p)
        if mm and t["fn"].get("trait") == trait:
            out.extend(prim_descriptor(prog, which, mm.group(2), depth + 1, seen + (meth,)))
            continue
        if re.search(r"PostcardDecoder::<R>::read_varint_u(\d+)$", p) or re.search(r"postcard::encode_varint_u(\d+)$", p):
            out.append(("varint", re.search(r"u(\d+)$", p).group(1)))
            continue
        for rx, f in ATOM:
            m2 = rx.search(p)
            if m2:
                out.append(f(m2))
                break
        else:
            if p.endswith("Write::write_all") and name == "raw_bytes":
                out.append(("raw", ""))
            if p.endswith("Read::read_exact") and name == "raw_bytes":
                out.append(("raw", ""))
    return out


PRIMS = ["u8", "u16", "u32", "u64", "u128", "usize", "i8", "i16", "i32", "i64", "i128", "isize", "raw_bytes", "bool", "char", "f32", "f64", "str", "bytes"]


def c12c(ctx, prog):
    o = ctx.ob("C12.c", "primitive-width-table", "K8", "emit_X and read_X use the same wire primitive for every X")
    n = 0
    table = {}
    for x in PRIMS:
        de = prim_descriptor(prog, "enc", x)
        dd = prim_descriptor(prog, "dec", x)
        table[x] = (de, dd)
        n += 1
        # the decoder of raw bytes reads via read_exact inside read_raw_bytes; floats read_exact + from_le_bytes
        ne = [a for a in de if a[0] != "byte" or True]
        if x in ("f32", "f64"):
            ne = [a for a in de if a[0] == "le"]
            nd = [a for a in dd if a[0] == "le"]
        else:
            nd = dd
        # the decoder undoes the encoder's steps in reverse order (varint first, then zig-zag)
        # wire atoms must agree in order; value transforms (zig-zag) are undone in reverse order: compare them as a multiset
        we, wd = [a for a in ne if a[0] != "zigzag"], [a for a in nd if a[0] != "zigzag"]
        te, td = sorted(a for a in ne if a[0] == "zigzag"), sorted(a for a in nd if a[0] == "zigzag")
        if we != wd or te != td or not ne or any(a[0] == "missing" for a in ne + nd):
            oo = ctx.ob("C12.c", "primitive/%s" % x, "K8", o.desc)
            oo.sites = 1
            ctx.fail(oo, "(postcard.rs)", "emit_%s writes %s but read_%s reads %s" % (x, ne, x, nd))
    o.sites = n
    ctx.notes.append("primitive table: %s" % {k: v[0] for k, v in table.items()})
    # widths: varint buffers are large enough — const table
    o2 = ctx.ob("C12.c", "zigzag-pairs-same-width", "K8", "zig-zag encode/decode helpers are used at matching widths")
    o2.sites = 4
    for w in ("16", "32", "64", "128"):
        e = table["i" + w][0]
        d = table["i" + w][1]
        if ("zigzag", w) not in e or ("zigzag", w) not in d or ("varint", w) not in e or ("varint", w) not in d:
            ctx.fail(o2, "(postcard.rs)", "i%s is not zig-zag + varint of width %s on both sides (enc %s / dec %s)" % (w, w, e, d))


def _rpo_pos(b):
    if not hasattr(b, "_rpo_index"):
        b._rpo_index = {bb: i for i, bb in enumerate(b._rpo())}
    return b._rpo_index


def enc_field_seq(b):
    """{variant index or None: [field names in emission order]} for an Encode body whose events take fields of `self`."""
    pos = _rpo_pos(b)
    ev = []
    for s_ in b.calls():
        p = s_.node["fn"]["path"]
        if p == wire.ENC_TRAIT + "::encode":
            arg = s_.node["args"][0]
        elif wire.PRIM.search(p) and s_.node["fn"].get("trait") == wire.ENCODER and len(s_.node["args"]) > 1:
            arg = s_.node["args"][1]
            if arg.get("c") is not None:
                continue
        else:
            continue
        if df.op_place(arg) is None:
            return None
        ap = df.access_path(b, arg)
        if not ap or ap[0] != "<param _1>":
            return None
        fields = [x for x in ap[1:] if not x.startswith("<")]
        if not fields:
            return None
        ev.append((pos.get(s_.bb, 0), s_, fields[-1]))
    if not ev:
        return {}
    ev.sort(key=lambda x: x[0])
    edges = df.variant_edges(b, "")
    self_edges = [(sb, tb, v) for sb, tb, v, c in edges if is_self_place(b, c.place) and v != "otherwise"]
    out = {}
    for _, s_, f in ev:
        var = None
        for sb, tb, v in self_edges:
            if b.edge_dominates((sb, tb), s_.bb) and s_.bb in b.reachable([tb]):
                var = v
        out.setdefault(var, []).append(f)
    return out


def dec_field_seq(b, self_adt):
    """{variant index or None: [field names in the order their values are read]} for a Decode body building `self_adt`."""
    pos = _rpo_pos(b)
    out = {}
    adt = b.prog.adts.get(self_adt)
    is_enum = adt is not None and adt["adt_kind"] == "Enum"
    for a in b.assigns(lambda st: st["rv"]["k"] == "agg" and st["rv"].get("ak") == "adt" and st["rv"].get("adt") == self_adt):
        rv = a.node["rv"]
        seq = []
        for name, op_ in zip(rv["fields"], rv["ops"]):
            if df.op_place(op_) is None:
                continue
            reads = [x.site for x in df.origins_of_operand(b, op_) if x.kind == "call" and
                     ((x.callee() or "") == wire.DEC_TRAIT + "::decode" or (wire.PRIM.search(x.callee() or "") and x.site.node["fn"].get("trait") == wire.DECODER))]
            if len(reads) != 1:
                if reads:
                    return None
                continue
            seq.append((pos.get(reads[0].bb, 0), name))
        seq.sort()
        var = int(rv["variant"]) if is_enum or adt is None and int(rv["variant"]) != 0 else None
        if is_enum:
            var = int(rv["variant"])
        out[var] = [n for _, n in seq]
    return out


def c12e(ctx, enc, dec, tag):
    o = ctx.ob("C12.e", "%s/field-order-correspondence" % tag, "K8+K5", "the i-th value written comes from the field that the i-th value read is stored into")
    n = 0
    names = []
    for d in dec.impls:
        adt_path = d["rec"].get("self_adt")
        if not adt_path:
            continue
        e, s_ = enc.select(d["self"])
        if e is None or e["rec"].get("self_adt") != adt_path:
            continue
        es = enc_field_seq(e["body"])
        ds = dec_field_seq(d["body"], adt_path)
        if not es or not ds:
            continue
        common = [v for v in es if v in ds]
        if not common:
            continue
        n += 1
        ctx.touch(d["body"])
        names.append("%s%s" % (short(repr(d["self"])), {k: es[k] for k in common}))
        for v in common:
            if es[v] != ds[v]:
                oo = ctx.ob("C12.e", "%s/field-order/%s" % (tag, short(repr(d["self"]))), "K8+K5", o.desc)
                oo.sites = 1
                ctx.fail(oo, Site(d["body"], 0, 0), "`%s`%s: Encode writes the fields in the order %s but Decode reads them into %s — values of equal type are silently swapped" % (
                    short(repr(d["self"])), "" if v is None else " (variant #%s)" % v, es[v], ds[v]))
    o.sites = n
    o.detail = "; ".join(names)
    if os.environ.get("QBV_DEBUG"):
        print("\n".join(names))
    if n < (20 if tag == "main" else 12):
        ctx.fail(o, "(program)", "field correspondence could be established for only %d types (%s)" % (n, tag))


def c12j(ctx, prog):
    """BitVec is written as `bit length, then whole storage elements`; the decoder has to cut the rebuilt vector back to the
    bit length, else up to bits_of::<T>() - 1 padding bits become part of the value."""
    o = ctx.ob("C12.j", "BitVec/decoded-vector-cut-to-the-bit-length", "K1+K5", "Decode for BitVec truncates the rebuilt vector to the length it read, before returning it")
    ds = [b for b in prog.all_bodies(["qbice_serialize"]) if b.rec.get("trait") == wire.DEC_TRAIT and (b.rec.get("self_ty") or "").startswith("bitvec::vec::BitVec")]
    o.sites = len(ds)
    if not ds and ctx.key_prefix:
        # the workspace build does not enable the serializer's `bitvec` feature: the impl is not part of that configuration
        # (the main shape, which does enable it, keeps the anchor requirement)
        o.sites = 0
        return
    if len(ds) != 1:
        ctx.fail(o, "(program)", "anchor missing: Decode for BitVec (found %d)" % len(ds))
        return
    b = ctx.touch(ds[0])
    tr = b.calls_to(r"BitVec<T, O>>::truncate$|BitVec::<T, O>::truncate$")
    rd = b.calls_to(r"Decoder::read_usize$")
    if len(tr) != 1 or len(rd) != 1 or not any(x.kind == "call" and x.site == rd[0] for x in df.origins_of_operand(b, tr[0].node["args"][1])):
        ctx.fail(o, Site(b, 0, 0), "Decode for BitVec does not truncate the rebuilt vector to the bit length it read: the padding bits of the last storage element become part of the value")
    else:
        oks = b.aggregates(r"core::result::Result$", "Ok")
        for k in oks:
            if not b.site_dominates(tr[0], k):
                ctx.fail(o, k, "Decode for BitVec can return the vector before cutting it to the bit length")


WIDE = ("u16", "u32", "u64", "u128")


def _skeleton(b, width):
    """A canonical text of a body: live non-cleanup blocks in reverse post-order, locals renamed by first appearance, the
    value's integer type and the constant equal to its bit width abstracted, line numbers and messages dropped."""
    import json as _json
    order = [bb for bb in b._rpo() if not b.blocks[bb]["cleanup"]]
    pos = {bb: i for i, bb in enumerate(order)}
    names = {}

    def loc(l):
        return names.setdefault(l, "L%d" % len(names))

    def norm(x):
        if isinstance(x, dict):
            if set(x) >= {"ty", "s"}:                    # a constant
                ty, sv = x["ty"], x.get("v", x["s"])
                if ty == "&str":
                    return "MSG"
                if str(sv) == str(width) and ty != "u8":
                    sv = "BITS"
                return "c:%s:%s" % ("W" if ty in WIDE else ty, sv)
            return {k: norm(v) for k, v in sorted(x.items()) if k not in ("line", "exp", "unwind", "gargs", "ghead", "self_ty", "res_key", "res_path", "key")}
        if isinstance(x, list):
            if len(x) == 2 and isinstance(x[0], int) and isinstance(x[1], list):      # a place
                return [loc(x[0]), x[1]]
            return [norm(v) for v in x]
        if isinstance(x, str):
            # the shift amount is checked as a u32 whatever the width: all wide unsigned types are one abstract type
            return re.sub(r"\bu(16|32|64|128)\b", "W", x)
        return x
    out = []
    for bb in order:
        blk = b.blocks[bb]
        st = [norm(s_) for s_ in blk["stmts"] if s_["k"] == "assign"]
        t = dict(blk["term"])
        for k in ("t", "imag", "otherwise"):
            if isinstance(t.get(k), int):
                t[k] = "B%d" % pos.get(t[k], -1)
        if "targets" in t:
            t["targets"] = [[v, "B%d" % pos.get(x, -1)] for v, x in t["targets"]]
        out.append(_json.dumps([st, norm(t)], sort_keys=True))
    return out


def c12k(ctx, prog):
    """The LEB128 READERS are not const and so out of the witness's reach (C12.g decides the writers and zig-zag).  What is
    in the shape of the code: (1) the four width variants are siblings and must be the same loop up to the width, (2) the
    Ok exit is taken exactly on the edge where the byte's continuation bit (0x80) is clear - the writer sets that bit on
    every byte but the last, (3) the payload mask / the shift step are the writer's 0x7f / 7."""
    o = ctx.ob("C12.k", "varint-readers/siblings-agree-and-stop-on-a-clear-continuation-bit", "K3+K6", "read_varint_u16/u32/u64/u128 are the same loop up to the width; Ok is returned on the clear-0x80 edge; payload mask 0x7f, shift step 7")
    sk = {}
    for w in (16, 32, 64, 128):
        bs = [b for b in prog.find(r"PostcardDecoder::read_varint_u%d$" % w)]
        if len(bs) != 1:
            ctx.fail(o, "(program)", "anchor missing: PostcardDecoder::read_varint_u%d (found %d)" % (w, len(bs)))
            return
        b = ctx.touch(bs[0])
        sk[w] = _skeleton(b, w)
        o.sites += 1
        # (2) polarity of the exit
        oks = b.aggregates(r"core::result::Result$", "Ok")
        tests = []
        for bb in b.live_blocks:
            t = b.blocks[bb]["term"]
            if t["k"] != "switch" or t.get("ty") != "bool":
                continue
            l = op_local(t["op"])
            for _s, dk, dn in (b.defs.get(l) or []):
                rv = dn.get("rv") if dk == "assign" else None
                if not rv or rv["k"] != "bin" or rv["op"] not in ("Eq", "Ne", "Lt", "Ge"):
                    continue
                a_l, c_ = op_local(rv["a"]), const_int(rv["b"])
                false_t = [x for v, x in t["targets"] if v == "0"][0]
                true_t = t["otherwise"]
                if rv["op"] in ("Eq", "Ne") and c_ == 0:
                    inner = [dn2["rv"] for _s2, dk2, dn2 in (b.defs.get(a_l) or []) if dk2 == "assign" and dn2["rv"].get("k") == "bin"]
                    if any(i["op"] == "BitAnd" and const_int(i["b"]) == 128 for i in inner):
                        tests.append((bb, true_t if rv["op"] == "Eq" else false_t, false_t if rv["op"] == "Eq" else true_t))
                elif rv["op"] in ("Lt", "Ge") and c_ == 128 and (rv["b"].get("c") or {}).get("ty") == "u8":
                    tests.append((bb, true_t if rv["op"] == "Lt" else false_t, false_t if rv["op"] == "Lt" else true_t))
        if len(tests) != 1 or len(oks) != 1:
            ctx.fail(o, Site(b, 0, 0), "%s: expected one test of the continuation bit (`byte & 0x80 == 0` or `byte < 0x80`) and one Ok exit, found %d / %d - unrecognised reader shape" % (b.name, len(tests), len(oks)))
            continue
        bb, clear_t, set_t = tests[0]
        if not b.edge_dominates((bb, clear_t), oks[0].bb) or oks[0].bb in b.reachable([set_t], removed_nodes=[bb]):
            ctx.fail(o, oks[0], "%s returns the accumulated value on the edge where the continuation bit 0x80 is SET (or not only where it is clear): the writer marks every byte but "
                     "the last with that bit, so any value is cut after its first byte or read past its end" % b.name)
        # (3) constants
        masks = [const_int(x.node["rv"]["b"]) for x in b.sites() if not x.is_term and x.node.get("k") == "assign" and x.node["rv"].get("k") == "bin" and x.node["rv"]["op"] == "BitAnd"]
        steps = [const_int(x.node["rv"]["b"]) for x in b.sites() if not x.is_term and x.node.get("k") == "assign" and x.node["rv"].get("k") == "bin" and x.node["rv"]["op"] in ("Add", "AddWithOverflow")]
        if 127 not in masks or not set(masks) <= {127, 128} or steps != [7]:   # the 0x80 test itself is recognised above, in either idiom
            ctx.fail(o, Site(b, 0, 0), "%s: payload mask / continuation mask / shift step are %s / %s, the writer uses 0x7f, 0x80 and 7 bits per byte" % (b.name, sorted(masks), steps))
    ref = sk[64]
    for w in (16, 32, 128):
        if sk[w] != ref:
            i = next((i for i, (x, y) in enumerate(zip(sk[w], ref)) if x != y), min(len(sk[w]), len(ref)))
            ctx.fail(o, Site(prog.find(r"PostcardDecoder::read_varint_u%d$" % w)[0], 0, 0), "read_varint_u%d is not the same loop as read_varint_u64 up to the width (first difference at block #%d of the "
                     "reverse post-order): the four readers serve one writer family and must agree on test polarity, masks, step and the overflow guard" % (w, i))


def c12l(ctx, prog):
    """Raw reads (`Read::read_exact`) into a buffer that outlives the read.  (1) A read that sits in a loop and targets the
    whole buffer or a prefix range (`buf[..n]`, no moving start) of a buffer created outside the loop overwrites the same
    bytes on every iteration: lengths up to one chunk decode, longer ones silently yield the last chunk followed by
    zeroes.  (2) The length-driven primitive `read_raw_bytes(len)` sizes its buffer by the requested length itself."""
    o = ctx.ob("C12.l", "raw-reads/every-iteration-fills-fresh-bytes", "K2+K5", "no read_exact in a loop targets the whole / a prefix of a loop-carried buffer; read_raw_bytes sizes its buffer by `len`")
    n = 0
    for b in prog.all_bodies(["qbice_serialize", "qbice_storage", "qbice"]):
        for s_ in b.calls_to(r"io::Read::read_exact$"):
            n += 1
            ctx.touch(b)
            cyc = b.reachable(b.successors(s_.bb))
            if s_.bb not in cyc:
                continue
            # walk the destination back to the buffer: reborrows, deref_mut (whole), index_mut (range)
            cur, kind, seen = op_local(s_.node["args"][1]), "whole", set()
            buf_site = None
            while cur is not None and cur not in seen:
                seen.add(cur)
                ds = b.defs.get(cur) or []
                if len(ds) != 1:
                    break
                site, dk, dn = ds[0]
                if dk == "call":
                    path = dn["fn"]["path"]
                    if path.endswith("IndexMut::index_mut"):
                        rty = b.local_ty(op_local(dn["args"][1])) if op_local(dn["args"][1]) is not None else ""
                        kind = "prefix" if re.search(r"range::(RangeTo|RangeToInclusive|RangeFull)\b", rty) else "moving"
                        cur = op_local(dn["args"][0])
                        continue
                    if path.endswith("DerefMut::deref_mut") or path.endswith("as_mut_slice") or path.endswith("AsMut::as_mut"):
                        cur = op_local(dn["args"][0])
                        continue
                    buf_site = site
                    break
                rv = dn["rv"]
                if rv["k"] == "ref":
                    base = rv["pl"][0]
                    if not rv["pl"][1] and b.local_ty(base).startswith(("alloc::vec::Vec<", "[u8;")) or (not rv["pl"][1] and not (b.defs.get(base) or [])):
                        # `&mut buf`: the buffer itself; where is it created?
                        bd = [x for x in (b.defs.get(base) or []) if x[1] in ("call", "assign")]
                        created_in_loop = bool(bd) and all(x[0].bb in cyc for x in bd[:1])
                        buf_site = bd[0][0] if bd else None
                        # a scratch buffer that is copied out inside the loop is fine: only a buffer that IS the result counts
                        import json as _json
                        flows, work = set(), [0]
                        while work:           # locals whose value is moved / copied (possibly through temporaries) into the return place
                            l_ = work.pop()
                            for _s3, dk3, dn3 in (b.defs.get(l_) or []):
                                if dk3 != "assign":
                                    continue
                                for m_ in re.finditer(r'"(?:mv|cp)": \[(\d+), \[\]\]', _json.dumps(dn3["rv"])):
                                    x_ = int(m_.group(1))
                                    if x_ not in flows:
                                        flows.add(x_)
                                        work.append(x_)
                        returned = base in flows
                        if kind in ("whole", "prefix") and not created_in_loop and returned:
                            ctx.fail(o, s_, "%s: read_exact inside a loop targets %s of a buffer that is created outside the loop: every iteration overwrites the same bytes - "
                                     "a value longer than one chunk decodes to its last chunk followed by padding, with the right length and no error" % (b.name, "the whole" if kind == "whole" else "a prefix range (`[..n]`)"))
                        break
                    cur = base
                    continue
                if rv["k"] in ("use", "cast"):
                    cur = op_local(rv["op"])
                    continue
                break
    o.sites = n
    if n < 4:
        ctx.fail(o, "(program)", "expected >= 4 read_exact sites (byte, raw bytes, f32, f64), found %d" % n)
    o2 = ctx.ob("C12.l", "read_raw_bytes/buffer-sized-by-the-requested-length", "K5", "when read_raw_bytes allocates its buffer in one go, the length is its `len` parameter")
    bs = prog.find(r"PostcardDecoder as Decoder>::read_raw_bytes$")
    if len(bs) != 1:
        ctx.fail(o2, "(program)", "anchor missing: <PostcardDecoder as Decoder>::read_raw_bytes (found %d)" % len(bs))
        return
    b = ctx.touch(bs[0])
    for s_ in b.calls_to(r"vec::from_elem$"):
        o2.sites += 1
        org = df.origins_of_operand(b, s_.node["args"][1])
        if not any(x.kind == "param" and str(x.info) == "_2" for x in org):
            ctx.fail(o2, s_, "read_raw_bytes allocates a buffer whose length is not the requested `len`: the bytes of the value are cut or padded")


RAW_BITS = r"bitvec::(vec::BitVec|slice::BitSlice|boxed::BitBox)::<T, O>::(as_raw_slice|as_raw_mut_slice|into_vec|into_boxed_slice|domain|domain_mut|bit_domain)$"


def raw_bit_storage(ctx, prog, bodies, clause, key, what):
    """A bit vector's storage elements are the value only when its first bit is bit 0 of the first element.  `split_off`,
    `from_bitslice(&bits[k..])`, `to_bitvec()` and their clones keep the source's head offset: their raw storage starts with
    dead bits, is shifted, and can be one element longer than ceil(len / bits).  A body that reads the raw storage to write
    or hash the VALUE must first establish alignment: the receiver comes from a vector on which `force_align` was called
    on every path to the read."""
    o = ctx.ob(clause, key, "K2+K5", "every read of a bit vector's raw storage in %s is preceded, on the same vector, by force_align" % what)
    for b in bodies:
        for s_ in b.calls_to(RAW_BITS):
            o.sites += 1
            ctx.touch(b)
            def base(op):
                """the local that holds the vector: follow reborrows / copies of references back to the `&v` / `&mut v`"""
                cur, seen = op_local(op), set()
                while cur is not None and cur not in seen:
                    seen.add(cur)
                    ds = [x for x in (b.defs.get(cur) or []) if x[1] == "assign"]
                    if len(ds) != 1:
                        return cur
                    rv = ds[0][2]["rv"]
                    if rv["k"] == "ref":
                        if rv["pl"][1] and rv["pl"][1] != ["*"]:
                            return None
                        if not rv["pl"][1]:
                            return rv["pl"][0]
                        cur = rv["pl"][0]
                    elif rv["k"] in ("use", "cast") and op_local(rv["op"]) is not None:
                        cur = op_local(rv["op"])
                    else:
                        return cur
                return cur
            recv = base(s_.node["args"][0])
            ok = False
            for f in b.calls_to(r"bitvec::vec::BitVec::<T, O>::force_align$"):
                if b.site_dominates(f, s_) and recv is not None and recv == base(f.node["args"][0]):
                    ok = True
            if not ok:
                # or the read is guarded by a test of the head offset (fast path for aligned vectors)
                for bb in b.live_blocks:
                    t = b.blocks[bb]["term"]
                    if t["k"] != "switch":
                        continue
                    src = df.origins_of_operand(b, t["op"])
                    if any(x.kind == "call" and re.search(r"BitIdx::<R>::into_inner$|BitPtr::<M, T, O>::raw_parts$|BitSpan.*::head$", x.callee() or "") for x in src):
                        for v, tb in t["targets"] + [["otherwise", t["otherwise"]]]:
                            if tb is not None and b.edge_dominates((bb, tb), s_.bb) and s_.bb not in b.reachable([x for _v, x in t["targets"] + [["o", t["otherwise"]]] if x != tb and x is not None], removed_nodes=[bb]):
                                ok = True
            if not ok:
                ctx.fail(o, s_, "%s reads `%s` of a bit vector whose head offset is not known to be 0 (no force_align on it): for a vector made by split_off / from_bitslice at an "
                         "unaligned index the storage starts with dead bits and is shifted - %s" % (b.name, short(s_.node["fn"]["path"]).split("::")[-1], what))
    return o


def c12m(ctx, prog):
    bodies = [b for b in prog.all_bodies(CRATES) if b.rec.get("trait") in (wire.ENC_TRAIT, wire.DEC_TRAIT)]
    o = raw_bit_storage(ctx, prog, bodies, "C12.m", "BitVec/raw-storage-read-only-when-aligned",
                        "an Encode body: the decoder rebuilds the vector from ceil(len / bits) elements at head 0, so the bits come back shifted and the stream can hold one element more than is read")
    if not ctx.key_prefix and o.sites < 1:
        ctx.fail(o, "(program)", "anchor missing: Encode for BitVec reading its raw storage")


def c12i(ctx, prog):
    """A ring buffer's storage is two slices whose split point depends on the deque's history.  An encoder (or decoder)
    that looks at the storage through as_slices() must consume BOTH halves; writing `as_slices().0` alone is a valid,
    self-consistent stream that silently drops the wrapped part."""
    import json as _json
    o = ctx.ob("C12.i", "layout-observers/both-halves-consumed", "K3", "whenever an Encode/Decode body calls VecDeque::as_slices / as_mut_slices, both halves of the result are used")
    n = 0
    for b in prog.all_bodies(CRATES):
        if b.rec.get("trait") not in (wire.ENC_TRAIT, wire.DEC_TRAIT) and not (b.parent and prog.bodies.get(b.parent) is not None and prog.bodies[b.parent].rec.get("trait") in (wire.ENC_TRAIT, wire.DEC_TRAIT)):
            continue
        n += 1
        for s_ in b.calls_to(r"VecDeque::<T(, A)?>::as_(mut_)?slices$"):
            ctx.touch(b)
            l = s_.node["dest"][0]
            text = _json.dumps([blk for i, blk in enumerate(b.blocks) if i in b.live_blocks])
            used = {f for f in ("0", "1") if re.search(r'\[%d, \["f:%s#' % (l, f), text)}
            # copies of the whole tuple
            if used != {"0", "1"}:
                ctx.fail(o, s_, "%s uses only the %s half of `as_slices()`: for a deque whose ring buffer has wrapped the other half is never written — the stream "
                         "is well-formed and decodes to a prefix of the value" % (b.name, "first" if used == {"0"} else "second" if used == {"1"} else "no"))
    o.sites = n
    if n < 100:
        ctx.fail(o, "(program)", "expected >= 100 Encode/Decode bodies, found %d" % n)


def c12n(ctx, prog):
    """A length-prefixed container's decoder repeats the element decoder exactly as often as the length it read says.  The
    count that bounds the loop must BE the decoded length: a clamp (`len.min(cap)` meant for the pre-allocation), an
    off-by-one or a saturating conversion applied to the loop bound decodes a prefix of the value and leaves the rest of
    its bytes in the stream, where the next field is then decoded from."""
    o = ctx.ob("C12.n", "containers/repetition-count-is-the-decoded-length", "K5",
               "in every Decode impl that reads a length and loops over `0..n`, n originates from the read_usize call and nothing else")
    n = 0
    for b in prog.all_bodies(CRATES):
        par = prog.bodies.get(b.parent) if b.parent else None
        if b.rec.get("trait") != wire.DEC_TRAIT and not (par is not None and par.rec.get("trait") == wire.DEC_TRAIT):
            continue
        if not b.calls_to(r"read_usize$"):
            continue
        for s_ in b.aggregates(r"ops::range::Range$"):
            ops = s_.node["rv"]["ops"]
            if len(ops) != 2:
                continue
            ctx.touch(b)
            n += 1
            og = df.origins_of_operand(b, ops[1])
            for x in og:
                if x.kind == "call":
                    path = x.site.node["fn"]["path"]
                    if re.search(r"Decoder::read_usize$", path):
                        continue
                    if re.search(r"<impl usize>::div_ceil$", path) and "BitVec" in b.name and \
                            all(y.kind != "call" or re.search(r"Decoder::read_usize$", y.site.node["fn"]["path"])
                                for y in df.origins_of_operand(b, x.site.node["args"][0])) and \
                            any(y.kind == "call" for y in df.origins_of_operand(b, x.site.node["args"][0])):
                        continue  # the bit length converted to storage elements; C12.j decides the final truncate(len)
                    what = "passes through `%s`" % path.rsplit("::", 1)[-1]
                elif x.kind == "const":
                    what = "is the constant %s" % x.info
                else:
                    what = "comes from %s" % x.kind
                ctx.fail(o, s_, "%s: the bound of the element loop %s instead of being the length read from the stream: a value longer than that decodes to a "
                         "prefix, and whatever follows it is decoded from the middle of its bytes" % (b.name, what))
    o.sites = n
    if not ctx.key_prefix and n < 14:
        ctx.fail(o, "(program)", "expected >= 14 length-driven element loops in Decode impls (Box<[T]>, Arc, Rc, Vec, SmallVec, BitVec, VecDeque, LinkedList, "
                 "HashMap, HashSet, BTreeMap, BTreeSet, DashMap, DashSet), found %d" % n)


def run(ctx):
    prog = ctx.prog
    progs = [prog]
    enc_dec = {}

    def a(c):
        enc_dec["x"] = c12a(c, progs, "main")
    ctx.run_clause("C12.a", a)
    if "x" in enc_dec:
        ctx.run_clause("C12.b", lambda c: c12b(c, enc_dec["x"][0]))
        ctx.run_clause("C12.e", lambda c: c12e(c, enc_dec["x"][0], enc_dec["x"][1], "main"))
    ctx.run_clause("C12.c", lambda c: c12c(c, prog))
    ctx.run_clause("C12.i", lambda c: c12i(c, prog))
    ctx.run_clause("C12.j", lambda c: c12j(c, prog))
    ctx.run_clause("C12.k", lambda c: c12k(c, prog))
    ctx.run_clause("C12.l", lambda c: c12l(c, prog))
    ctx.run_clause("C12.m", lambda c: c12m(c, prog))
    ctx.run_clause("C12.n", lambda c: c12n(c, prog))
    # the derive macros: their fixtures live in the serializer's unit-test module (unit/tuple/named structs, enums with
    # unit/tuple/struct variants, generics, #[serialize(skip)]); analysed, never run
    def fixtures(c):
        st = c.program("sertest")
        e, d = c12a(c, [st], "derive-fixtures")
        o = c.ob("C12.d", "derive-fixtures/present", "K3", "the derive fixtures (8 shapes incl. skip and generics) are analysed")
        fx = [x for x in d.impls if "::test::" in repr(x["self"])]
        o.sites = len(fx)
        if len(fx) < 8:
            c.fail(o, "(program)", "expected >= 8 derived fixture types in qbice_serialize's test module, found %d" % len(fx))
        c12b(c, e)
        c12e(c, e, d, "derive-fixtures")
    ctx.run_clause("C12.d", fixtures)
    # interned handles are stateful on the wire (first occurrence in full, later ones by reference): their
    # encoder/decoder agreement is C15.c's rule, evaluated here as C12.f
    from . import C15
    ctx.alias = {"C15.c": "C12.f", "C15.a": "C12.f"}
    ctx.run_clause("C12.f", C15.c15c)
    # a decoded Source registers the value with the interner so that later References resolve: the registration itself
    # (double-checked insertion that replaces a dead weak entry) is C15.a's rule
    ctx.run_clause("C12.f", C15.c15a)
    ctx.alias = {}
    def varint_witness(c):
        """E4: rustc const-evaluates the crate's own (private, const) varint and zig-zag helpers on every power-of-two
        boundary; reached through the cfg(qbice_verif) hook `postcard::verif_hooks`."""
        from .. import witness
        if c.key_prefix:
            return
        if not os.path.exists(os.path.join(extract.repo_root(), "crates", "serialize", "src", "postcard.rs")) or \
                "verif_hooks" not in open(os.path.join(extract.repo_root(), "crates", "serialize", "src", "postcard.rs")).read():
            o = c.ob("C12.g", "witness/hook-present", "E4", "the cfg(qbice_verif) hook postcard::verif_hooks exists")
            c.fail(o, "(program)", "anchor missing: qbice_serialize::postcard::verif_hooks (cfg(qbice_verif)) — the varint witness cannot be built; failing closed")
            return
        n, failures = witness.run_varint()
        o1 = c.ob("C12.g", "witness/varint-encoder-is-leb128", "E4",
                  "encode_varint_u{16,32,64,128} emit the minimal LEB128 form on every 2^k-1, 2^k, 2^k+1 and the extremes — const-evaluated by rustc")
        o2 = c.ob("C12.g", "witness/zigzag-is-the-standard-bijection", "E4",
                  "zigzag_encode maps 0,-1,1,-2.. to 0,1,2,3.. and zigzag_decode inverts it on every +-2^k, +-(2^k+-1), MIN, MAX — const-evaluated by rustc")
        o1.sites = o2.sites = n // 2
        if n < 1500:
            c.fail(o1, "(program)", "the varint witness shrank to %d assertions" % n)
        for kind, what in failures:
            c.fail(o2 if kind.startswith("zigzag") else o1, "crates/serialize/src/postcard.rs (const-evaluated)", what)
    ctx.run_clause("C12.g", varint_witness)

    def derive_shapes(c):
        """The derive macros on /verif's own fixture universe (engine/fixtures/derive_shapes.rs): tuple / named structs and
        enum variants with #[serialize(skip)] in first, middle and last position, generic and concrete.  The generated
        impls are type-checked under the E1 driver and analysed like the hand-written ones; nothing is run."""
        if c.key_prefix:
            return
        from ..facts import Program
        fx = Program([extract.facts_for("main"), extract.facts_for_fixture("derivefix")])
        e, d = c12a(c, [fx], "derive-shapes")
        o = c.ob("C12.h", "derive-shapes/present", "K3", "the fixture universe of derive shapes is analysed")
        mine = [x for x in d.impls if x["body"].crate == "qbv_fixture_derivefix"]
        o.sites = len(mine)
        if len(mine) < 16:
            c.fail(o, "(program)", "expected >= 16 derived Decode impls of the fixture universe, found %d" % len(mine))
        c12e(c, e, d, "derive-shapes")
    ctx.alias = {"C12.a": "C12.h", "C12.e": "C12.h"}
    ctx.run_clause("C12.h", derive_shapes)
    ctx.alias = {}
    if ctx.tier == "thorough":
        rocks = ctx.program("rocks")
        ctx.run_clause("C12.a", lambda c: c12a(c, [rocks], "workspace"))

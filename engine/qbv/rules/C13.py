"""C13 — stable hashes are deterministic, history-free and discriminating (structural clauses)."""
import re

from .. import dataflow as df
from ..facts import Site, op_local, short
from .C12 import is_self_place

EXPLANATION = (
    "Static analysis over rustc's promoted MIR of every StableHash impl of the workspace (hand-written, macro-generated, derived). C13.a framing: "
    "every repetition that feeds the hasher is preceded by a length (write_length_prefix / hash of len() / write_str) and every alternation on the "
    "value's own variant by the hashed discriminant, so different values feed different, unambiguous streams. C13.b order independence: for every "
    "impl whose self type is an unordered collection (HashMap, HashSet, BinaryHeap, DashMap, DashSet, ReadOnlyView, or any type iterating through a "
    "BuildHasher parameter) the outer hasher is not touched inside the iteration loop except through sub_hash, the per-element hashes are combined "
    "only with the commutative Value::wrapping_add, and the combined value is hashed once after the loop; the sub_hash closure writes only to its "
    "own sub-hasher. C13.c determinism sources: no body of a StableHash impl calls std::hash::Hash, RandomState/DefaultHasher, pointer-to-address "
    "conversions, capacity(), type_name, clocks or thread ids (one audited exception: Discriminant<T> hashes the bytes of the value). C13.d floats are "
    "NaN-normalised, integers go through to_le_bytes, the seeded builder feeds only the seed, sub_hash continues from a copy of the outer state. "
    "Collision resistance and cross-platform usize width are NOT decided.")

NOT_DECIDED = [
    "0.0 and -0.0 compare equal and are hashed by their bits (only NaN is canonicalised); an exhausted RangeInclusive hashes like a fresh one (private std field)",
    "128-bit collision freedom; quality of SipHash; that unequal values never produce equal streams (only framing is checked)",
    "usize width / OsStr encoding across platforms; 0.0 vs -0.0 (equal under ==, hashed differently: conservative for change detection)",
]
ASSUMPTIONS = ["mem::Discriminant<T> has a value-only representation (std guarantee of Eq/Hash by variant)", "BTreeMap/BTreeSet iterate in key order"]

TRAIT = "qbice_stable_hash::StableHash"
HASHER = "qbice_stable_hash::StableHasher"
UNORDERED = ("std::collections::hash::map::HashMap", "std::collections::hash::set::HashSet", "alloc::collections::binary_heap::BinaryHeap",
             "dashmap::DashMap", "dashmap::set::DashSet", "dashmap::read_only::ReadOnlyView")
FORBIDDEN = re.compile(
    r"core::hash::Hash::hash$|core::hash::BuildHasher::|std::hash::random::|std::collections::hash::map::RandomState|DefaultHasher|"
    r"::as_ptr$|::as_mut_ptr$|::addr$|::expose_provenance$|core::ptr::.*::addr$|::capacity$|core::any::type_name|std::time::|std::thread::current|ThreadId|"
    r"std::process::id|core::any::TypeId::of")


LAYOUT_OBSERVER = r"VecDeque::<T(, A)?>::as_(mut_)?slices$"
ITERATION_ONLY = re.compile(r"IntoIterator::into_iter$|::iter$|Iterator::(chain|next|by_ref|rev|for_each|copied|cloned)$")


def hash_impls(prog):
    out = []
    for im in prog.impls:
        if im.get("trait") != TRAIT:
            continue
        meth = [k for nm, k, kd in im["items"] if nm == "stable_hash"]
        if meth and meth[0] in prog.bodies:
            out.append((im, prog.bodies[meth[0]]))
    return out


def hash_events(b, region=None):
    ev = []
    for s in b.calls():
        if region is not None and s.bb not in region:
            continue
        p = s.node["fn"]["path"]
        if p == TRAIT + "::stable_hash" or (s.node["fn"].get("trait") == HASHER and re.search(r"::(write[a-z0-9_]*|sub_hash)$", p)):
            ev.append(s)
    return ev


def is_len_event(b, s):
    p = s.node["fn"]["path"]
    if p.endswith("StableHasher::write_length_prefix") or p.endswith("StableHasher::write_str"):
        return True
    if p == TRAIT + "::stable_hash":
        os_ = df.origins_of_operand(b, s.node["args"][0])
        if any(x.kind == "call" and re.search(r"::len$", x.callee() or "") for x in os_):
            return True
    return False


WIDTH = {"u8": 8, "i8": 8, "bool": 8, "u16": 16, "i16": 16, "u32": 32, "i32": 32, "char": 32, "u64": 64, "i64": 64, "usize": 64, "isize": 64,
         "u128": 128, "i128": 128, "f32": 32, "f64": 64}


def c13d_casts(ctx, prog, impls):
    """A value must reach the hasher at its full width: a narrowing cast (`c as u8`, `len as u32`) or a float<->int cast
    makes distinct values feed equal bytes."""
    o = ctx.ob("C13.d", "no-narrowing-cast-in-a-hash-body", "K3", "no StableHash / StableHasher body narrows an integer or converts between float and integer")
    bodies = [b for im, b in impls]
    bodies += [c for c in prog.bodies.values() if c.parent in {b.key for b in bodies}]
    bodies += [b for b in prog.all_bodies(["qbice_stable_hash"]) if b.rec.get("trait_default") == HASHER or b.rec.get("trait") == HASHER]
    n = 0
    for b in bodies:
        for a in b.assigns(lambda st: st["rv"]["k"] == "cast" and any(k in st["rv"].get("ck", "") for k in ("IntToInt", "FloatToInt", "IntToFloat", "FloatToFloat"))):
            n += 1
            rv = a.node["rv"]
            pl = df.op_place(rv["op"])
            sty = b.local_ty(pl[0]) if pl is not None and not pl[1] else None
            dty = rv.get("ty")
            if "IntToInt" not in rv["ck"]:
                ctx.touch(b)
                ctx.fail(o, a, "%s converts %s to %s before hashing" % (b.name, sty, dty))
            elif sty in WIDTH and dty in WIDTH and WIDTH[dty] < WIDTH[sty]:
                ctx.touch(b)
                ctx.fail(o, a, "%s narrows %s to %s before hashing: values that differ in the dropped bits hash alike" % (b.name, sty, dty))
    o.sites = n
    if n < 1:
        ctx.fail(o, "(program)", "expected the `char as u32` cast in the char impl (found no integer cast at all)")


def c13a_raw(ctx, prog):
    """A raw `write(&[u8])` of a run of bytes whose length is not fixed by the type (string bytes, C string bytes) is
    ambiguous unless the length is hashed first: ("ab", "c") and ("a", "bc") would feed the same stream."""
    o = ctx.ob("C13.a", "length-before-raw-bytes", "K1",
               "every StableHasher::write of a variable-length byte run is dominated by a hashed length of that same run")
    FIXED = re.compile(r"::to_(le|be|ne)_bytes$")
    n = 0
    for b in prog.all_bodies(["qbice_stable_hash", "qbice", "qbice_storage", "qbice_stable_type_id"]):
        for s_ in b.calls_to(r"StableHasher::write$"):
            os_ = list(df.origins_of_operand(b, s_.node["args"][1]))
            if os_ and all((x.kind == "call" and FIXED.search(x.callee() or "")) or x.kind in ("agg", "const") or
                           (x.kind == "param" and b.name.endswith("write_u8")) for x in os_):
                continue
            if b.rec.get("self_ty", "").startswith("core::mem::Discriminant"):
                continue  # audited in C13.c: exactly size_of::<Self>() bytes
            n += 1
            ctx.touch(b)
            srcs = {x.site for x in os_ if x.kind == "call"}
            ok = False
            for l_ in b.calls_to(r"StableHasher::(write_length_prefix|write_usize)$|StableHash::stable_hash$"):
                if not b.site_dominates(l_, s_):
                    continue
                lo = list(df.origins_of_operand(b, l_.node["args"][1] if l_.node["fn"]["path"].endswith(("write_length_prefix", "write_usize")) else l_.node["args"][0]))
                for x in lo:
                    if x.kind == "call" and re.search(r"::len$", x.callee() or ""):
                        # len() of the same byte run (or of the string it came from)
                        recv = {y.site for y in df.origins_of_operand(b, x.site.node["args"][0]) if y.kind == "call"} | \
                               {y.info for y in df.origins_of_operand(b, x.site.node["args"][0]) if y.kind == "param"}
                        src_in = srcs | {y.info for z in srcs for y in df.origins_of_operand(b, z.node["args"][0]) if y.kind == "param"} | \
                            {y.site for z in srcs for y in df.origins_of_operand(b, z.node["args"][0]) if y.kind == "call"}
                        if recv & src_in or not recv:
                            ok = True
            if not ok:
                ctx.fail(o, s_, "%s feeds a variable-length run of bytes to the hasher without hashing its length first: adjacent strings become ambiguous "
                         "(\"ab\",\"c\" vs \"a\",\"bc\")" % b.name)
    o.sites = n
    if n < 2:
        ctx.fail(o, "(program)", "expected >= 2 variable-length raw writes (write_str, CStr), found %d" % n)


def c13a(ctx, impls, floors=True):
    o = ctx.ob("C13.a", "length-before-repetition", "K9", "every loop feeding the hasher is preceded by a hashed length")
    n = 0
    for im, b in impls:
        for lp in df.iter_loops(b):
            reg = lp.region()
            if not hash_events(b, reg):
                continue
            n += 1
            ctx.touch(b)
            lens = [s for s in hash_events(b) if is_len_event(b, s) and b.site_dominates(s, lp.head)]
            if not lens:
                oo = ctx.ob("C13.a", "length-before-repetition/%s" % short(im["self_ty"]), "K9", o.desc)
                ctx.fail(oo, lp.head, "StableHash for `%s` hashes a repetition without hashing its length first: ([a],[b,c]) and ([a,b],[c]) would feed the same byte stream" % short(im["self_ty"]))
    # ... and a loop over the value's own elements must feed them: an impl that hashes the length and then iterates without
    # hashing anything makes all collections of one length collide
    for im, b in impls:
        for lp in df.iter_loops(b):
            reg = lp.region()
            if hash_events(b, reg):
                continue
            src = [x for x in df.origins_of_operand(b, lp.head.node["args"][0])] if lp.head.node.get("args") else []
            if any(x.kind == "param" and str(x.info).split(".")[0] == "_1" for x in src):
                oo = ctx.ob("C13.a", "elements-hashed/%s" % short(im["self_ty"]), "K9", "a loop over the value's elements feeds every element to the hasher")
                ctx.touch(b)
                ctx.fail(oo, lp.head, "StableHash for `%s` iterates over the value without hashing the items: every collection of the same length hashes alike" % short(im["self_ty"]))
    o.sites = n
    if floors and n < 12:
        ctx.fail(o, "(program)", "expected >= 12 hashing loops, found %d" % n)
    o = ctx.ob("C13.a", "discriminant-before-alternation", "K9", "every alternation on the value's own variant is preceded by hashing its discriminant (or every arm hashes it on every path)")
    m = 0
    for im, b in impls:
        for sb in df.switches(b):
            c = df.switch_cond(b, sb)
            if c.kind != "disc" or not is_self_place(b, c.place):
                continue
            arms = []
            for v, tb in df.switch_edges(b, sb):
                if b.blocks[tb]["term"]["k"] == "unreachable":
                    continue
                reg = b.reachable([tb], removed_nodes=[sb])
                arms.append(tuple(sorted((s.node["fn"]["path"], s.node["fn"].get("self_ty", "")) for s in hash_events(b, reg))))
            if len(arms) < 2:
                continue
            m += 1
            ctx.touch(b)
            disc = [s for s in hash_events(b) if b.site_dominates(s, Site(b, sb, len(b.blocks[sb]["stmts"]))) and
                    any(x.kind == "call" and (x.callee() or "").endswith("core::mem::discriminant") for x in df.origins_of_operand(b, s.node["args"][0]))]
            if not disc:
                # equally good: the discriminant is hashed inside EVERY arm, on every path of it
                dsites = [s for s in hash_events(b) if any(x.kind == "call" and (x.callee() or "").endswith("core::mem::discriminant")
                                                           for x in df.origins_of_operand(b, s.node["args"][0]))]
                edges_ = [tb for v, tb in df.switch_edges(b, sb) if b.blocks[tb]["term"]["k"] != "unreachable"]
                if dsites and all(not b.must_pass([tb], [d_.bb for d_ in dsites]) for tb in edges_):
                    continue
            if not disc:
                oo = ctx.ob("C13.a", "discriminant-before-alternation/%s" % short(im["self_ty"]), "K9", o.desc)
                ctx.fail(oo, Site(b, sb, len(b.blocks[sb]["stmts"])), "StableHash for `%s` branches on the variant without hashing the discriminant first: two variants with the same "
                         "payload (e.g. Ok(1) / Err(1)) hash equally" % short(im["self_ty"]))
            else:
                # the discriminant hashed is that of self
                if not any(is_self_place(b, df.op_place(cs.node["args"][0])) for d_ in disc for cs in
                           [x.site for x in df.origins_of_operand(b, d_.node["args"][0]) if x.kind == "call" and (x.callee() or "").endswith("mem::discriminant")] if df.op_place(cs.node["args"][0])):
                    pass
    o.sites = m
    if floors and m < 3:
        ctx.fail(o, "(program)", "expected >= 3 variant alternations in StableHash impls, found %d" % m)


def c13e(ctx):
    """#[derive(StableHash)] on /verif's fixture universe (engine/fixtures/derive_shapes.rs): the generated impl hashes the
    discriminant of an enum before its payload and every field of every variant / struct, each exactly once."""
    from .. import extract
    from ..facts import Program
    if ctx.key_prefix:
        return
    fx = Program([extract.facts_for("main"), extract.facts_for_fixture("derivefix")])
    impls = [(im, b) for im, b in hash_impls(fx) if b.crate == "qbv_fixture_derivefix"]
    o = ctx.ob("C13.e", "derive/every-field-hashed-once", "K8", "a derived StableHash impl feeds every field of the value (per variant) to the hasher exactly once")
    o.sites = len(impls)
    if len(impls) < 3:
        ctx.fail(o, "(program)", "expected >= 3 derived StableHash impls in the fixture universe, found %d" % len(impls))
    for im, b in impls:
        ctx.touch(b)
        adt = fx.adts.get(im.get("self_adt") or "")
        if adt is None:
            ctx.fail(o, Site(b, 0, 0), "no ADT definition for `%s`" % im["self_ty"])
            continue
        calls = b.calls_to(r"StableHash::stable_hash$")
        def fields_hashed(region=None):
            out = []
            for s_ in calls:
                if region is not None and s_.bb not in region:
                    continue
                ap = [x for x in df.access_path(b, s_.node["args"][0]) if not x.startswith("<")]
                if ap:
                    out.append(ap[-1])
            return sorted(out)
        if adt["adt_kind"] == "Enum":
            edges = [(sb, tb, int(v)) for sb, tb, v, c in df.variant_edges(b, "") if v != "otherwise" and is_self_place(b, c.place)]
            for vi, var in enumerate(adt["variants"]):
                want = sorted(f["name"] for f in var["fields"])
                if not want:
                    continue
                tbs = [tb for sb, tb, v in edges if v == vi]
                if not tbs:
                    ctx.fail(o, Site(b, 0, 0), "derived StableHash for `%s` has no arm for variant %s" % (short(im["self_ty"]), var["name"]))
                    continue
                sb0 = [sb for sb, tb, v in edges if v == vi][0]
                got = fields_hashed(b.reachable(tbs, removed_nodes=[sb0]) - set().union(*[b.reachable([tb2], removed_nodes=[sb0]) for sb2, tb2, v2 in edges if v2 != vi and tb2 not in tbs] or [set()]))
                if got != want:
                    ctx.fail(o, Site(b, tbs[0], 0), "derived StableHash for `%s::%s` hashes the fields %s, the variant has %s" % (short(im["self_ty"]), var["name"], got, want))
        else:
            want = sorted(f["name"] for f in adt["variants"][0]["fields"])
            got = fields_hashed()
            if got != want:
                ctx.fail(o, Site(b, 0, 0), "derived StableHash for `%s` hashes the fields %s, the struct has %s" % (short(im["self_ty"]), got, want))
    ctx.alias = {"C13.a": "C13.e"}
    c13a(ctx, impls, floors=False)
    ctx.alias = {}


STD_FIELDS = {"core::ops::range::Range": ["start", "end"], "core::ops::range::RangeFrom": ["start"], "core::ops::range::RangeTo": ["end"],
              "core::ops::range::RangeToInclusive": ["end"], "core::num::wrapping::Wrapping": ["0"], "core::num::saturating::Saturating": ["0"],
              "core::cmp::Reverse": ["0"]}


def c13e_all_fields(ctx, prog, impls):
    """Hand-written impls that hash a value field by field must hash ALL its fields: a dropped field makes values that
    differ only there collide with certainty (Range { start, end } hashing only `end`).  Decided for struct-like self types
    whose field list is known (workspace structs, std's public-field structs, tuples); impls that delegate (deref, accessor
    methods, iteration) are out of scope here."""
    o = ctx.ob("C13.e", "hand-written/every-field-hashed", "K8", "a StableHash impl that feeds fields of `self` directly feeds every field of the type")
    n = 0
    for im, b in impls:
        adt = im.get("self_adt") or ""
        sty = im["self_ty"]
        want = None
        if adt in STD_FIELDS:
            want = STD_FIELDS[adt]
        elif adt in prog.adts and prog.adts[adt]["adt_kind"] == "Struct":
            want = [f["name"] for f in prog.adts[adt]["variants"][0]["fields"] if "PhantomData" not in f["ty"]]
        elif sty.startswith("(") and sty.endswith(")") and "," in sty:
            want = [str(i) for i in range(len([x for x in sty[1:-1].split(",") if x.strip()]))]
        if want is None:
            continue
        got = []
        for s_ in b.calls_to(r"StableHash::stable_hash$|StableHasher::write_[a-z0-9]+$"):
            arg = s_.node["args"][0] if s_.node["fn"]["path"].endswith("stable_hash") else s_.node["args"][1]
            ap = df.access_path(b, arg)
            if ap and ap[0] == "<param _1>":
                fl = [x for x in ap[1:] if not x.startswith("<")]
                if fl:
                    got.append(fl[0])
        if not got:
            continue    # delegating impl
        n += 1
        ctx.touch(b)
        if sorted(set(got)) != sorted(want):
            ctx.fail(o, Site(b, 0, 0), "StableHash for `%s` feeds the fields %s of the value, the type has %s: values that differ in the others hash alike" % (
                short(sty), sorted(set(got)), sorted(want)))
    o.sites = n
    if n < 8:
        ctx.fail(o, "(program)", "expected >= 8 field-wise StableHash impls with a known field list, found %d" % n)


ZST_OK = re.compile(r"^\(\)$|PhantomData|RangeFull|PhantomPinned|Infallible|^!$")


def c13e_nonempty(ctx, prog, impls):
    """Every StableHash impl of a type that carries information feeds the hasher on every path: an impl that feeds nothing
    makes all values of the type collide."""
    o = ctx.ob("C13.e", "every-impl-feeds-the-hasher", "K2", "a StableHash impl for a non-zero-sized type reaches a hasher write / nested stable_hash on every path")
    n = 0
    for im, b in impls:
        sty = im["self_ty"]
        if ZST_OK.search(sty):
            continue
        adt = prog.adts.get(im.get("self_adt") or "")
        if adt is not None and adt["adt_kind"] == "Struct" and not adt["variants"][0]["fields"]:
            continue
        if adt is not None and adt["adt_kind"] == "Enum" and not adt["variants"]:
            continue
        n += 1
        evs = hash_events(b)
        # closures that hash on behalf of the body (sub_hash callbacks) count as events of the body through the sub_hash call
        if not evs:
            ctx.touch(b)
            ctx.fail(o, Site(b, 0, 0), "StableHash for `%s` feeds nothing to the hasher: every value of the type has the same fingerprint" % short(sty))
            continue
        if b.must_pass([0], [e.bb for e in evs]):
            ctx.touch(b)
            ctx.fail(o, Site(b, 0, 0), "StableHash for `%s` has a path that feeds nothing to the hasher" % short(sty))
    o.sites = n
    if n < 80:
        ctx.fail(o, "(program)", "expected >= 80 StableHash impls of non-zero-sized types, found %d" % n)


def is_unordered(im):
    adt = im.get("self_adt") or ""
    if adt in UNORDERED:
        return True
    # any impl iterating a type that carries a BuildHasher parameter
    return any("BuildHasher" in p for p in im.get("preds", [])) and "<" in im["self_ty"]


def c13b(ctx, prog, impls):
    o = ctx.ob("C13.b", "unordered-collections/enumeration", "K3", "all StableHash impls for unordered collections are in scope")
    un = [(im, b) for im, b in impls if is_unordered(im)]
    o.sites = len(un)
    if len(un) < 6:
        ctx.fail(o, "(program)", "expected >= 6 StableHash impls for unordered collections, found %d: %s" % (len(un), [short(i["self_ty"]) for i, _ in un]))
    for im, b in un:
        ctx.touch(b)
        name = short(im["self_ty"])
        oo = ctx.ob("C13.b", "order-independent/%s" % name, "K9+K4", "iteration order of an unordered collection does not reach the hasher")
        loops = [lp for lp in df.iter_loops(b)]
        if len(loops) != 1:
            ctx.fail(oo, Site(b, 0, 0), "expected exactly one iteration loop in StableHash for `%s` (found %d)" % (name, len(loops)))
            continue
        lp = loops[0]
        reg = lp.region()
        oo.sites = len(reg)
        inner = [s for s in b.calls() if s.bb in reg]
        subs = [s for s in inner if s.node["fn"]["path"].endswith("StableHasher::sub_hash")]
        adds = [s for s in inner if s.node["fn"]["path"].endswith("qbice_stable_hash::Value::wrapping_add")]
        if len(subs) != 1 or len(adds) != 1:
            ctx.fail(oo, lp.head, "the loop of StableHash for `%s` must combine `state.sub_hash(..)` of each element with Value::wrapping_add (sub_hash=%d, wrapping_add=%d)" % (name, len(subs), len(adds)))
            continue
        # no other use of the outer hasher (param _2) inside the loop
        for s in inner:
            if s in subs:
                continue
            for a in s.node["args"]:
                if df.op_place(a) is None:
                    continue
                if any(x.kind == "param" and str(x.info).startswith("_2") for x in df.origins_of_operand(b, a)):
                    ctx.fail(oo, s, "StableHash for `%s` feeds the outer hasher inside the iteration loop (%s): the hash depends on the iteration order, i.e. on insertion "
                             "history / hasher state of the collection" % (name, short(s.node["fn"]["path"])))
        # accumulator: wrapping_add(acc, sub_hash result) assigned back to acc, and hashed after the loop
        ad = adds[0]
        if not any(x.kind == "call" and x.site == subs[0] for x in df.origins_of_operand(b, ad.node["args"][1])) and \
           not any(x.kind == "call" and x.site == subs[0] for x in df.origins_of_operand(b, ad.node["args"][0])):
            ctx.fail(oo, ad, "the combiner does not add the element's sub-hash")
        fin = [s for s in hash_events(b) if s.bb not in reg and s.bb in b.reachable([lp.none]) and s.node["fn"]["path"] == TRAIT + "::stable_hash"
               and any(x.kind == "call" and x.site == ad for x in df.origins_of_operand(b, s.node["args"][0]))]
        if len(fin) != 1:
            ctx.fail(oo, lp.head, "the combined hash is not fed to the hasher exactly once after the loop")
        # the closure handed to sub_hash writes only into its own parameter
        cls = [c for c in prog.bodies.values() if c.parent == b.key and c.kind == "Closure"]
        for c in cls:
            ctx.touch(c)
            for s in hash_events(c):
                tgt = s.node["args"][1] if s.node["fn"]["path"] == TRAIT + "::stable_hash" else s.node["args"][0]
                os_ = df.origins_of_operand(c, tgt)
                if not all(x.kind == "param" and str(x.info).startswith("_2") for x in os_ if x.kind != "unknown"):
                    ctx.fail(oo, s, "the per-element closure of StableHash for `%s` writes into a hasher other than its sub-hasher" % name)
        if not cls or not any(hash_events(c) for c in cls):
            ctx.fail(oo, subs[0], "the sub_hash closure of `%s` hashes nothing" % name)
    # the commutative combiner itself
    o = ctx.ob("C13.b", "combiner-is-commutative", "K8", "every Value::wrapping_add is the integer wrapping_add")
    vs = [im for im in prog.impls if im.get("trait") == "qbice_stable_hash::Value"]
    o.sites = len(vs)
    if len(vs) < 6:
        ctx.fail(o, "(program)", "expected >= 6 Value impls, found %d" % len(vs))
    for im in vs:
        meth = [k for nm, k, kd in im["items"] if nm == "wrapping_add"]
        b = prog.bodies.get(meth[0]) if meth else None
        if b is None:
            continue
        calls = [s.node["fn"]["path"] for s in b.calls()]
        if len(calls) != 1 or not re.search(r"num::<impl (u8|u16|u32|u64|u128|usize)>::wrapping_add$", calls[0]):
            ctx.fail(o, Site(b, 0, 0), "Value::wrapping_add for %s is not the integer wrapping_add (%s): the unordered combiner may not be commutative/associative" % (im["self_ty"], calls))


def c13c(ctx, prog, impls):
    o = ctx.ob("C13.c", "no-nondeterministic-input", "K3", "no StableHash body reads addresses, RandomState, capacities, type names, clocks or thread ids")
    n = 0
    bodies = [b for im, b in impls]
    bodies += [c for c in prog.bodies.values() if c.parent in {b.key for b in bodies}]
    # default methods of StableHasher and the SipHasher impl take part in every hash
    bodies += [b for b in prog.all_bodies(["qbice_stable_hash"]) if b.rec.get("trait_default") == HASHER or b.rec.get("trait") == HASHER or b.rec.get("trait") == "qbice_stable_hash::BuildStableHasher"]
    for b in bodies:
        for s in b.calls():
            n += 1
            p = s.node["fn"]["path"]
            if FORBIDDEN.search(p):
                if b.rec.get("self_ty", "").startswith("core::mem::Discriminant") and p.endswith("::as_ptr"):
                    continue
                ctx.touch(b)
                ctx.fail(o, s, "%s calls %s: the stable hash would depend on something other than the value" % (b.name, short(p)))
        # pointer -> integer casts
        for s in b.assigns(lambda st: st["rv"]["k"] == "cast" and ("PointerExposeProvenance" in st["rv"]["ck"] or "PointerExposeAddress" in st["rv"]["ck"])):
            ctx.fail(o, s, "%s casts a pointer to an integer" % b.name)
    # layout observers: the two halves of a ring buffer depend on the construction history; their only legitimate use in a
    # hash is to iterate the elements (no length, emptiness, or slice-level hashing of a half)
    o3 = ctx.ob("C13.c", "layout-observers-only-iterated", "K5",
                "the result of a history-dependent layout observer (VecDeque::as_slices) is used only to iterate elements")
    for b in bodies:
        for s in b.calls_to(LAYOUT_OBSERVER):
            o3.sites += 1
            for kind, site, i in df.forward_uses(b, s):
                if kind == "arg" and not ITERATION_ONLY.search(site.node["fn"]["path"]):
                    ctx.touch(b)
                    ctx.fail(o3, site, "%s hands a half of `%s` to %s: the byte stream then depends on where the ring buffer wraps, not only on the value" % (
                        b.name, short(s.node["fn"]["path"]), short(site.node["fn"]["path"])))
                elif kind == "return":
                    ctx.fail(o3, s, "%s returns a layout-dependent slice" % b.name)
    # the raw storage of a bit vector is the value only at head offset 0 (shared rule with C12.m)
    from . import C12
    C12.raw_bit_storage(ctx, prog, bodies, "C13.c", "BitVec/raw-storage-read-only-when-aligned",
                        "a StableHash body: equal vectors with different histories hash differently and bits next to the head are never hashed")
    o.sites = n
    if n < 300:
        ctx.fail(o, "(program)", "only %d call sites examined in StableHash bodies (expected >= 300)" % n)
    # the audited exception reads exactly size_of::<Self>() bytes of `self`
    o2 = ctx.ob("C13.c", "discriminant-exception-reads-value-bytes", "K5", "the Discriminant<T> impl hashes the bytes of the value itself")
    d = [b for im, b in impls if im["self_ty"].startswith("core::mem::Discriminant")]
    o2.sites = len(d)
    if len(d) != 1:
        ctx.fail(o2, "(program)", "anchor missing: StableHash for Discriminant<T>")
    else:
        b = ctx.touch(d[0])
        fr = b.calls_to(r"core::slice::raw::from_raw_parts$|slice::from_raw_parts$")
        sz = b.calls_to(r"core::mem::size_of$")
        if len(fr) != 1 or len(sz) != 1:
            ctx.fail(o2, Site(b, 0, 0), "expected from_raw_parts(self as *const u8, size_of::<Self>())")
        else:
            if not any(x.kind == "param" for x in df.origins_of_operand(b, fr[0].node["args"][0], extra_transparent=[(r"core::ptr::from_ref$|<impl \*const T>::cast$", None)])):
                ctx.fail(o2, fr[0], "the bytes hashed are not those of `self`")
            if not any(x.kind == "call" and x.site == sz[0] for x in df.origins_of_operand(b, fr[0].node["args"][1])):
                ctx.fail(o2, fr[0], "the number of bytes hashed is not size_of::<Self>()")


def c13d(ctx, prog):
    o = ctx.ob("C13.d", "float-nan-normalised", "K4+K5", "NaN payloads are normalised before a float is hashed")
    n = 0
    for nm, ty in (("write_f32", "f32"), ("write_f64", "f64")):
        bs = [b for b in prog.all_bodies(["qbice_stable_hash"]) if b.rec.get("trait_default") == HASHER and b.rec.get("name") == nm]
        n += len(bs)
        if len(bs) != 1:
            ctx.fail(o, "(program)", "anchor missing: StableHasher::%s" % nm)
            continue
        b = ctx.touch(bs[0])
        nan = b.calls_to(r"<impl %s>::is_nan$" % ty)
        le = b.calls_to(r"<impl %s>::to_le_bytes$" % ty)
        wr = b.calls_to(r"StableHasher::write$")
        if len(nan) != 1 or len(le) != 1 or len(wr) != 1:
            ctx.fail(o, Site(b, 0, 0), "%s must test is_nan, take to_le_bytes and write them" % nm)
            continue
        src = df.origins_of_operand(b, le[0].node["args"][0])
        if not any(x.kind == "const" for x in src) or not any(x.kind == "param" for x in src):
            ctx.fail(o, le[0], "%s does not hash `if f.is_nan() { NAN } else { f }`" % nm)
        # on the is_nan branch the parameter must not be what is hashed
        sw = nan[0].node["t"]
        if b.blocks[sw]["term"]["k"] == "switch":
            tt, ft = df.bool_edges(b, sw)
            l = op_local(le[0].node["args"][0])
            while len(b.defs.get(l, [])) == 1 and b.defs[l][0][1] == "assign" and b.defs[l][0][2]["rv"]["k"] == "use" and op_local(b.defs[l][0][2]["rv"]["op"]) is not None:
                l = op_local(b.defs[l][0][2]["rv"]["op"])
            true_defs = [s for s, k, nd in b.defs.get(l, []) if s.bb in b.reachable([tt], removed_nodes=[sw]) and s.bb not in b.reachable([ft], removed_nodes=[sw])]
            if not true_defs or not all(k == "assign" and nd["rv"]["k"] == "use" and nd["rv"]["op"].get("c") is not None for s, k, nd in b.defs.get(l, []) if s in true_defs):
                ctx.fail(o, nan[0], "on the NaN branch %s still hashes the original bits" % nm)
    o.sites = n
    o = ctx.ob("C13.d", "integers-little-endian", "K8", "every integer write_X hashes to_le_bytes of the value")
    m = 0
    for b in prog.all_bodies(["qbice_stable_hash"]):
        if b.rec.get("trait_default") != HASHER:
            continue
        mm = re.match(r"write_(u|i)(8|16|32|64|128|size)$", b.rec.get("name", ""))
        if not mm or b.rec["name"] == "write_u8":
            continue
        m += 1
        ctx.touch(b)
        le = b.calls_to(r"::to_le_bytes$")
        wr = b.calls_to(r"StableHasher::write$")
        if len(le) != 1 or len(wr) != 1 or not any(x.kind == "call" and x.site == le[0] for x in df.origins_of_operand(b, wr[0].node["args"][1])):
            ctx.fail(o, Site(b, 0, 0), "%s does not write to_le_bytes() of its argument" % b.rec["name"])
        elif not re.search(r"<impl %s%s>::to_le_bytes$" % (mm.group(1), mm.group(2)), le[0].node["fn"]["path"]):
            ctx.fail(o, le[0], "%s converts with %s (width/sign mismatch)" % (b.rec["name"], short(le[0].node["fn"]["path"])))
    o.sites = m
    if m < 11:
        ctx.fail(o, "(program)", "expected 11 integer write methods, found %d" % m)
    o = ctx.ob("C13.d", "seeded-builder-and-sub-hash", "K5", "the seeded builder feeds only the seed into a default hasher; sub_hash continues from a copy of the outer state")
    bs = [b for b in prog.all_bodies(["qbice_stable_hash"]) if b.rec.get("trait") == "qbice_stable_hash::BuildStableHasher" and "Seeded" in b.rec.get("self_ty", "")]
    o.sites = len(bs)
    if len(bs) != 1:
        ctx.fail(o, "(program)", "anchor missing: SeededStableHasherBuilder::build_stable_hasher")
    else:
        b = ctx.touch(bs[0])
        ev = hash_events(b)
        dflt = b.calls_to(r"core::default::Default::default$")
        if len(ev) != 1 or len(dflt) != 1 or "seed" not in df.access_path(b, ev[0].node["args"][0]):
            ctx.fail(o, Site(b, 0, 0), "build_stable_hasher must hash exactly the seed into H::default()")
    sh = [b for b in prog.all_bodies(["qbice_stable_hash"]) if b.rec.get("trait") == HASHER and b.rec.get("name") == "sub_hash"]
    o.sites += len(sh)
    if len(sh) != 1:
        ctx.fail(o, "(program)", "anchor missing: sub_hash of the SipHasher impl")
    else:
        b = ctx.touch(sh[0])
        fin = b.calls_to(r"Hasher128::finish128$")
        cl = b.calls_to(r"FnMut::call_mut$")
        if len(fin) != 1 or len(cl) != 1:
            ctx.fail(o, Site(b, 0, 0), "sub_hash must run the closure on a sub-hasher and finish it")
        else:
            so = df.origins_of_operand(b, fin[0].node["args"][0])
            if not any(x.kind == "param" and str(x.info).startswith("_1") for x in so):
                ctx.fail(o, fin[0], "the sub-hasher is not a copy of the outer hasher's state (a fresh or randomly keyed hasher would break determinism across runs)")
            if b.calls(lambda f, t: "Default::default" in f["path"] or "::new" in f["path"]):
                ctx.fail(o, Site(b, 0, 0), "sub_hash constructs a new hasher instead of copying the outer state")


def c13a_prefix(ctx, prog):
    """The framing rules (length before every repetition) rest on write_length_prefix actually writing something for EVERY
    length.  If the empty length contributes no bytes, two adjacent variable-length fields are no longer delimited:
    ("", "std") and ("std", "") feed the same stream - and two different query keys of one type share a QueryID."""
    o = ctx.ob("C13.a", "write_length_prefix/writes-for-every-length", "K2", "every path through StableHasher::write_length_prefix (and every override) passes a write of the length")
    bs = [b for b in prog.all_bodies(["qbice_stable_hash"]) if b.name.endswith("::write_length_prefix")]
    o.sites = len(bs)
    if not bs:
        ctx.fail(o, "(program)", "anchor missing: StableHasher::write_length_prefix")
        return
    for b in bs:
        ctx.touch(b)
        w = b.calls_to(r"StableHasher::write_(usize|u64|u32|u128)$|StableHasher::write$")
        if not w or b.must_pass([0], [x.bb for x in w]):
            ctx.fail(o, Site(b, 0, 0), "%s can return without writing the length: an empty str / Vec / slice then contributes no bytes and two adjacent variable-length fields are "
                     "ambiguous - (\"\", \"std\") and (\"std\", \"\") hash alike, two distinct query keys share an id" % b.name)
        for x in w:
            if not any(y.kind == "param" and str(y.info) == "_2" for y in df.origins_of_operand(b, x.node["args"][1])):
                ctx.fail(o, x, "%s writes something other than the length it was given" % b.name)


def c13f_path(ctx, prog, impls):
    """D17.  Equality of `Path` is component-wise: "a/b" == "a//b" == "a/./b" == "a/b/".  Hashing the raw bytes of the whole
    path gives equal values different hashes (two equal query keys become two queries, two equal interned paths two
    allocations).  The hash has to range over what equality compares: the components, behind their count."""
    o = ctx.ob("C13.f", "Path/hashes-the-components-equality-compares", "K3", "StableHash for Path iterates Path::components (length-prefixed) and never hashes the whole path's raw OsStr")
    bs = [b for im, b in impls if im["self_ty"] == "std::path::Path"]
    o.sites = len(bs)
    if len(bs) != 1:
        ctx.fail(o, "(program)", "anchor missing: StableHash for std::path::Path (found %d)" % len(bs))
        return
    b = ctx.touch(bs[0])
    comp = b.calls_to(r"std::path::Path::(components|iter)$")       # Path::iter yields the same components as OsStr
    whole = [s_ for s_ in b.calls_to(r"std::path::Path::(as_os_str|as_mut_os_str|to_str|to_string_lossy|display|as_encoded_bytes)$")
             if any(x.kind == "param" for x in df.origins_of_operand(b, s_.node["args"][0]))]
    if not comp or whole:
        ctx.fail(o, (whole or [Site(b, 0, 0)])[0], "StableHash for Path hashes the raw representation of the whole path: paths that compare equal (\"a/b\", \"a//b\", \"a/./b\", \"a/b/\") "
                 "hash differently - equal keys become different queries, equal interned paths are not shared")


def run(ctx):
    prog = ctx.prog
    impls = hash_impls(prog)
    o = ctx.ob("C13.a", "enumeration", "K3", "all StableHash impls are enumerated")
    o.sites = len(impls)
    if len(impls) < 95:
        ctx.fail(o, "(program)", "expected >= 95 StableHash impls, found %d" % len(impls))
    ctx.run_clause("C13.a", lambda c: c13a(c, impls))
    ctx.run_clause("C13.a", lambda c: c13a_raw(c, prog))
    ctx.run_clause("C13.a", lambda c: c13a_prefix(c, prog))
    ctx.run_clause("C13.b", lambda c: c13b(c, prog, impls))
    ctx.run_clause("C13.c", lambda c: c13c(c, prog, impls))
    ctx.run_clause("C13.d", lambda c: c13d(c, prog))
    ctx.run_clause("C13.d", lambda c: c13d_casts(c, prog, impls))
    ctx.run_clause("C13.f", lambda c: c13f_path(c, prog, impls))
    ctx.run_clause("C13.e", c13e)
    ctx.run_clause("C13.e", lambda c: c13e_all_fields(c, prog, impls))
    ctx.run_clause("C13.e", lambda c: c13e_nonempty(c, prog, impls))

"""C14 — type and query identities are unique and stable across runs (structural clauses)."""
import re

from .. import dataflow as df
from ..facts import Site, op_local, short, const_int

EXPLANATION = (
    "Static analysis over rustc's MIR of every `Identifiable::STABLE_TYPE_ID` constant (hand-written, macro-generated, derived) and of the identity "
    "plumbing. C14.a parameter coverage: the constant of every generic impl folds <P as Identifiable>::STABLE_TYPE_ID of every type parameter P and "
    "every const parameter into its result, through a chain of StableTypeID::combine calls in which the result of step i is an operand of step i+1 "
    "(so argument order and nesting matter). C14.b base-name uniqueness: the string constants reaching from_unique_type_name are pairwise distinct "
    "over all impls (for derives: package@version::module::Ident). C14.c ids are `const` items computed by `const fn`s with no run-time input "
    "(no body reachable from them reads anything but its arguments). C14.d QueryID::new packs exactly (Q::STABLE_TYPE_ID, key hash) and "
    "QueryID::stable_type_id inverts the packing field for field (high/low not swapped); new_query_with_id feeds only the engine's stable hasher. "
    "C14.e the executor registry and the store columns are addressed by the full id. Distinctness of the 128-bit values themselves is NOT decided here "
    "(see DESIGN: the const-evaluated universe witness is a compile-time evaluation, kept separate).")

NOT_DECIDED = [
    "derive(Identifiable) names a type by package, version, module_path!() and identifier: two same-named types declared in different function bodies of one module would share an id - no such pair exists in the workspace (every existing id is checked pairwise)",
    "that distinct types get distinct 128-bit values outside the witness universe of C14.f (2 300 / 6 600 types incl. derived fixtures): collision freedom in general",
    "identity of ids across compiler versions for derive names that embed the package version",
]
ASSUMPTIONS = ["type parameters that are not folded are reported; marker parameters are expected to be folded as well"]

TRAIT = "qbice_stable_type_id::Identifiable"
COMBINE = [(r"qbice_stable_type_id::StableTypeID::combine$", None), (r"qbice_stable_type_id::StableTypeID::from_raw_parts$", None)]


def id_impls(prog):
    out = []
    for im in prog.impls:
        if im.get("trait") != TRAIT:
            continue
        k = [key for nm, key, kd in im["items"] if nm == "STABLE_TYPE_ID"]
        if k and k[0] in prog.bodies:
            out.append((im, prog.bodies[k[0]]))
    return out


def consts_in(b):
    """All constant operands of a body (in statements and call arguments), including those of
    its promoted constants (`&<Q as Identifiable>::STABLE_TYPE_ID` is promoted)."""
    out = []
    blocks = [b.blocks[bi] for bi in sorted(b.live_blocks)]
    for (owner, idx), rec in b.prog.promoted.items():
        if owner == b.key:
            blocks.extend(rec["blocks"])
    for blk in blocks:
        for st in blk["stmts"]:
            if st["k"] != "assign":
                continue
            rv = st["rv"]
            ops = []
            if rv["k"] in ("use", "cast", "repeat"):
                ops = [rv["op"]]
            elif rv["k"] == "agg":
                ops = rv["ops"]
            elif rv["k"] in ("bin", "un"):
                ops = [rv[x] for x in ("a", "b") if x in rv]
            for o in ops:
                if o.get("c") is not None:
                    out.append(o["c"])
        t = blk["term"]
        if t["k"] == "call":
            for a in t["args"]:
                if a.get("c") is not None:
                    out.append(a["c"])
    return out


def c14a(ctx, impls):
    o = ctx.ob("C14.a", "parameter-coverage", "K10+K5", "every generic parameter of an Identifiable impl is folded into its STABLE_TYPE_ID through the combine chain")
    n = 0
    for im, b in impls:
        params = [g for g in im["generics"] if g[1] in ("ty", "const")]
        if not params:
            continue
        n += 1
        ctx.touch(b)
        name = short(im["self_ty"])
        os_ = df.origins_of_place(b, [0, []], extra_transparent=COMBINE)
        # constants that reach the result through combine / from_raw_parts / casts
        reached = set()
        for bi in sorted(b.live_blocks):
            pass
        # collect the constants per origin: walk again, remembering const records
        reach_consts = []
        seen_sites = set()

        def walk(op, depth=0):
            c = op.get("c")
            if c is not None:
                reach_consts.append(c)
                return
            l = op_local(op)
            if l is None or depth > 300:
                return
            for site, kind, node in b.defs.get(l, []):
                if (site.bb, site.idx) in seen_sites:
                    continue
                seen_sites.add((site.bb, site.idx))
                if kind == "assign":
                    rv = node["rv"]
                    if rv["k"] in ("use", "cast"):
                        walk(rv["op"], depth + 1)
                    elif rv["k"] == "agg":
                        for x in rv["ops"]:
                            walk(x, depth + 1)
                elif kind == "call":
                    p = node["fn"].get("path", "")
                    if re.search(r"StableTypeID::(combine|from_raw_parts)$", p):
                        for x in node["args"]:
                            walk(x, depth + 1)
        walk({"mv": [0, []]})
        folded_types = {c.get("self_ty") for c in reach_consts if (c.get("uneval") or "").endswith("Identifiable::STABLE_TYPE_ID")}
        folded_consts = {c.get("s") for c in reach_consts}
        for pname, kind in params:
            if kind == "ty" and pname not in folded_types:
                oo = ctx.ob("C14.a", "parameter-coverage/%s/%s" % (name, pname), "K10", o.desc)
                oo.sites = 1
                ctx.fail(oo, Site(b, 0, 0), "STABLE_TYPE_ID of `%s` does not fold the id of its type parameter `%s`: all instantiations that differ only in `%s` share one id "
                         "(one store slot, one interner shard, one executor)" % (name, pname, pname))
            if kind == "const" and pname not in folded_consts:
                oo = ctx.ob("C14.a", "parameter-coverage/%s/%s" % (name, pname), "K10", o.desc)
                oo.sites = 1
                ctx.fail(oo, Site(b, 0, 0), "STABLE_TYPE_ID of `%s` does not depend on its const parameter `%s`" % (name, pname))
        # chain shape: every combine's result is used by the next combine (or is the result); no combine result is dropped
        combs = b.calls_to(r"StableTypeID::combine$")
        for c in combs:
            ev = df.forward_uses(b, c)
            used = any(e[0] == "return" for e in ev) or any(e[0] == "arg" and e[1].node["fn"].get("path", "").endswith("StableTypeID::combine") for e in ev)
            if not used:
                ctx.fail(o, c, "a combine() result in STABLE_TYPE_ID of `%s` is discarded: the parameters folded so far do not reach the id" % name)
        # no symmetric fold: a combine whose two operands are both plain parameter ids (no accumulated base) would make X<A,B> == X<B,A>
        for c in combs:
            a0, a1 = c.node["args"][0], c.node["args"][1]
            if all((a.get("c") or {}).get("uneval", "").endswith("Identifiable::STABLE_TYPE_ID") for a in (a0, a1)):
                ctx.fail(o, c, "STABLE_TYPE_ID of `%s` combines two parameter ids directly, without the accumulated base" % name)
    o.sites = n
    if n < 60:
        ctx.fail(o, "(program)", "expected >= 60 generic Identifiable impls, found %d" % n)


def c14b(ctx, impls, prog):
    o = ctx.ob("C14.b", "base-names-pairwise-distinct", "K10", "no two Identifiable impls start from the same unique type name")
    names = {}
    n = 0
    for im, b in impls:
        calls = b.calls_to(r"StableTypeID::from_unique_type_name$")
        if len(calls) > 1:
            ctx.fail(o, Site(b, 0, 0), "STABLE_TYPE_ID of `%s` hashes more than one base name" % short(im["self_ty"]))
        for c in calls:
            n += 1
            a = c.node["args"][0].get("c")
            if a is None:
                cands = [x for x in df.origins_of_operand(b, c.node["args"][0]) if x.kind == "const"]
                others = [x for x in df.origins_of_operand(b, c.node["args"][0]) if x.kind not in ("const",)]
                a = {"s": str(cands[0].info)} if len(cands) == 1 and not others else None
            if a is None or "s" not in a:
                ctx.fail(o, c, "the base name of `%s` is not a string constant (run-time input?)" % short(im["self_ty"]))
                continue
            # two impls may share a base name only if their combine chains have different lengths (tuples of different arity)
            s = (a["s"], len([g for g in im["generics"] if g[1] in ("ty", "const")]))
            key = (im["crate"], im["self_ty"])
            if s in names and names[s] != key:
                ctx.fail(o, c, "`%s` and `%s` use the same base name %s with the same number of folded parameters: their ids (for equal arguments) collide" % (
                    short(names[s][1]), short(im["self_ty"]), s[0]))
            names[s] = key
        if not calls:
            # ids built only from parameters / raw parts
            cs = [c for c in consts_in(b) if (c.get("uneval") or "").endswith("STABLE_TYPE_ID")]
            if not cs:
                ctx.fail(o, Site(b, 0, 0), "STABLE_TYPE_ID of `%s` has no base name" % short(im["self_ty"]))
    o.sites = n
    if n < 130:
        ctx.fail(o, "(program)", "expected >= 130 base names, found %d" % n)
    # derived impls: the name is `pkg@version::<module path>::<Ident>`, i.e. it ends with the full path of the type
    od = ctx.ob("C14.b", "derived-names-carry-the-full-path", "K5", "a derived id starts from package@version::module::path::Ident, so equal identifiers in different modules/crates/versions do not collide")
    m = 0
    for im, b in impls:
        if not im.get("from_expansion") or not im.get("self_adt"):
            continue
        calls = b.calls_to(r"StableTypeID::from_unique_type_name$")
        if len(calls) != 1:
            continue
        a = calls[0].node["args"][0].get("c")
        if a is None:
            cands = [x for x in df.origins_of_operand(b, calls[0].node["args"][0]) if x.kind == "const"]
            a = {"s": str(cands[0].info)} if len(cands) == 1 else None
        if a is None:
            continue
        name = a["s"].strip('"')
        head, _, tail = name.partition("::")
        if im["self_adt"].startswith(("core::", "alloc::", "std::")) or im["crate"] == "qbice_stable_type_id":
            continue  # hand-written / macro_rules impls for foreign types use fixed names (uniqueness is C14.b above)
        m += 1
        if "@" not in head or tail != im["self_adt"]:
            ctx.fail(od, calls[0], "the derived base name of `%s` is %s, not `<package>@<version>::%s`" % (short(im["self_ty"]), a["s"], im["self_adt"]))
    od.sites = m
    if m < 10:
        ctx.fail(od, "(program)", "expected >= 10 derived Identifiable impls, found %d" % m)
    ctx.notes.append("%d distinct base names" % len(names))
    # from_raw_parts (which bypasses the name hash) is unsafe and used only for array lengths and QueryID unpacking
    o2 = ctx.ob("C14.b", "raw-parts-fenced", "K3+K10", "ids are forged from raw parts only behind `unsafe`, at the two audited sites")
    sig = [v for k, v in prog.sigs.items() if k.endswith("StableTypeID::from_raw_parts") or k.endswith("}::from_raw_parts")]
    o2.sites = len(sig)
    if not sig or not all(s.get("is_unsafe") for s in sig if "StableTypeID" in s["path"]):
        ctx.fail(o2, "(signature)", "StableTypeID::from_raw_parts is not an unsafe fn")
    users = prog.callers_of(r"StableTypeID::from_raw_parts$")
    o2.sites += len(users)
    for s in users:
        if not (s.body.name.startswith("<[T; N] as Identifiable>::STABLE_TYPE_ID") or s.body.name == "QueryID::stable_type_id"):
            ctx.fail(o2, s, "StableTypeID::from_raw_parts used in %s" % s.body.name)


def c14c(ctx, prog):
    o = ctx.ob("C14.c", "ids-are-pure-consts", "K3", "the id functions are const fns that read nothing but their arguments")
    n = 0
    for nm in ("StableTypeID::from_unique_type_name", "StableTypeID::combine", "StableTypeID::sipround", "StableTypeID::read_u64_le", "StableTypeID::as_u128"):
        b = ctx.touch(prog.body(nm))
        n += 1
        if not b.rec.get("is_const"):
            ctx.fail(o, Site(b, 0, 0), "%s is not a const fn: ids could depend on run-time state" % nm)
        for s in b.calls():
            p = s.node["fn"]["path"]
            if not re.search(r"StableTypeID::|core::num::<impl u64>::|core::str::<impl str>::(as_bytes|len)$|core::slice::<impl \[T\]>::len$|core::panicking::", p):
                ctx.fail(o, s, "%s calls %s" % (nm, short(p)))
    o.sites = n
    # combine is not symmetric: the two operands enter different state words
    o2 = ctx.ob("C14.c", "combine-asymmetric", "K5", "combine(self, other) mixes self and other into different state words (argument order matters)")
    b = ctx.touch(prog.body("StableTypeID::combine"))
    xs = b.assigns(lambda st: st["rv"]["k"] == "bin" and st["rv"]["op"] == "BitXor")
    first = {}
    for s in xs:
        ap = df.access_path(b, s.node["rv"]["a"])
        l = s.node["lhs"][0]
        if l not in first and any(f in ("0", "1") for f in ap):
            first[l] = ap
    selfs = [l for l, ap in first.items() if "<param _1>" in ap]
    others = [l for l, ap in first.items() if "<param _2>" in ap]
    o2.sites = len(first)
    if len(selfs) != 2 or len(others) != 2 or set(selfs) & set(others):
        ctx.fail(o2, Site(b, 0, 0), "combine does not initialise two state words from `self` and two different ones from `other` (found %d / %d)" % (len(selfs), len(others)))


def c14d(ctx, prog):
    o = ctx.ob("C14.d", "QueryID/packing", "K5", "QueryID::new stores (Q::STABLE_TYPE_ID, key hash) and stable_type_id() inverts the packing word for word")
    b = ctx.touch(prog.body("QueryID::new"))
    agg = b.aggregates(r"query::QueryID$")
    o.sites = len(agg)
    if len(agg) != 1:
        ctx.fail(o, Site(b, 0, 0), "anchor missing: QueryID construction in QueryID::new")
    else:
        f = agg[0].node["rv"]["fields"]
        ops = agg[0].node["rv"]["ops"]
        # stable_type_id field <- Q::STABLE_TYPE_ID.as_u128().into()
        cs = [c for c in consts_in(b) if (c.get("uneval") or "").endswith("Identifiable::STABLE_TYPE_ID")]
        if len(cs) != 1 or cs[0].get("self_ty") != "Q":
            ctx.fail(o, agg[0], "QueryID::new does not use <Q as Identifiable>::STABLE_TYPE_ID")
        so = df.origins_of_operand(b, ops[f.index("stable_type_id")])
        if not any(x.kind == "call" and (x.callee() or "").endswith("StableTypeID::as_u128") for x in so):
            ctx.fail(o, agg[0], "the type-id field of QueryID is not the full 128-bit id")
        ho = df.origins_of_operand(b, ops[f.index("hash_128")])
        if not all(x.kind == "param" for x in ho):
            ctx.fail(o, agg[0], "the hash field of QueryID is not the hash argument")
    g = ctx.touch(prog.body("QueryID::stable_type_id"))
    fr = g.calls_to(r"StableTypeID::from_raw_parts$")
    o.sites += len(fr)
    if len(fr) != 1:
        ctx.fail(o, Site(g, 0, 0), "anchor missing: from_raw_parts in QueryID::stable_type_id")
    else:
        hi = df.origins_of_operand(g, fr[0].node["args"][0])
        lo = df.origins_of_operand(g, fr[0].node["args"][1])
        if not any(x.kind == "call" and (x.callee() or "").endswith("Compact128::high") for x in hi) or \
           not any(x.kind == "call" and (x.callee() or "").endswith("Compact128::low") for x in lo):
            ctx.fail(o, fr[0], "QueryID::stable_type_id swaps the high and low words: the executor / store column of another type would be addressed")
        for x in list(hi) + list(lo):
            if x.kind == "call" and "stable_type_id" not in df.access_path(g, x.site.node["args"][0]):
                ctx.fail(o, fr[0], "QueryID::stable_type_id reads the key-hash field instead of the type-id field")
    # the word-level conventions the inversion relies on
    o2 = ctx.ob("C14.d", "word-conventions", "K5", "StableTypeID(high, low) / Compact128(low, high) conventions are consistent")
    checks = 0
    frp = ctx.touch(prog.body("StableTypeID::from_raw_parts"))
    ag = frp.aggregates(r"StableTypeID$")
    checks += len(ag)
    if len(ag) != 1 or [str(x.info) for o_ in ag[0].node["rv"]["ops"] for x in df.origins_of_operand(frp, o_) if x.kind == "param"] != ["_1", "_2"]:
        ctx.fail(o2, Site(frp, 0, 0), "from_raw_parts(high, low) must build StableTypeID(high, low)")
    au = ctx.touch(prog.body("StableTypeID::as_u128"))
    shl = au.assigns(lambda st: st["rv"]["k"] == "bin" and st["rv"]["op"] in ("Shl", "ShlUnchecked"))
    checks += len(shl)
    if len(shl) != 1 or const_int(shl[0].node["rv"]["b"]) != 64 or "0" not in df.access_path(au, shl[0].node["rv"]["a"]):
        ctx.fail(o2, Site(au, 0, 0), "as_u128 must place field 0 in the high 64 bits")
    hi = ctx.touch(prog.body("Compact128::high"))
    lo = ctx.touch(prog.body("Compact128::low"))
    checks += 2
    if "1" not in df.access_path(hi, {"cp": [0, []]}) and not any("f:1#1" in str(st["rv"]) for blk in hi.blocks for st in blk["stmts"] if st["k"] == "assign"):
        ctx.fail(o2, Site(hi, 0, 0), "Compact128::high must return field 1")
    if not any("f:0#0" in str(st["rv"]) for blk in lo.blocks for st in blk["stmts"] if st["k"] == "assign"):
        ctx.fail(o2, Site(lo, 0, 0), "Compact128::low must return field 0")
    fu = ctx.touch(prog.body("<Compact128 as From>::from"))
    ag = fu.aggregates(r"Compact128$")
    checks += len(ag)
    if len(ag) != 1:
        ctx.fail(o2, Site(fu, 0, 0), "anchor missing: Compact128::from(u128)")
    else:
        o0 = df.origins_of_operand(fu, ag[0].node["rv"]["ops"][0])
        o1 = df.origins_of_operand(fu, ag[0].node["rv"]["ops"][1])
        if any(x.kind == "bin" and x.info in ("Shr", "ShrUnchecked") for x in o0) or not any(x.kind == "bin" and x.info in ("Shr", "ShrUnchecked") for x in o1):
            ctx.fail(o2, ag[0], "Compact128::from(u128) must store the low word in field 0 and `value >> 64` in field 1")
    o2.sites = checks
    o3 = ctx.ob("C14.d", "new_query_with_id/hash-of-key-only", "K5", "a query's id hash is the engine's stable hash of the key and nothing else")
    nq = ctx.touch(prog.body("Engine::new_query_with_id"))
    bh = nq.calls_to(r"BuildStableHasher::build_stable_hasher$")
    sh = nq.calls_to(r"qbice_stable_hash::StableHash::stable_hash$")
    fin = nq.calls_to(r"StableHasher::finish$")
    qn = nq.calls_to(r"QueryID::new$")
    o3.sites = len(bh) + len(sh) + len(fin) + len(qn)
    if len(bh) != 1 or len(sh) != 1 or len(fin) != 1 or len(qn) != 1:
        ctx.fail(o3, Site(nq, 0, 0), "anchors missing in new_query_with_id (build=%d stable_hash=%d finish=%d QueryID::new=%d)" % (len(bh), len(sh), len(fin), len(qn)))
    else:
        if "build_stable_hasher" not in df.access_path(nq, bh[0].node["args"][0]):
            ctx.fail(o3, bh[0], "the hasher is not built by the engine's BuildStableHasher")
        if not all(x.kind == "param" for x in df.origins_of_operand(nq, sh[0].node["args"][0])):
            ctx.fail(o3, sh[0], "something other than the query key is hashed")
        if not any(x.kind == "call" and x.site == fin[0] for x in df.origins_of_operand(nq, qn[0].node["args"][0])):
            ctx.fail(o3, qn[0], "QueryID::new is not given the finished hash")
        if qn[0].node["fn"]["gargs"] != ["Q"]:
            ctx.fail(o3, qn[0], "QueryID::new is instantiated with %s instead of the query type" % qn[0].node["fn"]["gargs"])


def c14e(ctx, prog):
    o = ctx.ob("C14.e", "registry-keyed-by-type-id", "K5", "executors are registered and looked up under the query type's STABLE_TYPE_ID")
    n = 0
    for nm in ("Registry::register", "Registry::get_executor_entry"):
        b = ctx.touch(prog.body(nm))
        cs = [c for c in consts_in(b) if (c.get("uneval") or "").endswith("Identifiable::STABLE_TYPE_ID")]
        n += len(cs)
        if len(cs) != 1 or cs[0].get("self_ty") != "Q":
            ctx.fail(o, Site(b, 0, 0), "%s does not use <Q as Identifiable>::STABLE_TYPE_ID as the registry key" % nm)
    o.sites = n
    # the discriminants of the value store carry the query type id (distinct Q -> distinct slots)
    for im in prog.impls:
        if im.get("trait") == "qbice_storage::kv_database::WideColumnValue" and re.search(r"database::Query(Input|Result)<", im["self_ty"]):
            k = [key for nm, key, kd in im["items"] if nm == "discriminant"]
            b = prog.bodies.get(k[0]) if k else None
            if b is None:
                continue
            n += 1
            cs = [c for c in consts_in(b) if (c.get("uneval") or "").endswith("Identifiable::STABLE_TYPE_ID")]
            if len(cs) != 1 or cs[0].get("self_ty") != "Q":
                ctx.fail(o, Site(b, 0, 0), "the store discriminant of %s does not include <Q as Identifiable>::STABLE_TYPE_ID" % short(im["self_ty"]))
    o.sites = n
    if n < 4:
        ctx.fail(o, "(program)", "expected registry + 2 store discriminants, found %d sites" % n)


def c14f(ctx, prog):
    """Compile-time witness (E4): rustc's const evaluator computes the repository's own const fns inside a generated
    crate of `const _: () = assert!(..)` items; a violated assertion is a build error naming the type / byte."""
    from .. import witness
    if ctx.key_prefix:
        return  # one witness per run; the second (workspace) pass of the thorough tier adds nothing to it
    selfs = {im["self_ty"] for im in prog.impls if (im.get("trait") or "").endswith("Identifiable")}
    full = ctx.tier == "thorough"
    n_types, n_assert, failures = witness.run(selfs, full=full)
    o = ctx.ob("C14.f", "witness/universe-ids-pairwise-distinct", "E4",
               "the STABLE_TYPE_IDs of a constructor-closed universe (argument order, nesting, arity, pointer kind, unsized pointees) are pairwise distinct — const-evaluated by rustc")
    o.sites = n_types
    o.detail = "%d types, %d const assertions, %s universe" % (n_types, n_assert, "full" if full else "quick")
    if n_types < (6000 if full else 2000):
        ctx.fail(o, "(program)", "the witness universe shrank to %d types" % n_types)
    o2 = ctx.ob("C14.f", "witness/every-name-byte-and-the-length-reach-the-id", "E4",
                "flipping any single byte of a 1..41-byte name, appending a NUL, or dropping the last byte changes from_unique_type_name — const-evaluated by rustc")
    o2.sites = sum(range(1, 42)) + 2 * 41
    o3 = ctx.ob("C14.f", "witness/combine-is-ordered-and-not-absorbing", "E4", "combine(a, b) != combine(b, a) and != a on base ids — const-evaluated by rustc")
    o3.sites = 8
    by = {"universe-distinct": o, "name-byte": o2, "name-length": o2, "combine-order": o3, "combine-absorbs": o3}
    for kind, what in failures:
        oo = by.get(kind, o)
        if kind == "universe-distinct":
            msg = "the id of `%s` is shared with another type of the universe" % what
        elif kind.startswith("name-"):
            msg = "StableTypeID::from_unique_type_name does not depend on %s: two different type names receive one id" % what
        else:
            msg = what
        ctx.fail(oo, "crates/stable_type_id/src/lib.rs (const-evaluated)", msg)


def run(ctx):
    prog = ctx.prog
    impls = id_impls(prog)
    o = ctx.ob("C14.a", "enumeration", "K3", "all Identifiable impls are enumerated")
    o.sites = len(impls)
    if len(impls) < 140:
        ctx.fail(o, "(program)", "expected >= 140 Identifiable impls, found %d" % len(impls))
    ctx.run_clause("C14.a", lambda c: c14a(c, impls))
    ctx.run_clause("C14.b", lambda c: c14b(c, impls, prog))
    ctx.run_clause("C14.c", lambda c: c14c(c, prog))
    ctx.run_clause("C14.d", lambda c: c14d(c, prog))
    ctx.run_clause("C14.e", lambda c: c14e(c, prog))
    ctx.run_clause("C14.f", lambda c: c14f(c, prog))
    # "stores are addressed by the id": the id picks a column family / keyspace together with the column's KIND; every site of
    # one family has to ask for the same kind, else one id names two stores (C11.d's rule, both backends), evaluated as C14.g
    # "distinct query keys receive distinct query identifiers": the key half of a QueryID is the key's stable hash, so the
    # framing clauses of C13.a (lengths before repetitions and raw byte runs, a prefix written for every length) are
    # necessary conditions here too; evaluated as C14.h
    from . import C13
    impls13 = C13.hash_impls(prog)
    ctx.alias = {"C13.a": "C14.h"}
    ctx.run_clause("C14.h", lambda c: C13.c13a(c, impls13))
    ctx.run_clause("C14.h", lambda c: C13.c13a_raw(c, prog))
    ctx.run_clause("C14.h", lambda c: C13.c13a_prefix(c, prog))
    ctx.alias = {}
    if not ctx.key_prefix:
        from . import C11
        ctx.alias = {"C11.d": "C14.g"}
        ctx.run_clause("C14.g", lambda c: C11.column_kind_agreement(c, prog, "fjall", "fjall"))
        ctx.run_clause("C14.g", lambda c: C11.column_kind_agreement(c, c.program("rocks"), "rocksdb", "rocksdb"))
        ctx.alias = {}

"""C15 — interning is canonical under concurrency and survives encoding (structural clauses)."""
import re

from .. import dataflow as df
from .. import wire
from ..facts import Site, op_local, short

EXPLANATION = (
    "Static analysis over rustc's promoted MIR of qbice_storage::intern. C15.a double-checked insertion: in intern and intern_unsized every allocation "
    "of a canonical Arc and every insertion of its Weak happens under the write guard of the shard selected by the value's hash, in the Vacant arm or — in "
    "the Occupied arm — only after Weak::upgrade of the stored entry failed; the fast path returns only an upgraded handle; the key used is the hash of "
    "the value being interned. C15.b the only removal from a typed shard is `retain` in vacuum_shard, keeping exactly the upgradable weaks, under "
    "try-write guards; shards are keyed by T::STABLE_TYPE_ID and downcast to the shard type of the same T, so values of different types never share. "
    "C15.c encoding: Encode for Interned<T> and the four Decode impls have equal wire languages (inline source on first occurrence in a session, 128-bit "
    "reference afterwards); the first/reference decision is the bool returned by inserting (T::STABLE_TYPE_ID, hash) into the session set; decoding "
    "interns sources and resolves references through the interner taken from the plugin. Canonicity under all interleavings is NOT decided.")

NOT_DECIDED = [
    "that all live handles of equal values share one allocation at every instant under all interleavings of intern/drop/vacuum (schedule-dependent)",
    "that a decoded reference's target is still alive when values are decoded in isolation; 128-bit hash collisions (values are identified by hash only)",
]
ASSUMPTIONS = ["parking_lot RwLock guards of Sharded give mutual exclusion per shard", "Weak::upgrade fails iff no strong handle is left"]


def c15a(ctx):
    prog = ctx.prog
    for fn, alloc_pat in (("Interner::intern", r"alloc::sync::Arc::<T(, A)?>::new$"), ("Interner::intern_unsized", r"core::convert::From::from$")):
        o = ctx.ob("C15.a", "%s/double-checked-insertion" % fn, "K1+K4", "a new canonical allocation is created and published only under the shard's write lock and only if no live one exists")
        b = ctx.touch(prog.body(fn))
        ws = b.calls_to(r"sharded::Sharded::<T>::write_shard$")
        rs = b.calls_to(r"sharded::Sharded::<T>::read_shard$")
        si = b.calls_to(r"sharded::Sharded::<T>::shard_index$")
        hs = b.calls_to(r"intern::Interner::hash_128$")
        allocs = [s for s in b.calls_to(alloc_pat) if "Arc<" in b.locals[s.node["dest"][0]]["ty"]]
        inserts = b.calls_to(r"hash_map::(OccupiedEntry|VacantEntry)<'a, K, V(, A)?>::insert$|hash::map::(OccupiedEntry|VacantEntry)::<.*>::insert$")
        ups = b.calls_to(r"alloc::sync::Weak::<T(, A)?>::upgrade$")
        ent = b.calls_to(r"HashMap::<K, V, S(, A)?>::entry$")
        o.sites = len(ws) + len(rs) + len(allocs) + len(inserts) + len(ups) + len(ent)
        if len(ws) != 1 or len(rs) != 1 or len(si) != 1 or len(hs) != 1 or len(allocs) != 2 or len(inserts) != 2 or len(ent) != 1 or len(ups) < 1:
            ctx.fail(o, Site(b, 0, 0), "anchors missing in %s (write_shard=%d read_shard=%d shard_index=%d hash_128=%d allocations=%d inserts=%d entry=%d upgrade=%d)" % (
                fn, len(ws), len(rs), len(si), len(hs), len(allocs), len(inserts), len(ent), len(ups)))
            continue
        for s in allocs + inserts:
            if not b.site_dominates(ws[0], s) or not b.held(s.bb, "RwLockWriteGuard"):
                ctx.fail(o, s, "%s allocates/publishes a canonical value outside the shard's write lock: two threads can both publish an allocation for the same value" % fn)
            if not b.site_dominates(ent[0], s):
                ctx.fail(o, s, "%s publishes without looking the key up under the write lock" % fn)
        # both locks are on the shard selected by the value's hash, and the entry key is that hash
        for g in (ws[0], rs[0]):
            if not any(x.kind == "call" and x.site == si[0] for x in df.origins_of_operand(b, g.node["args"][1])):
                ctx.fail(o, g, "%s locks a shard that is not selected by shard_index(hash)" % fn)
        LOWHIGH = [(r"qbice_stable_hash::Compact128::(low|high)$", None)]
        if not any(x.kind == "call" and x.site == hs[0] for x in df.origins_of_operand(b, si[0].node["args"][1], extra_transparent=LOWHIGH)):
            ctx.fail(o, si[0], "the shard index of %s is not computed from the value's hash" % fn)
        if not any(x.kind == "call" and x.site == hs[0] for x in df.origins_of_operand(b, ent[0].node["args"][1])):
            ctx.fail(o, ent[0], "%s keys the entry by something other than the value's hash" % fn)
        if not any(x.kind == "param" and str(x.info).startswith("_2") for x in df.origins_of_operand(b, hs[0].node["args"][1])):
            ctx.fail(o, hs[0], "%s hashes something other than the value being interned" % fn)
        # Occupied arm: allocation only after a failed upgrade of that entry
        occ_edges = [(sb, tb) for sb, tb, v, c in df.variant_edges(b, "hash::map::Entry") if v == 0]
        vac_edges = [(sb, tb) for sb, tb, v, c in df.variant_edges(b, "hash::map::Entry") if v == 1]
        if len(occ_edges) != 1 or len(vac_edges) != 1:
            ctx.fail(o, ent[0], "%s does not match on the map entry (Occupied/Vacant)" % fn)
            continue
        occ_allocs = [s for s in allocs if b.edge_dominates(occ_edges[0], s.bb)]
        vac_allocs = [s for s in allocs if b.edge_dominates(vac_edges[0], s.bb)]
        if len(occ_allocs) != 1 or len(vac_allocs) != 1:
            ctx.fail(o, ent[0], "%s must allocate once in the Occupied arm (dead weak) and once in the Vacant arm" % fn)
            continue
        inner_up = [u for u in ups if b.edge_dominates(occ_edges[0], u.bb)]
        if len(inner_up) != 1:
            ctx.fail(o, occ_allocs[0], "the Occupied arm of %s does not re-check the stored weak with upgrade()" % fn)
        else:
            # allocation must be on the None edge of the upgrade result
            ok = df.dominated_by_variant(b, occ_allocs[0].bb, "core::option::Option", {0},
                                         place_pred=lambda c: any(x.kind == "call" and x.site == inner_up[0] for x in df.origins_of_place(b, c.place)))
            if not ok:
                ctx.fail(o, occ_allocs[0], "%s replaces an entry whose weak may still be alive: a second allocation for a live value breaks canonicity (handles no longer pointer-equal)" % fn)
        # every Interned returned wraps either an upgraded Arc or the Arc just published
        for a in b.aggregates(r"intern::Interned$"):
            os_ = df.origins_of_operand(b, a.node["rv"]["ops"][0])
            via_and_then = [x for x in os_ if x.kind == "call" and (x.callee() or "").endswith("::and_then")
                            and re.search(r"Weak::<T(, A)?>::upgrade$", ((x.site.node["args"][1].get("c") or {}).get("fn") or {}).get("path", ""))]
            if not any(x.kind == "call" and (x.site in ups or x.site in allocs) for x in os_) and not via_and_then \
                    and not any(x.kind == "param" and str(x.info).startswith("_2") for x in os_):
                ctx.fail(o, a, "%s returns a handle that is neither an upgraded canonical Arc nor the one it published" % fn)
        # the published weak is the downgrade of the allocated Arc
        for ins in inserts:
            io = df.origins_of_operand(b, ins.node["args"][1])
            if not any(x.kind == "call" and x.site in allocs for x in io) and not any(x.kind == "param" and str(x.info).startswith("_2") for x in io):
                ctx.fail(o, ins, "the Weak stored by %s does not point to the allocation that is returned" % fn)
    o = ctx.ob("C15.a", "get_from_hash/returns-upgraded-only", "K5", "lookup by hash hands out only upgraded (live) canonical allocations")
    g = ctx.touch(prog.body("Interner::get_from_hash"))
    rs = g.calls_to(r"sharded::Sharded::<T>::read_shard$")
    at = g.calls_to(r"core::option::Option::<[^>]*>::and_then$")
    o.sites = len(rs) + len(at)
    if len(rs) != 1 or len(at) != 1:
        ctx.fail(o, Site(g, 0, 0), "anchors missing in get_from_hash")
    else:
        fnarg = at[0].node["args"][1].get("c", {})
        if not (fnarg.get("fn") or {}).get("path", "").endswith("Weak::<T, A>::upgrade") and not re.search(r"Weak::<T(, A)?>::upgrade$", (fnarg.get("fn") or {}).get("path", "")):
            ctx.fail(o, at[0], "get_from_hash does not upgrade the stored weak")


def c15a_shard_agreement(ctx):
    """intern, intern_unsized and get_from_hash must pick the sub-shard by the same function of the value hash; otherwise a
    value is published in one sub-shard and looked up (or re-interned) in another: two canonical allocations, or a
    reference that cannot be resolved when decoding."""
    prog = ctx.prog
    o = ctx.ob("C15.a", "shard-selection-agrees", "K8", "intern, intern_unsized and get_from_hash select the sub-shard by the same accessor of the value's hash")
    how = {}
    for fn in ("Interner::intern", "Interner::intern_unsized", "Interner::get_from_hash"):
        b = ctx.touch(prog.body(fn))
        si = b.calls_to(r"sharded::Sharded::<T>::shard_index$")
        o.sites += len(si)
        if len(si) != 1:
            ctx.fail(o, Site(b, 0, 0), "%s: expected exactly one shard_index call (found %d)" % (fn, len(si)))
            continue
        acc = sorted({(x.callee() or "").rsplit("::", 1)[-1] if x.kind == "call" else x.kind for x in df.origins_of_operand(b, si[0].node["args"][1])})
        hsrc = []
        for x in df.origins_of_operand(b, si[0].node["args"][1]):
            if x.kind == "call" and x.site.node["args"]:
                hsrc += [("hash_128" if (y.kind == "call" and (y.callee() or "").endswith("hash_128")) else y.kind) for y in df.origins_of_operand(b, x.site.node["args"][0])]
        how[fn] = (tuple(acc), tuple(sorted(set(hsrc))))
    accs = {v[0] for v in how.values()}
    if len(accs) > 1:
        ctx.fail(o, "(program)", "the sub-shard is selected differently: %s" % ", ".join("%s by %s" % (k, "/".join(v[0])) for k, v in sorted(how.items())))


def c15b(ctx):
    prog = ctx.prog
    o = ctx.ob("C15.b", "who-may-remove-from-typed-shards", "K3", "weak entries leave a typed shard only through vacuum_shard's retain (or are replaced in place when dead)")
    rem = re.compile(r"HashMap::<K, V, S(, A)?>::(remove|remove_entry|retain|clear|drain|extract_if)$|hash::map::OccupiedEntry::<.*>::(remove|remove_entry)$")
    sites = []
    for b in prog.all_bodies(["qbice_storage"]):
        if not b.file.endswith("/intern.rs"):
            continue
        for s in b.calls(lambda f, t: bool(rem.search(f["path"]))):
            sites.append(s)
    o.sites = len(sites)
    if len(sites) != 1:
        ctx.fail(o, "(program)", "expected exactly one removal site in intern.rs (vacuum_shard's retain), found %d: %s" % (len(sites), [s.body.name for s in sites]))
    for s in sites:
        ctx.touch(s.body)
        if s.body.name != "intern::vacuum_shard" or not s.node["fn"]["path"].endswith("::retain"):
            ctx.fail(o, s, "entries are removed from an interner shard in %s" % s.body.name)
    o = ctx.ob("C15.b", "vacuum/keeps-exactly-live-weaks", "K4", "vacuum retains an entry iff its weak can still be upgraded, under a try-write guard of that shard")
    v = ctx.touch(prog.body("intern::vacuum_shard"))
    cl = [c for c in prog.find(r"^intern::vacuum_shard::\{closure#0\}$")]
    it = v.calls_to(r"sharded::Sharded::<T>::try_iter_write_shards$")
    o.sites = len(cl) + len(it)
    if len(cl) != 1 or len(it) != 1:
        ctx.fail(o, Site(v, 0, 0), "anchors missing in vacuum_shard (retain closure=%d, try_iter_write_shards=%d)" % (len(cl), len(it)))
    else:
        c = ctx.touch(cl[0])
        up = c.calls_to(r"alloc::sync::Weak::<T(, A)?>::upgrade$")
        isn = c.calls_to(r"core::option::Option::<[^>]*>::is_some$")
        if len(up) != 1 or len(isn) != 1 or not any(x.kind == "call" and x.site == isn[0] for x in df.origins_of_place(c, [0, []])) \
                or not any(x.kind == "call" and x.site == up[0] for x in df.origins_of_operand(c, isn[0].node["args"][0])):
            ctx.fail(o, Site(c, 0, 0), "the retain predicate of vacuum_shard is not `weak.upgrade().is_some()`: live entries could be dropped (a later intern of an equal value "
                     "allocates a second copy) or dead ones kept forever")
        if any(x.kind == "un" for x in []) or c.assigns(lambda st: st["rv"]["k"] == "un" and st["rv"]["op"] == "Not"):
            ctx.fail(o, Site(c, 0, 0), "the retain predicate is negated")
        if not any(x.kind == "param" and str(x.info).startswith("_3") for x in df.origins_of_operand(c, up[0].node["args"][0])) if up else True:
            ctx.fail(o, Site(c, 0, 0), "the retain predicate does not look at the entry's own weak")
    o = ctx.ob("C15.b", "types-never-share-a-shard", "K5", "the outer map is keyed by T::STABLE_TYPE_ID and the shard is downcast to the typed shard of the same T")
    b = ctx.touch(prog.body("Interner::obtain_read_shard"))
    from .C14 import consts_in
    cs = [c for c in consts_in(b) if (c.get("uneval") or "").endswith("Identifiable::STABLE_TYPE_ID")]
    o.sites = len(cs)
    if len(cs) != 1 or cs[0].get("self_ty") != "T":
        ctx.fail(o, Site(b, 0, 0), "obtain_read_shard does not key the outer map by <T as Identifiable>::STABLE_TYPE_ID")
    ents = b.calls_to(r"HashMap::<K, V, S(, A)?>::entry$")
    if len(ents) != 1 or not b.held(ents[0].bb, "RwLockWriteGuard"):
        ctx.fail(o, Site(b, 0, 0), "a new typed shard is not created under the outer write lock with an entry re-check")
    # the vacuum function stored with the shard is the one for the same T
    vf = [c for c in consts_in(b) if (c.get("fn") or {}).get("path", "").endswith("intern::vacuum_shard")]
    if len(vf) != 1 or vf[0]["fn"].get("gargs") != ["T"]:
        ctx.fail(o, Site(b, 0, 0), "the shard is registered with a vacuum function for another type")
    for fn in ("Interner::intern", "Interner::intern_unsized", "Interner::get_from_hash"):
        f = ctx.touch(prog.body(fn))
        dc = f.calls_to(r"downcast_ref$")
        o.sites += len(dc)
        if len(dc) != 1 or not re.search(r"Sharded<.*Weak<T>", dc[0].node["fn"]["gargs"][-1] if dc[0].node["fn"].get("gargs") else ""):
            ctx.fail(o, Site(f, 0, 0), "%s does not downcast to the typed shard of its own T (%s)" % (fn, dc[0].node["fn"].get("gargs") if dc else None))
        ors = f.calls_to(r"Interner::obtain_read_shard$")
        if len(ors) != 1 or ors[0].node["fn"]["gargs"][:1] != ["T"]:
            ctx.fail(o, Site(f, 0, 0), "%s obtains the shard of another type" % fn)


def c15c(ctx):
    prog = ctx.prog
    enc = wire.Shapes(prog, "enc")
    dec = wire.Shapes(prog, "dec")
    o = ctx.ob("C15.c", "interned/wire-shapes-agree", "K9", "every Decode impl of Interned reads what Encode for Interned writes")
    n = 0
    for d in dec.impls:
        if not repr(d["self"]).startswith("qbice_storage::intern::Interned"):
            continue
        n += 1
        e, s = enc.select(d["self"])
        if e is None:
            ctx.fail(o, Site(d["body"], 0, 0), "no Encode impl for %s" % short(repr(d["self"])))
            continue
        diff = wire.language_diff(enc.lang_of_impl(e, s), dec.lang_of_impl(d, {}))
        if diff is not None:
            ctx.fail(o, Site(d["body"], 0, 0), "Encode/Decode for %s disagree: only the %s accepts [%s]" % (short(repr(d["self"])), diff[0], wire.fmt_path(diff[1])))
    o.sites = n
    if n != 4:
        ctx.fail(o, "(program)", "expected the 4 Decode impls of Interned (T, str, [T], Path), found %d" % n)
    o = ctx.ob("C15.c", "encode/first-occurrence-decision", "K4+K5", "the full value is written exactly when (type id, hash) was newly inserted into the session's seen-set")
    b = ctx.touch(prog.body("<Interned as Encode>::encode"))
    ins = b.calls_to(r"HashSet::<T, S(, A)?>::insert$")
    agg = b.aggregates(r"intern::InternedID$")
    hs = b.calls_to(r"intern::Interner::hash_128$")
    em = [s for s in b.calls_to(r"Encoder::emit_u8$")]
    o.sites = len(ins) + len(agg) + len(hs) + len(em)
    if len(ins) != 1 or len(agg) != 1 or len(hs) != 1 or len(em) != 2:
        ctx.fail(o, Site(b, 0, 0), "anchors missing in Encode for Interned (insert=%d InternedID=%d hash_128=%d emit_u8=%d)" % (len(ins), len(agg), len(hs), len(em)))
    else:
        from .C14 import consts_in
        f = agg[0].node["rv"]["fields"]
        ops = agg[0].node["rv"]["ops"]
        tid = ops[f.index("stable_type_id")].get("c") or {}
        if not (tid.get("uneval") or "").endswith("Identifiable::STABLE_TYPE_ID") or tid.get("self_ty") != "T":
            ctx.fail(o, agg[0], "the seen-set key does not contain <T as Identifiable>::STABLE_TYPE_ID: equal hashes of different types would be written as references to each other")
        if not any(x.kind == "call" and x.site == hs[0] for x in df.origins_of_operand(b, ops[f.index("hash_128")])):
            ctx.fail(o, agg[0], "the seen-set key does not contain the value's hash")
        if not any(x.kind == "agg" and x.site == agg[0] for x in df.origins_of_operand(b, ins[0].node["args"][1])):
            ctx.fail(o, ins[0], "something other than the InternedID is inserted")
        if "get_mut_or_default" not in " ".join(x.callee() or "" for x in df.origins_of_operand(b, ins[0].node["args"][0]) if x.kind == "call"):
            ctx.fail(o, ins[0], "the seen-set is not the per-session state")
        sw = ins[0].node["t"]
        if b.blocks[sw]["term"]["k"] != "switch":
            ctx.fail(o, ins[0], "the result of seen.insert() does not decide between source and reference")
        else:
            tt, ft = df.bool_edges(b, sw)
            for e_ in em:
                v = (e_.node["args"][1].get("c") or {}).get("v")
                want = tt if v == "0" else ft
                if not b.edge_dominates((sw, want), e_.bb):
                    ctx.fail(o, e_, "tag %s is written on the wrong branch of `first`: a first occurrence would be written as a bare reference (undecodable in isolation) or every "
                             "occurrence inline (sharing lost)" % v)
        # the hash is of the interned value itself
        if "0" not in df.access_path(b, hs[0].node["args"][1]) and not any(x.kind == "param" for x in df.origins_of_operand(b, hs[0].node["args"][1])):
            ctx.fail(o, hs[0], "the reference hash is not the hash of the interned value")
    o = ctx.ob("C15.c", "decode/intern-sources-resolve-references", "K5", "decoding interns an inline source and resolves a reference by its hash in the interner taken from the plugin")
    m = 0
    for d in dec.impls:
        if not repr(d["self"]).startswith("qbice_storage::intern::Interned"):
            continue
        b = ctx.touch(d["body"])
        pg = b.calls_to(r"plugin::Plugin::get$")
        it = b.calls_to(r"intern::Interner::intern(_unsized)?$")
        gh = b.calls_to(r"intern::Interner::get_from_hash$")
        m += len(pg) + len(it) + len(gh)
        if len(pg) != 1 or len(it) != 1 or len(gh) != 1:
            ctx.fail(o, Site(b, 0, 0), "anchors missing in Decode for %s" % short(repr(d["self"])))
            continue
        for s in (it[0], gh[0]):
            if not any(x.kind == "call" and x.site == pg[0] for x in df.origins_of_operand(b, s.node["args"][0])):
                ctx.fail(o, s, "Decode for %s uses an interner other than the plugin's" % short(repr(d["self"])))
        if not df.dominated_by_variant(b, it[0].bb, "intern::WiredInterned", {0}) or not df.dominated_by_variant(b, gh[0].bb, "intern::WiredInterned", {1}):
            ctx.fail(o, it[0], "Decode for %s does not intern exactly the Source variant and look up exactly the Reference variant" % short(repr(d["self"])))
    o.sites = m


def run(ctx):
    ctx.run_clause("C15.a", c15a)
    ctx.run_clause("C15.a", c15a_shard_agreement)
    ctx.run_clause("C15.b", c15b)
    ctx.run_clause("C15.c", c15c)
    # the interner's key is (type id, stable hash): equal values must hash alike whatever their history, else equal values get
    # two allocations and a decoded Reference cannot be resolved.  C13.b (unordered collections are hashed order-independently)
    # and C13.c (no address / layout / raw-storage input) are necessary for that; evaluated here as C15.d
    from . import C13
    impls13 = C13.hash_impls(ctx.prog)
    ctx.alias = {"C13.b": "C15.d", "C13.c": "C15.d"}
    ctx.run_clause("C15.d", lambda c: C13.c13b(c, c.prog, impls13))
    ctx.run_clause("C15.d", lambda c: C13.c13c(c, c.prog, impls13))
    ctx.alias = {}

"""C16 — the admission cache never evicts pinned entries and stays bounded (structural clauses)."""
import re

from .. import dataflow as df
from ..facts import Site, op_local, const_int

EXPLANATION = (
    "Static analysis over rustc's promoted MIR of qbice_storage::tiny_lfu and its users. C16.a who may remove from the storage map: exactly the "
    "policy-driven remove_closure and the owner-driven OccupiedEntry::remove; in remove_closure the removal is control-dependent on "
    "`!is_pinned(key, value)` evaluated on the value of the same OccupiedEntry (under the bucket lock). C16.b the policy forgets a key only "
    "after storage confirmed the removal; an unconfirmed victim is moved to the Pinned region (5 eviction sites). C16.c storage and policy "
    "messages are paired (insert -> Insert, remove -> Removed, unpin -> Unpinned) on every path. C16.d the three pin predicates read the state "
    "their owners mutate (pin_count, dirty, Arc::strong_count). The numeric bound is NOT decided. C16.j the lock table's pin predicate reads Arc::strong_count of the stored lock (C02.d).")

NOT_DECIDED = [
    "the numeric residency bound (capacity + pinned + maintenance slack) for all access patterns",
    "frequency-sketch behaviour; identity of the per-query lock under every schedule",
]
ASSUMPTIONS = ["scc::HashMap::entry_sync holds the bucket lock while the OccupiedEntry lives"]

STORAGE_REMOVE = re.compile(r"scc::hash_map::(HashMap::<K, V, H>::(remove_sync|remove_if_sync|retain_sync|clear_sync|remove_async|retain_async|clear_async|prune_sync|pop)|OccupiedEntry::<'h, K, V, H>::(remove|remove_entry))$")


def in_tiny_lfu(b):
    return b.crate == "qbice_storage" and "/tiny_lfu" in b.file


def c16a(ctx):
    prog = ctx.prog
    o = ctx.ob("C16.a", "who-may-remove-from-storage", "K3", "entries leave TinyLFU's storage map only through remove_closure (policy) and OccupiedEntry::remove (owner)")
    sites = []
    for b in prog.all_bodies(["qbice_storage"]):
        if not in_tiny_lfu(b):
            continue
        for s in b.calls(lambda f, t: bool(STORAGE_REMOVE.search(f["path"]))):
            sites.append(s)
    ctx.floor(o, sites, 2, "removal sites on the storage map")
    allowed = {"TinyLFUInner::remove_closure::{closure#0}", "OccupiedEntry::remove"}
    for s in sites:
        ctx.touch(s.body)
        if s.body.name not in allowed:
            ctx.fail(o, s, "an entry is removed from TinyLFU's storage in %s, bypassing the pin check / the policy message" % s.body.name)
    o = ctx.ob("C16.a", "remove_closure/removal-requires-unpinned", "K4+K5", "policy-driven eviction re-asks the pin predicate under the entry lock and removes only when it answers false")
    b = ctx.touch(prog.body("TinyLFUInner::remove_closure::{closure#0}"))
    rm = b.calls_to(r"OccupiedEntry::<'h, K, V, H>::remove_entry$|OccupiedEntry::<.*>::remove(_entry)?$")
    pin = b.calls_to(r"tiny_lfu::LifecycleListener::is_pinned$")
    ent = b.calls_to(r"scc::hash_map::HashMap::<K, V, H>::entry_sync$")
    o.sites = len(rm) + len(pin) + len(ent)
    if len(rm) != 1 or len(pin) != 1 or len(ent) != 1:
        ctx.fail(o, Site(b, 0, 0), "anchors missing in remove_closure (remove_entry=%d is_pinned=%d entry_sync=%d)" % (len(rm), len(pin), len(ent)))
        return
    # removal only on the edge where is_pinned returned false
    ok = False
    for sb in df.switches(b):
        os_ = df.origins_of_operand(b, b.blocks[sb]["term"]["op"])
        if not any(x.kind == "call" and x.site == pin[0] for x in os_):
            continue
        c = df.switch_cond(b, sb)
        tt, ft = df.bool_edges(b, sb)
        # value tested = can_remove = !is_pinned (possibly through Not): determine polarity w.r.t. is_pinned
        neg = c.negated
        # count Not operations between is_pinned and the switch operand
        nots = 0
        l = op_local(b.blocks[sb]["term"]["op"])
        seen = set()
        while l is not None and l not in seen:
            seen.add(l)
            defs = b.defs.get(l, [])
            if len(defs) != 1:
                break
            site, kind, node = defs[0]
            if kind == "assign" and node["rv"]["k"] == "un" and node["rv"]["op"] == "Not":
                nots += 1
                l = op_local(node["rv"]["a"])
            elif kind == "assign" and node["rv"]["k"] == "use":
                l = op_local(node["rv"]["op"])
            elif kind == "call" and node["fn"].get("path", "").endswith("Not::not"):
                nots += 1
                l = op_local(node["args"][0])
            else:
                break
        pinned_true_edge = tt if nots % 2 == 0 else ft
        pinned_false_edge = ft if nots % 2 == 0 else tt
        if b.edge_dominates((sb, pinned_false_edge), rm[0].bb) and rm[0].bb not in b.reachable([pinned_true_edge], removed_nodes=[sb]):
            ok = True
    if not ok:
        ctx.fail(o, rm[0], "remove_entry in remove_closure is not restricted to `is_pinned(..) == false`: a pinned entry (unflushed write, referenced lock) could be evicted")
    # the value asked about comes from the same occupied entry that is removed
    vo = df.origins_of_operand(b, pin[0].node["args"][2])
    ro = df.origins_of_operand(b, rm[0].node["args"][0])
    if not any(x.kind == "call" and x.site == ent[0] for x in vo) or not any(x.kind == "call" and x.site == ent[0] for x in ro):
        ctx.fail(o, pin[0], "the pin predicate is not evaluated on the value of the entry that is being removed (under its bucket lock)")
    # the closure's answer `true` (removed) must not be given when the entry stayed
    rets = b.assigns(lambda st: st["lhs"] == [0, []])
    if not rets:
        ctx.fail(o, Site(b, 0, 0), "remove_closure result not found")


def c16b(ctx):
    prog = ctx.prog
    o = ctx.ob("C16.b", "policy/forget-only-after-confirmation", "K4", "the policy drops a key from its LRU only when the storage confirmed the removal; otherwise the key is moved to the Pinned region")
    total = 0
    for fn, floor in (("Policy::on_write", 2), ("Policy::unpin", 2), ("Policy::attempt_to_trim_overflowing_pinned", 1)):
        b = ctx.touch(prog.body(fn))
        cbs = b.calls_to(r"core::ops::function::Fn::call$")
        total += len(cbs)
        if len(cbs) < floor:
            ctx.fail(o, Site(b, 0, 0), "expected at least %d `remove(key)` callback calls in %s, found %d" % (floor, fn, len(cbs)))
        forget = b.calls_to(r"tiny_lfu::lru::Lru::<K>::(pop_least_recent|remove)$")
        for f in forget:
            # must be dominated by the true edge of some remove-callback result
            ok = False
            for cb in cbs:
                sw = cb.node["t"]
                if sw is None or b.blocks[sw]["term"]["k"] != "switch":
                    continue
                tt, ft = df.bool_edges(b, sw)
                if df.switch_cond(b, sw).negated:
                    tt, ft = ft, tt
                if (f.bb == tt or b.edge_dominates((sw, tt), f.bb)) and f.bb in b.reachable([tt]):
                    ok = True
            if not ok:
                ctx.fail(o, f, "%s forgets a key (%s) without the storage having confirmed its removal: storage and policy drift apart, the entry is never evicted or accounted" % (
                    fn, f.node["fn"]["path"].rsplit("::", 1)[-1]))
        # ... and the converse: once the storage HAS confirmed the removal, the policy forgets the key on every path (else it
        # keeps a ghost: counted against the capacity, chosen as a victim again and again)
        for cb in cbs:
            sw = cb.node["t"]
            if sw is None or b.blocks[sw]["term"]["k"] != "switch":
                continue
            tt, ft = df.bool_edges(b, sw)
            if df.switch_cond(b, sw).negated:
                tt, ft = ft, tt
            stop = [x.bb for x in cbs if x is not cb] + [h for lp in df.iter_loops(b) for h in [lp.head.bb]]
            bad = b.must_pass([tt], [f.bb for f in forget], to_bbs=b.returns() + [x.bb for x in cbs if x is not cb and x.bb in b.reachable([tt])])
            if bad:
                ctx.fail(o, cb, "%s: after the storage confirmed the removal of a key the policy can go on without forgetting it (no pop_least_recent / remove on that path)" % fn)
        # on the false edge the key must be kept: either moved to Pinned / shuffled / left alone, never popped
        for cb in cbs:
            sw = cb.node["t"]
            if sw is None or b.blocks[sw]["term"]["k"] != "switch":
                ctx.fail(o, cb, "the result of the remove callback is ignored in %s" % fn)
                continue
            tt, ft = df.bool_edges(b, sw)
            if df.switch_cond(b, sw).negated:
                tt, ft = ft, tt
            if fn != "Policy::attempt_to_trim_overflowing_pinned" and cb is not cbs[-1] or fn == "Policy::on_write":
                mv = [m for m in b.calls_to(r"Lru::<K>::move_least_recent_of_to_new_region$") if m.bb in b.reachable([ft], removed_nodes=[sw])]
                pinned_moves = [m for m in mv if any(x.kind == "agg" and x.site.node["rv"].get("vname") == "Pinned" for x in df.origins_of_operand(b, m.node["args"][2]))]
                if fn == "Policy::on_write" and not pinned_moves:
                    ctx.fail(o, cb, "an unconfirmed victim in %s is not moved to the Pinned region" % fn)
    # Policy::on_write: a key the policy does not know yet is entered into the window (new_entry) — the `already known` shortcut
    # is taken exactly on a read hit
    wb = ctx.touch(prog.body("Policy::on_write"))
    ne = wb.calls_to(r"Lru::<K>::new_entry$")
    total += len(ne)
    if len(ne) != 1:
        ctx.fail(o, Site(wb, 0, 0), "anchor missing: Lru::new_entry in Policy::on_write")
    else:
        g = df.guarded_by(wb, ne[0].bb, lambda c: c.kind == "call" and c.callee.endswith("on_read_hit"))
        pol = {((v != 0) != c.negated) for sb, v, tb, c in g if v != "otherwise"} | {(not c.negated) for sb, v, tb, c in g if v == "otherwise"}
        if pol != {False}:
            ctx.fail(o, ne[0], "Policy::on_write enters a key into the LRU under on_read_hit() == %s (must be: exactly when it is NOT already known): new entries are never "
                     "tracked, so never evicted" % (sorted(pol) or "no test"))
    # Policy::unpin: an un-pinned key must not stay in the Pinned region: it either goes back to probation or is dropped
    # (storage-confirmed) or stays pinned because the storage refused — it is never left where nothing evicts it
    ub = ctx.touch(prog.body("Policy::unpin"))
    mv = ub.calls_to(r"Lru::<K>::move_key_to_head_of_region$")
    rm = ub.calls_to(r"Lru::<K>::remove$")
    chk = ub.calls_to(r"Lru::<K>::check_is_in_region$")
    total += len(mv)
    if len(mv) < 1 or len(chk) != 1 or not rm:   # one move per way back to probation (won duel; nobody to duel against, D12)
        ctx.fail(o, Site(ub, 0, 0), "anchor missing in Policy::unpin (move_key_to_head_of_region=%d, check_is_in_region=%d, lru.remove=%d)" % (len(mv), len(chk), len(rm)))
    else:
        cbs_u = ub.calls_to(r"core::ops::function::Fn::call$")
        # every path from `the key is in the Pinned region` to the return passes a move out of Pinned, a removal, or a refused removal
        sw = chk[0].node["t"]
        if sw is not None and ub.blocks[sw]["term"]["k"] == "switch":
            tt, ft = df.bool_edges(ub, sw)
            if df.switch_cond(ub, sw).negated:
                tt, ft = ft, tt
            bad = ub.must_pass([tt], [m_.bb for m_ in mv] + [r_.bb for r_ in rm] + [c_.bb for c_ in cbs_u[-1:]])
            if bad:
                ctx.fail(o, mv[0], "Policy::unpin can return with the un-pinned key still parked in the Pinned region: nothing ever evicts it")
    # ... and a key that its owner removed from the storage is forgotten by the policy as well (else it goes on occupying
    # capacity in the policy's lists and real entries are evicted for it)
    orb = ctx.touch(prog.body("Policy::on_removed"))
    lr = orb.calls_to(r"Lru::<K>::remove$")
    total += len(lr)
    if not lr or orb.must_pass([0], [x.bb for x in lr]):
        ctx.fail(o, Site(orb, 0, 0), "Policy::on_removed does not take the key out of the LRU lists on every path: the policy keeps tracking a key that is no longer stored")
    o.sites = total
    if total < 5:
        ctx.fail(o, "(program)", "expected >= 5 eviction decision sites across the policy, found %d" % total)


def c16c(ctx):
    prog = ctx.prog
    o = ctx.ob("C16.c", "storage-policy-message-pairing", "K1+K2", "every storage change is announced to the policy: insert -> Insert, owner remove -> Removed, unpin -> Unpinned")
    n = 0
    for fn, variant, act in (("VacantEntry::insert", "Insert", r"VacantEntry::<'h, K, V, H>::insert_entry$|scc::hash_map::VacantEntry::<.*>::insert_entry$"),
                             ("OccupiedEntry::remove", "Removed", r"scc::hash_map::OccupiedEntry::<.*>::remove$")):
        cands = [b for b in prog.by_name.get(fn, []) if in_tiny_lfu(b)]
        if len(cands) != 1:
            ctx.fail(o, "(program)", "anchor missing: tiny_lfu %s" % fn)
            continue
        b = ctx.touch(cands[0])
        push = b.calls_to(r"write_buffer::UnboundedBuffer::<T>::push$")
        msg = b.aggregates(r"tiny_lfu::policy::WriteMessage$", variant)
        do = b.calls_to(act)
        n += len(push) + len(msg) + len(do)
        if len(push) != 1 or len(msg) != 1 or len(do) != 1:
            ctx.fail(o, Site(b, 0, 0), "%s must push WriteMessage::%s and perform the storage operation (push=%d msg=%d op=%d)" % (fn, variant, len(push), len(msg), len(do)))
            continue
        if b.must_pass([0], [push[0].bb]) or b.must_pass([0], [do[0].bb]):
            ctx.fail(o, push[0], "%s can return without both announcing and performing the operation" % fn)
        if not any(x.kind == "agg" and x.site == msg[0] for x in df.origins_of_operand(b, push[0].node["args"][1])):
            ctx.fail(o, push[0], "%s pushes a message other than WriteMessage::%s" % (fn, variant))
    b = ctx.touch(prog.body("TinyLFU::unpin"))
    msg = b.aggregates(r"tiny_lfu::policy::WriteMessage$", "Unpinned")
    tm = b.calls_to(r"TinyLFU::<K, V, L>::try_maintenance$")
    n += len(msg) + len(tm)
    if len(msg) != 1 or len(tm) != 1:
        ctx.fail(o, Site(b, 0, 0), "TinyLFU::unpin must announce WriteMessage::Unpinned")
    o.sites = n
    # messages are consumed: process_write handles all three variants
    o2 = ctx.ob("C16.c", "policy-handles-every-message", "K10", "process_write dispatches Insert/Removed/Unpinned to on_write/on_removed/unpin")
    p = ctx.touch(prog.body("TinyLFUInner::process_write"))
    want = {0: r"Policy::<K>::on_write$", 1: r"Policy::<K>::on_removed$", 2: r"Policy::<K>::unpin$"}
    edges = {v: tb for sb, tb, v, c in df.variant_edges(p, "tiny_lfu::policy::WriteMessage")}
    o2.sites = len(edges)
    for v, pat in want.items():
        tb = edges.get(v, edges.get("otherwise"))
        if tb is None or not any(s.bb in p.reachable([tb]) for s in p.calls_to(pat)):
            ctx.fail(o2, Site(p, 0, 0), "WriteMessage variant #%d is not dispatched to %s" % (v, pat))
    # buffers are drained under the policy lock
    pm = ctx.touch(prog.body("TinyLFUInner::process_policy_message"))
    if not pm.calls_to(r"UnboundedBuffer::<T>::pop$") or not pm.calls_to(r"ReadBuffer::<T>::drain$"):
        ctx.fail(o2, Site(pm, 0, 0), "process_policy_message must drain the write and read buffers")


def c16d(ctx):
    prog = ctx.prog
    o = ctx.ob("C16.d", "pin-predicates-read-owner-state", "K5", "each pin predicate reads the field its owner mutates")
    n = 0
    for name, field in (("<PinnedLifecycleListener as LifecycleListener>::is_pinned", "pin_count"),
                        ("<PinnedLogLifecycleListener as LifecycleListener>::is_pinned", "dirty")):
        b = ctx.touch(prog.body(name))
        ld = b.calls_to(r"core::sync::atomic::Atomic::<(i32|usize)>::load$")
        n += len(ld)
        if len(ld) != 1 or field not in df.access_path(b, ld[0].node["args"][0]):
            ctx.fail(o, Site(b, 0, 0), "%s must load `%s` of the value it is asked about" % (name, field))
            continue
        cmp_ = b.assigns(lambda st: st["rv"]["k"] == "bin" and st["rv"]["op"] in ("Gt", "Ne", "Ge", "Eq", "Lt", "Le"))
        if len(cmp_) != 1:
            ctx.fail(o, ld[0], "%s: expected one comparison" % name)
            continue
        rv = cmp_[0].node["rv"]
        k = const_int(rv["b"])
        if not ((rv["op"] == "Gt" and k == 0) or (rv["op"] == "Ne" and k == 0) or (rv["op"] == "Ge" and k == 1)):
            ctx.fail(o, cmp_[0], "%s must answer `%s > 0` (found %s %s): an entry with unflushed writes would be evictable" % (name, field, rv["op"], k))
    o.sites = n
    # owners: pin_count is incremented under `updated` and decremented in flush_staging; dirty likewise
    o2 = ctx.ob("C16.d", "unpin-only-at-zero", "K4", "a key is announced as unpinned only when its pin counter dropped from 1 to 0")
    for fn, closure, field in (("WideColumnCache::flush_staging", "WideColumnCache::flush_staging::{closure#0}", "pin_count"),
                               ("Repr::flush_staging", "Repr::flush_staging::{closure#0}", "dirty")):
        b = ctx.touch(prog.body(fn))
        c = ctx.touch(prog.body(closure))
        fs = c.calls_to(r"core::sync::atomic::Atomic::<(i32|usize)>::fetch_sub$")
        up = b.calls_to(r"TinyLFU::<K, V, L>::unpin$")
        o2.sites += len(fs) + len(up)
        if len(fs) != 1 or field not in df.access_path(c, fs[0].node["args"][0]) or len(up) != 1:
            ctx.fail(o2, Site(b, 0, 0), "%s must fetch_sub `%s` and call TinyLFU::unpin" % (fn, field))
            continue
        eq = c.assigns(lambda st: st["rv"]["k"] == "bin" and st["rv"]["op"] == "Eq")
        if len(eq) != 1 or const_int(eq[0].node["rv"]["b"]) != 1 or not any(x.kind == "call" and x.site == fs[0] for x in df.origins_of_operand(c, eq[0].node["rv"]["a"])):
            ctx.fail(o2, fs[0], "%s: the unpin decision must be `previous count == 1`" % fn)
        # unpin call control-dependent on that flag
        # ... on the bool the closure computed (a dominating `if let Some(..)` on the lookup result is not a guard)
        guards = [sb for sb in df.switches(b) if b.bb_dominates(sb, up[0].bb) and df.switch_cond(b, sb).kind != "disc"
                  and any(tb != up[0].bb and not b.edge_dominates((sb, tb), up[0].bb) for v, tb in df.switch_edges(b, sb))]
        if not guards:
            ctx.fail(o2, up[0], "TinyLFU::unpin in %s does not depend on `the counter dropped from 1`: an entry with unflushed writes of a later batch becomes evictable" % fn)


def c16e(ctx):
    """The policy decides evictions from the per-region length counters, and finds a node's list through the region tag
    kept in the key map.  Every list move in Lru must keep the three in step: unlink <-> `lens[from] -= 1`, push_head <->
    `lens[to] += 1`, a move between regions <-> the tag of that key rewritten.  A lost decrement makes the policy evict
    for ever, a lost increment lets a region grow without bound, a stale tag unlinks a node from the wrong list."""
    prog = ctx.prog
    o = ctx.ob("C16.e", "lru/region-counters-and-tags-follow-list-moves", "K8",
               "in every Lru method: #unlink == #(lens -= 1), #push_head == #(lens += 1), and a method that both unlinks and pushes rewrites the key's region tag")
    def lens_updates(b):
        inc = dec = 0
        for a in b.assigns(lambda st: any(e.startswith("f:lens") for e in st["lhs"][1])):
            rv = a.node["rv"]
            op_ = None
            if rv["k"] == "bin":
                op_ = rv["op"]
            elif rv["k"] == "use":
                pl = df.op_place(rv["op"])
                if pl is not None:
                    for d in b.assigns(lambda st, l=pl[0]: st["lhs"][0] == l and not st["lhs"][1] and st["rv"]["k"] == "bin"):
                        op_ = d.node["rv"]["op"]
            if op_ and op_.startswith("Add"):
                inc += 1
            elif op_ and op_.startswith("Sub"):
                dec += 1
            else:
                return None
        return inc, dec
    n = 0
    radt = next((v for k, v in prog.adts.items() if k.endswith("tiny_lfu::lru::Region")), None)
    region_names = [v["name"] for v in radt["variants"]] if radt else []
    for b in prog.all_bodies(["qbice_storage"]):
        if not b.file.endswith("tiny_lfu/lru.rs") or not b.name.startswith("Lru::"):
            continue
        un = len(b.calls_to(r"LruList::<K>::unlink$"))
        ph = len(b.calls_to(r"LruList::<K>::push_head$"))
        lu = lens_updates(b)
        if not (un or ph or (lu and any(lu))):
            continue
        n += 1
        ctx.touch(b)
        if lu is None:
            ctx.fail(o, Site(b, 0, 0), "%s writes a region length that is neither `+= 1` nor `-= 1`" % b.name)
            continue
        inc, dec = lu
        if un != dec or ph != inc:
            ctx.fail(o, Site(b, 0, 0), "%s: %d unlink / %d `lens -= 1`, %d push_head / %d `lens += 1` — the region lengths no longer mirror the lists" % (b.name, un, dec, ph, inc))
        # which region: the counter that is decremented is the one of the list the node was unlinked from, the counter that is
        # incremented the one of the list it was pushed to (compared by where the region value comes from)
        def sig(op_):
            out = set()
            for x in df.origins_of_operand(b, op_):
                if x.kind == "call":
                    out.add(("call", (x.callee() or "").rsplit("::", 1)[-1]))
                elif x.kind == "agg":
                    v = x.site.node["rv"].get("variant")
                    out.add(("region", region_names[int(v)] if v is not None and int(v) < len(region_names) else str(v)))
                elif x.kind == "const":
                    m_ = re.search(r"Region::([A-Za-z]+)", str(x.info))
                    if m_:
                        out.add(("region", m_.group(1)))   # `Region::X as usize` is folded to `X's discriminant + 0`
                elif x.kind == "bin":
                    pass
                else:
                    out.add((x.kind, str(x.info)))
            return frozenset(out)
        def idx_sigs(want):
            sigs = []
            for a in b.assigns(lambda st: any(e.startswith("f:lens") for e in st["lhs"][1])):
                rv = a.node["rv"]
                op_ = rv["op"] if rv["k"] == "bin" else None
                if rv["k"] == "use":
                    pl = df.op_place(rv["op"])
                    for d in (b.assigns(lambda st, l=pl[0]: st["lhs"][0] == l and not st["lhs"][1] and st["rv"]["k"] == "bin") if pl else []):
                        op_ = d.node["rv"]["op"]
                if not op_ or not op_.startswith(want):
                    continue
                il = [int(e[3:]) for e in a.node["lhs"][1] if e.startswith("i:_")]
                sigs.append(sig({"cp": [il[0], []]}) if il else frozenset([("const-index", str(a.node["lhs"][1]))]))
            return sorted(sigs, key=sorted)
        us = sorted((sig(s_.node["args"][2]) for s_ in b.calls_to(r"LruList::<K>::unlink$")), key=sorted)
        ps = sorted((sig(s_.node["args"][2]) for s_ in b.calls_to(r"LruList::<K>::push_head$")), key=sorted)
        if us != idx_sigs("Sub") or ps != idx_sigs("Add"):
            ctx.fail(o, Site(b, 0, 0), "%s: the region whose length is decremented / incremented is not the region the node was unlinked from / pushed to "
                     "(unlink %s vs `-= 1` %s; push_head %s vs `+= 1` %s)" % (b.name, [sorted(x) for x in us], [sorted(x) for x in idx_sigs("Sub")],
                                                                                [sorted(x) for x in ps], [sorted(x) for x in idx_sigs("Add")]))
        # flow: `unlink` and `-= 1` need the region the node is LEAVING; if they read it through the key's tag, the read has to
        # happen before the tag is rewritten (assignment or mem::replace / swap)
        tag_locals = {l for l in range(len(b.locals)) if re.search(r"&(?:'\w+ )?mut .*lru::Region$", str(b.local_ty(l)))}
        def reborrows(l):
            out, work = {l}, [l]
            while work:
                x = work.pop()
                for a in b.assigns(lambda st, x=x: st["rv"]["k"] in ("ref", "use") and ((st["rv"].get("pl") or [None])[0] == x or op_local(st["rv"].get("op") or {}) == x)):
                    if a.node["lhs"][0] not in out and not a.node["lhs"][1] and "mut" in str(b.local_ty(a.node["lhs"][0])) and "Region" in str(b.local_ty(a.node["lhs"][0])):
                        out.add(a.node["lhs"][0])
                        work.append(a.node["lhs"][0])
            return out
        all_tag = set()
        for l in tag_locals:
            all_tag |= reborrows(l)
        writes = [a for a in b.assigns(lambda st: st["lhs"][0] in all_tag and st["lhs"][1][:1] == ["*"])]
        writes += [s_ for s_ in b.calls_to(r"core::mem::(replace|swap|take)$") if op_local(s_.node["args"][0]) in all_tag]
        def tag_reads(op_):
            """sites where the operand's value is loaded from `*tag`"""
            out, l = [], op_local(op_)
            for a in b.assigns(lambda st, l=l: st["lhs"][0] == l and not st["lhs"][1]):
                rv = a.node["rv"]
                pl = df.op_place(rv["op"]) if isinstance(rv.get("op"), dict) else (rv.get("pl") if isinstance(rv.get("pl"), list) else None)
                if pl is None:
                    continue
                if pl[0] in all_tag and pl[1][:1] == ["*"]:
                    out.append(a)
                elif not pl[1] and pl[0] != l:
                    out += tag_reads({"cp": [pl[0], []]})
            return out
        leaving = [s_.node["args"][2] for s_ in b.calls_to(r"LruList::<K>::unlink$")]
        for a in b.assigns(lambda st: any(e.startswith("f:lens") for e in st["lhs"][1])):
            rv = a.node["rv"]
            pl = df.op_place(rv["op"]) if rv["k"] == "use" else None
            isdec = rv["k"] == "bin" and rv["op"].startswith("Sub") or (pl is not None and any(
                d.node["rv"]["op"].startswith("Sub") for d in b.assigns(lambda st, l=pl[0]: st["lhs"][0] == l and not st["lhs"][1] and st["rv"]["k"] == "bin")))
            if isdec:
                leaving += [{"cp": [int(e[3:]), []]} for e in a.node["lhs"][1] if e.startswith("i:_")]
        for op_ in leaving:
            for r_ in tag_reads(op_):
                if any(b.site_dominates(w_, r_) for w_ in writes):
                    ctx.fail(o, r_, "%s reads the region a node is leaving from the key's tag AFTER the tag was rewritten: the node is unlinked from / the length is "
                             "taken off the region it is moving TO; the source region's length never drops and the policy admits entries beyond the capacity" % b.name)
        if un and ph:
            tags = b.assigns(lambda st: st["lhs"][1] and st["lhs"][1][0] == "*" and "Region" in str(b.local_ty(st["lhs"][0])))
            tags += [s_ for s_ in b.calls_to(r"core::mem::(replace|swap)$") if "Region" in str(s_.node["fn"].get("gargs", "")) or True]
            if len(tags) < min(un, ph):
                ctx.fail(o, Site(b, 0, 0), "%s moves a node between regions without rewriting the region tag of its key" % b.name)
    o.sites = n
    if n < 5:
        ctx.fail(o, "(program)", "expected >= 5 Lru methods that move nodes, found %d" % n)


def c16f(ctx):
    """The policy keeps four intrusive lists (window / probation / protected / pinned).  `peek_least_recent(R)` and
    `pop_least_recent(R)` answer None for an empty region; an `unwrap` of that answer is a stated belief "R is not empty
    here".  The belief is justified in the shape of the code only where the path to the unwrap has tested R's own length
    (`R_len()` feeds a dominating branch) or has already seen `Some` from a peek of the same region.  A belief resting on
    another region's state ("the key is in Pinned") is not: `on_removed` takes keys out of any region without looking at
    the others (D12: un-pinning after the owner removed the last probation key panics inside the cache)."""
    prog = ctx.prog
    o = ctx.ob("C16.f", "policy/region-head-unwrapped-only-under-its-own-length-test", "K4+K6",
               "every unwrap of Lru::peek_least_recent / pop_least_recent (R) in the policy is dominated by a branch on R's length or by the Some edge of an earlier peek of R")
    n = 0
    for b in prog.all_bodies(["qbice_storage"]):
        if not b.name.startswith("Policy::"):
            continue
        heads = b.calls_to(r"Lru::<K>::(peek|pop)_least_recent$")
        if not heads:
            continue
        ctx.touch(b)

        def region(site):
            for x in df.origins_of_operand(b, site.node["args"][1]):
                if x.kind == "agg" and x.site.node["rv"].get("adt", "").endswith("lru::Region"):
                    return x.site.node["rv"]["vname"]
            return None
        for u in b.calls_to(r"Option::<T>::(unwrap|expect)$"):
            src = [x.site for x in df.origins_of_operand(b, u.node["args"][0]) if x.kind == "call" and x.site in heads]
            if not src:
                continue
            n += 1
            h = src[0]
            r = region(h)
            if r is None:
                ctx.fail(o, u, "%s: the region of the unwrapped list head cannot be resolved" % b.name)
                continue
            ok = False
            for bb in b.live_blocks:
                t = b.blocks[bb]["term"]
                if t["k"] != "switch" or not b.bb_dominates(bb, u.bb) or bb == u.bb:
                    continue
                org = df.origins_of_operand(b, t["op"])
                # (a) a branch on R's own length
                if any(x.kind == "call" and re.search(r"Lru::<K>::%s_len$" % r.lower(), x.callee() or "") for x in org):
                    ok = True
                # (b) the Some edge of an earlier peek of the same region
                for x in org:
                    if x.kind == "call" and x.site in heads and x.site != h and region(x.site) == r:
                        some = [tb for v, tb in t["targets"] if v == "1"] or [t["otherwise"]]
                        if any(b.edge_dominates((bb, tb), u.bb) for tb in some if tb is not None):
                            ok = True
            # (c) an earlier unwrap of a head of the same region on every path here: the belief was already exercised (and is
            # reported there if unjustified)
            for u2 in b.calls_to(r"Option::<T>::(unwrap|expect)$"):
                if u2 != u and b.site_dominates(u2, u) and any(x.kind == "call" and x.site in heads and region(x.site) == r for x in df.origins_of_operand(b, u2.node["args"][0])):
                    ok = True
            if not ok:
                ctx.fail(o, u, "%s unwraps the least-recent key of the %s region without having tested that region's length on the way (the only thing established is the state of "
                         "another region): on_removed can empty %s behind the policy's back, and the unwrap then panics inside cache maintenance - in the caller's thread, or "
                         "killing the maintenance thread for good" % (b.name, r, r))
    o.sites = n
    if n < 3:
        ctx.fail(o, "(program)", "expected >= 3 unwrapped region heads in the policy (on_write x2, trim), found %d" % n)


def c16g(ctx):
    """With a dedicated maintenance thread, `maintenance_flag` says "a maintenance run has been requested and not finished".
    Eviction happens only in maintenance runs, so the bound on resident entries rests on the flag's protocol: it starts
    false; try_maintenance requests a run exactly by winning compare_exchange(false, true); the loop processes on every
    received signal and stores false afterwards.  A flag that starts true (or is never lowered) means no run is ever
    requested again: the cache grows without bound."""
    prog = ctx.prog
    o = ctx.ob("C16.g", "maintenance/flag-protocol", "K5+K2", "maintenance_flag starts false, is raised only by compare_exchange(false, true) in try_maintenance, and lowered after every run of the maintenance loop")
    n = 0
    # (1) initial value
    nb = ctx.touch(prog.body("TinyLFUInner::new"))
    ag = nb.aggregates(r"tiny_lfu::TinyLFUInner$")
    if len(ag) != 1:
        ctx.fail(o, Site(nb, 0, 0), "anchor missing: the TinyLFUInner aggregate in TinyLFUInner::new")
    else:
        rv = ag[0].node["rv"]
        i = rv["fields"].index("maintenance_flag")
        news = [s_ for s_ in nb.calls_to(r"atomic::Atomic::<bool>::new$")]
        n += len(news)
        vals = {(s_.node["args"][0].get("c") or {}).get("s") for s_ in news}
        if vals != {"false"}:
            ctx.fail(o, ag[0], "TinyLFUInner::new starts maintenance_flag at %s: with a dedicated maintenance thread no run is ever requested (the request is compare_exchange(false, true)), "
                     "nothing is ever evicted and the number of resident entries is unbounded" % sorted(vals))
    # (2) the request
    tm = ctx.touch(prog.body("TinyLFU::try_maintenance"))
    cx = tm.calls_to(r"atomic::Atomic::<bool>::compare_exchange$")
    snd = tm.calls_to(r"channel::Sender::<T>::try_send$|channel::Sender::<T>::send$")
    n += len(cx) + len(snd)
    if len(cx) != 1 or len(snd) != 1:
        ctx.fail(o, Site(tm, 0, 0), "anchor missing: compare_exchange / send in try_maintenance (%d / %d)" % (len(cx), len(snd)))
    else:
        a = [(x.get("c") or {}).get("s") for x in cx[0].node["args"][1:3]]
        if a != ["false", "true"]:
            ctx.fail(o, cx[0], "try_maintenance requests a run with compare_exchange(%s, %s) instead of (false, true)" % tuple(a))
        if not tm.site_dominates(cx[0], snd[0]):
            ctx.fail(o, snd[0], "the maintenance signal can be sent without having won the flag")
    # (3) the loop lowers the flag after processing, on every iteration that processed
    ml = [b for b in prog.find(r"^TinyLFU::maintenance_loop::\{closure#0\}$")]
    if len(ml) != 1:
        ctx.fail(o, "(program)", "anchor missing: the maintenance thread's closure")
    else:
        b = ctx.touch(ml[0])
        pr = b.calls_to(r"TinyLFUInner::<K, V, L>::process_policy_message$")
        st = [s_ for s_ in b.calls_to(r"atomic::Atomic::<bool>::store$") if (s_.node["args"][1].get("c") or {}).get("s") == "false"]
        rc = b.calls_to(r"channel::Receiver::<T>::recv$")
        n += len(pr) + len(st) + len(rc)
        if len(pr) != 1 or len(st) != 1 or len(rc) != 1:
            ctx.fail(o, Site(b, 0, 0), "anchor missing: recv / process_policy_message / store(false) in the maintenance loop (%d / %d / %d)" % (len(rc), len(pr), len(st)))
        else:
            if b.must_pass([pr[0].node["t"]], [st[0].bb], to_bbs=[rc[0].bb] + b.returns()):
                ctx.fail(o, pr[0], "the maintenance loop can go back to waiting (or exit) after a run without lowering maintenance_flag: no further run is ever requested")
            g = df.guarded_by(b, pr[0].bb, lambda c: c.kind == "call" and c.callee.endswith("PartialEq::eq"))
            pol = {((v != 0) != c.negated) for sb, v, tb, c in g if v != "otherwise"} | {(not c.negated) for sb, v, tb, c in g if v == "otherwise"}
            if pol != {True}:
                ctx.fail(o, pr[0], "the maintenance loop processes under recv() == Ok(()) being %s (must be exactly `true`): signals are swallowed and nothing is evicted" % (sorted(pol) or "untested"))
    o.sites = n


def c16h(ctx):
    """When the storage refuses to drop a key (its owner says it is pinned), the policy parks THAT key in the Pinned region -
    by moving the least-recent entry of the region the key was peeked from.  Moving the head of another region parks an
    unrelated, unpinned entry (stranded in Pinned: nobody will ever un-pin it) and leaves the pinned key where it was (the
    window then grows by one per occurrence): residency is no longer bounded by capacity + pinned + slack."""
    prog = ctx.prog
    o = ctx.ob("C16.h", "policy/the-refused-key-is-the-one-parked", "K4+K5",
               "every move_least_recent_of_to_new_region(R, Pinned) in the policy is guarded by the storage's refusal of the key peeked from the same region R")
    n = 0
    for b in prog.all_bodies(["qbice_storage"]):
        if not b.name.startswith("Policy::") or "closure" in b.name:
            continue

        def region_of(op):
            for x in df.origins_of_operand(b, op):
                if x.kind == "agg" and x.site.node["rv"].get("adt", "").endswith("lru::Region"):
                    return x.site.node["rv"]["vname"]
            return None
        for s_ in b.calls_to(r"Lru::<K>::move_least_recent_of_to_new_region$"):
            src, dst = region_of(s_.node["args"][1]), region_of(s_.node["args"][2])
            if dst != "Pinned":
                continue
            n += 1
            ctx.touch(b)
            g = df.guarded_by(b, s_.bb, lambda c: c.kind == "call" and c.callee.endswith("Fn::call"))
            refused = [c for sb, v, tb, c in g if (v != "otherwise" and ((v != 0) != c.negated) is False) or (v == "otherwise" and c.negated)]
            if not refused:
                ctx.fail(o, s_, "%s parks the head of %s in the Pinned region without the storage having refused to drop a key" % (b.name, src))
                continue
            c = refused[-1]                                   # the innermost refusal
            peeked = None
            for x in df.origins_of_operand(b, c.args[1]):
                if x.kind == "call" and (x.callee() or "").endswith("Lru::<K>::peek_least_recent"):
                    peeked = region_of(x.site.node["args"][1])
            if peeked is None and b.name == "Policy::unpin":
                continue                                      # unpin's refusals concern the un-pinned key itself (C16.b)
            if peeked != src:
                ctx.fail(o, s_, "%s: the storage refused to drop the key peeked from %s, but the entry parked in Pinned is the head of %s: an unrelated entry is stranded in the Pinned "
                         "region and the pinned key stays where it was - residency grows by one per occurrence" % (b.name, peeked, src))
    o.sites = n
    if n < 3:
        ctx.fail(o, "(program)", "expected >= 3 parkings into the Pinned region (on_write x2, unpin), found %d" % n)


def c16i(ctx):
    """D18.  Keys that lost their duel while pinned are parked in the Pinned region; with the polling strategy the trim loop of
    each maintenance round drops those that are no longer pinned.  A round parks up to a whole batch; if the loop stops at
    the first key that is STILL pinned it gets past one pin per round, and released entries pile up behind long-pinned
    ones (about one batch per pinned entry) - the slack is no longer fixed.  The loop goes on after a refusal, and it is
    bounded by a counter (every key is rotated to the head, so an unbounded loop over pinned keys would not end)."""
    prog = ctx.prog
    o = ctx.ob("C16.i", "policy/trim-loop-continues-past-a-pinned-key", "K2", "attempt_to_trim_overflowing_pinned re-polls the region after a refused removal, under a decreasing counter")
    b = ctx.touch(prog.body("Policy::attempt_to_trim_overflowing_pinned"))
    pk = b.calls_to(r"Lru::<K>::peek_least_recent$")
    sh = b.calls_to(r"Lru::<K>::shuffle_tail_to_head$")
    o.sites = len(pk) + len(sh)
    if len(pk) != 1 or len(sh) != 1:
        ctx.fail(o, Site(b, 0, 0), "anchor missing: peek_least_recent / shuffle_tail_to_head in the trim loop (%d / %d)" % (len(pk), len(sh)))
        return
    if pk[0].bb not in b.reachable([sh[0].node["t"]]):
        ctx.fail(o, sh[0], "the trim loop stops at the first parked key that is still pinned: released entries behind it are not dropped in this round, and a round parks more keys than it "
                 "gets past - residency grows with the number of long-pinned entries (not a fixed slack)")
        return
    dec = [st for blk in b.blocks if not blk["cleanup"] for st in blk["stmts"] if st["k"] == "assign" and st["rv"].get("k") == "bin" and st["rv"]["op"] in ("Sub", "SubWithOverflow")]
    rng = b.calls_to(r"iter::range::.*next$|Iterator::next$")
    if not dec and not rng:
        ctx.fail(o, sh[0], "the trim loop continues past pinned keys but nothing bounds it: with only pinned keys parked it rotates the region for ever")


def run(ctx):
    ctx.run_clause("C16.e", c16e)
    ctx.run_clause("C16.a", c16a)
    ctx.run_clause("C16.b", c16b)
    ctx.run_clause("C16.c", c16c)
    ctx.run_clause("C16.d", c16d)
    ctx.run_clause("C16.f", c16f)
    ctx.run_clause("C16.g", c16g)
    ctx.run_clause("C16.h", c16h)
    ctx.run_clause("C16.i", c16i)
    # the third owner of a TinyLFU table is the per-query lock table: its pin predicate must say `somebody references this
    # lock` (Arc::strong_count), not `somebody holds it` - between taking the instance and the first poll of the lock future
    # a task owns an unlocked lock, and evicting it then hands the next asker a second lock for the same query (C02.d as C16.j)
    from . import C02
    ctx.alias = {"C02.d": "C16.j"}
    ctx.run_clause("C16.j", C02.c02d)
    ctx.alias = {}

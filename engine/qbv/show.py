"""Developer tool: print the extracted MIR of a body in a compact form.
usage: python3 -m qbv.show <fact_dir> <name-regex> [--full]"""
import re
import sys

from .facts import Program, short


def pl(p):
    s = "_%d" % p[0]
    for e in p[1]:
        if e == "*":
            s = "(*%s)" % s
        elif e.startswith("f:"):
            s += "." + e[2:].split("#")[0]
        elif e.startswith("d:"):
            s += " as " + e[2:].split("#")[0]
        else:
            s += "[" + e + "]"
    return s


def op(o):
    if "cp" in o:
        return pl(o["cp"])
    if "mv" in o:
        return "move " + pl(o["mv"])
    c = o.get("c")
    if c is not None:
        if "fn" in c:
            return "fn " + short(c["fn"]["path"])
        return short(c.get("s", "?"))
    return str(o)


def rv(r):
    k = r["k"]
    if k == "use":
        return op(r["op"])
    if k == "ref":
        return ("&mut " if r["mut"] else "&") + pl(r["pl"])
    if k == "agg":
        if r["ak"] == "adt":
            return "%s::%s{%s}" % (short(r["adt"]), r["vname"], ", ".join(op(x) for x in r["ops"]))
        if r["ak"] in ("closure", "coroutine"):
            return "%s %s [%s]" % (r["ak"], short(r["def"]), ", ".join(op(x) for x in r["ops"]))
        return "%s(%s)" % (r["ak"], ", ".join(op(x) for x in r["ops"]))
    if k == "disc":
        return "discriminant(%s)" % pl(r["pl"])
    if k == "bin":
        return "%s(%s, %s)" % (r["op"], op(r["a"]), op(r["b"]))
    if k == "un":
        return "%s(%s)" % (r["op"], op(r["a"]))
    if k == "cast":
        return "%s as %s [%s]" % (op(r["op"]), short(r["ty"]), r["ck"])
    if k == "rawptr":
        return "&raw " + pl(r["pl"])
    return k


def show(b, full=False):
    print("=== %s  [%s] %s %s argc=%d" % (b.name, b.kind, b.key, b.span, b.argc))
    if full:
        for i, l in enumerate(b.locals):
            print("   let _%d: %s   own=%s" % (i, short(l["ty"]), [short(x) for x in l["own"]]))
    for name, p in b.rec["dbg"]:
        print("   dbg %s = %s" % (name, pl(p)))
    for bi, blk in enumerate(b.blocks):
        if blk["cleanup"] and not full:
            continue
        if bi not in b.live_blocks and not full:
            continue
        print(" bb%d%s:" % (bi, " (cleanup)" if blk["cleanup"] else ""))
        for st in blk["stmts"]:
            if st["k"] == "assign":
                print("    %s = %s   // L%s" % (pl(st["lhs"]), rv(st["rv"]), st["line"]))
            elif full:
                print("    %s _%s" % (st["k"], st.get("l", "")))
        t = blk["term"]
        k = t["k"]
        if k == "call":
            f = t["fn"]
            nm = short(f["path"]) if "path" in f else "(ptr %s)" % op(f["ptr"])
            extra = ""
            if f.get("res_path"):
                extra = " => " + short(f["res_path"])
            elif f.get("self_ty"):
                extra = " [Self=%s]" % short(f["self_ty"])
            print("    %s = %s(%s)%s -> bb%s   // L%s" % (pl(t["dest"]), nm, ", ".join(op(a) for a in t["args"]), extra, t["t"], t["line"]))
        elif k == "switch":
            print("    switch %s [%s] otherwise bb%s  // L%s" % (op(t["op"]), ", ".join("%s->bb%s" % (v, tb) for v, tb in t["targets"]), t["otherwise"], t["line"]))
        elif k == "drop":
            print("    drop(%s) -> bb%s  // L%s" % (pl(t["pl"]), t["t"], t["line"]))
        elif k == "yield":
            print("    %s = YIELD(%s) -> bb%s drop bb%s  // L%s" % (pl(t["resume_arg"]), op(t["val"]), t["t"], t["drop"], t["line"]))
        elif k == "ret":
            print("    return  // L%s" % t["line"])
        elif k in ("goto", "falseedge", "falseunwind"):
            print("    %s -> bb%s" % (k, t["t"]))
        elif k == "assert":
            print("    assert(%s == %s) -> bb%s" % (op(t["cond"]), t["expected"], t["t"]))
        else:
            print("    %s" % k)


def main():
    d, pat = sys.argv[1], sys.argv[2]
    full = "--full" in sys.argv
    prog = Program([d])
    rx = re.compile(pat)
    for b in prog.bodies.values():
        if rx.search(b.name):
            show(b, full)


if __name__ == "__main__":
    main()

"""E3 — wire-shape extraction (K9).

Turns the body of an `Encode::encode`, `Decode::decode` (or `StableHash::stable_hash`) impl into a
finite automaton over *wire events* and compares languages:

  ("p", kind)        a primitive written / read        (emit_u8 / read_u8 -> kind "u8", ...)
  ("=", value)       the value just written / read is this constant (tag bytes, variant indices)
  ("t", type)        a nested value of a type that stays symbolic (type parameter, projection)

Concrete nested types are expanded through the impl selected for them (by unification of the type
with the impl's self type), so `Decode for Arc<[T]>` is compared with `Encode for Arc<U>` at
`U = [T]`.  Error exits (`?`, `return Err`, panics) are pruned; loops are cycles (Kleene star)."""
import re
from collections import defaultdict

from . import dataflow as df
from .facts import Site, op_local, op_place, const_int, short, EngineError

ENC_TRAIT = "qbice_serialize::encode::Encode"
DEC_TRAIT = "qbice_serialize::decode::Decode"
ENCODER = "qbice_serialize::encode::Encoder"
DECODER = "qbice_serialize::decode::Decoder"


# ---------------------------------------------------------------------------- type strings

class Ty:
    """Parsed type: name + args, or special forms (tuple, ref, slice, array, proj)."""
    __slots__ = ("kind", "name", "args")

    def __init__(self, kind, name="", args=()):
        self.kind, self.name, self.args = kind, name, tuple(args)

    def __eq__(self, o):
        return isinstance(o, Ty) and (self.kind, self.name, self.args) == (o.kind, o.name, o.args)

    def __hash__(self):
        return hash((self.kind, self.name, self.args))

    def __repr__(self):
        if self.kind == "path":
            return self.name + ("<%s>" % ", ".join(map(repr, self.args)) if self.args else "")
        if self.kind == "tuple":
            return "(%s)" % ", ".join(map(repr, self.args))
        if self.kind == "ref":
            return "&%r" % (self.args[0],)
        if self.kind == "slice":
            return "[%r]" % (self.args[0],)
        if self.kind == "array":
            return "[%r; %s]" % (self.args[0], self.name)
        if self.kind == "proj":
            return "<%r as %r>::%s" % (self.args[0], self.args[1], self.name)
        return "%s:%s" % (self.kind, self.name)


def _split_top(s, sep=","):
    out, depth, cur = [], 0, ""
    i = 0
    while i < len(s):
        ch = s[i]
        if ch in "<([":
            depth += 1
        elif ch in ">)]":
            if ch == ">" and i > 0 and s[i - 1] == "-":
                pass
            else:
                depth -= 1
        if ch == sep and depth == 0:
            out.append(cur.strip())
            cur = ""
        else:
            cur += ch
        i += 1
    if cur.strip():
        out.append(cur.strip())
    return out


def parse_ty(s):
    s = s.strip()
    # strip lifetimes
    s = re.sub(r"'[a-z_][a-z0-9_]*\s*,\s*", "", s)
    s = re.sub(r"<'[a-z_][a-z0-9_]*>", "", s)
    s = re.sub(r"&'[a-z_][a-z0-9_]*\s+", "&", s)
    if s.startswith("&mut "):
        return Ty("ref", "", [parse_ty(s[5:])])
    if s.startswith("&"):
        return Ty("ref", "", [parse_ty(s[1:])])
    if s.startswith("(") and s.endswith(")"):
        inner = s[1:-1].strip()
        if inner.endswith(","):
            inner = inner[:-1]
        return Ty("tuple", "", [parse_ty(x) for x in _split_top(inner)] if inner else [])
    if s.startswith("[") and s.endswith("]"):
        inner = s[1:-1]
        parts = _split_top(inner, ";")
        if len(parts) == 2:
            return Ty("array", parts[1].strip(), [parse_ty(parts[0])])
        return Ty("slice", "", [parse_ty(inner)])
    if s.startswith("<"):
        # <X as Trait>::Name<args>
        depth = 0
        for i, ch in enumerate(s):
            if ch == "<":
                depth += 1
            elif ch == ">":
                depth -= 1
                if depth == 0:
                    break
        inner = s[1:i]
        rest = s[i + 1:]
        parts = inner.split(" as ")
        if len(parts) == 2 and rest.startswith("::"):
            nm = rest[2:]
            base = nm.split("<")[0]
            return Ty("proj", base, [parse_ty(parts[0]), parse_ty(parts[1])])
        return Ty("opaque", s)
    if s.startswith("dyn ") or s.startswith("impl "):
        return Ty("opaque", s)
    m = re.match(r"^([A-Za-z_0-9:{}#@\. /\-]+?)(<(.*)>)?$", s, re.S)
    if not m:
        return Ty("opaque", s)
    name = m.group(1).strip()
    args = [parse_ty(a) for a in _split_top(m.group(3))] if m.group(3) else []
    return Ty("path", name, args)


def unify(pat, ty, params, subst):
    """Match impl self-type pattern against concrete type; params = impl generic names."""
    if pat.kind == "path" and not pat.args and pat.name in params:
        if pat.name in subst:
            return subst[pat.name] == ty
        subst[pat.name] = ty
        return True
    if pat.kind != ty.kind or pat.name != ty.name or len(pat.args) != len(ty.args):
        # array length parameter
        if pat.kind == "array" and ty.kind == "array" and len(pat.args) == 1:
            return unify(pat.args[0], ty.args[0], params, subst)
        return False
    return all(unify(a, b, params, subst) for a, b in zip(pat.args, ty.args))


def subst_ty(ty, subst):
    if ty.kind == "path" and not ty.args and ty.name in subst:
        return subst[ty.name]
    return Ty(ty.kind, ty.name, [subst_ty(a, subst) for a in ty.args])


def ty_size(ty):
    return 1 + sum(ty_size(a) for a in ty.args)


def strip_refs(ty):
    while ty.kind == "ref":
        ty = ty.args[0]
    return ty


# ---------------------------------------------------------------------------- NFA

class NFA:
    def __init__(self):
        self.n = 0
        self.edges = []  # (src, label or None, dst)
        self.start = self.new()
        self.accept = set()

    def new(self):
        self.n += 1
        return self.n - 1

    def add(self, a, label, b):
        self.edges.append((a, label, b))

    def embed(self, other):
        """Copy `other` into self; returns (start, accepts) in self's numbering."""
        off = self.n
        self.n += other.n
        for a, l, b in other.edges:
            self.edges.append((a + off, l, b + off))
        return other.start + off, {x + off for x in other.accept}

    # -- determinisation / comparison
    def _closure(self, states, eps):
        seen = set(states)
        work = list(states)
        while work:
            s = work.pop()
            for t in eps.get(s, ()):
                if t not in seen:
                    seen.add(t)
                    work.append(t)
        return frozenset(seen)

    def dfa(self):
        eps = defaultdict(list)
        lab = defaultdict(lambda: defaultdict(set))
        for a, l, b in self.edges:
            if l is None:
                eps[a].append(b)
            else:
                lab[a][l].add(b)
        start = self._closure([self.start], eps)
        states = {start: 0}
        trans = {}
        acc = set()
        work = [start]
        while work:
            S = work.pop()
            i = states[S]
            if S & self.accept:
                acc.add(i)
            out = defaultdict(set)
            for s in S:
                for l, ts in lab.get(s, {}).items():
                    out[l] |= ts
            for l, ts in out.items():
                T = self._closure(ts, eps)
                if T not in states:
                    states[T] = len(states)
                    work.append(T)
                trans[(i, l)] = states[T]
        return trans, acc, len(states)


def language_diff(a, b, limit=6):
    """None if L(a) == L(b) (restricted to co-reachable behaviour), else a witness string with the side that accepts it."""
    ta, acca, na = a.dfa()
    tb, accb, nb = b.dfa()
    # dead-state analysis: states from which acceptance is reachable
    def live(trans, acc, n):
        rev = defaultdict(set)
        for (s, l), t in trans.items():
            rev[t].add(s)
        seen = set(acc)
        work = list(acc)
        while work:
            x = work.pop()
            for p in rev[x]:
                if p not in seen:
                    seen.add(p)
                    work.append(p)
        return seen
    la, lb = live(ta, acca, na), live(tb, accb, nb)
    seen = {(0, 0)}
    work = [((0, 0), [])]
    while work:
        (x, y), path = work.pop(0)
        ax = x is not None and x in acca
        by = y is not None and y in accb
        if ax != by:
            return ("encoder" if ax else "decoder", path)
        labels = set()
        if x is not None:
            labels |= {l for (s, l) in ta if s == x}
        if y is not None:
            labels |= {l for (s, l) in tb if s == y}
        for l in sorted(labels, key=repr):
            nx = ta.get((x, l)) if x is not None else None
            ny = tb.get((y, l)) if y is not None else None
            if nx is not None and nx not in la:
                nx = None
            if ny is not None and ny not in lb:
                ny = None
            if nx is None and ny is None:
                continue
            if nx is None or ny is None:
                # one side can continue to acceptance, the other cannot follow
                return ("encoder" if nx is not None else "decoder", path + [l, "..."])
            if (nx, ny) not in seen:
                seen.add((nx, ny))
                work.append(((nx, ny), path + [l]))
    return None


# ---------------------------------------------------------------------------- extraction

PRIM = re.compile(r"::(emit|read)_([a-z0-9_]+)$")
ERROR_CALLS = re.compile(r"core::ops::try_trait::FromResidual::from_residual$|std::io::Error::new$|std::io::error::Error::new$|core::panicking::|std::rt::begin_panic|core::result::unwrap_failed|core::option::expect_failed|core::option::unwrap_failed")


class Shapes:
    """Wire-shape extractor for one role ('enc' or 'dec') over a Program."""

    def __init__(self, prog, role, progs_extra=()):
        self.prog = prog
        self.role = role
        self.trait = ENC_TRAIT if role == "enc" else DEC_TRAIT
        self.method = "encode" if role == "enc" else "decode"
        self.coder = ENCODER if role == "enc" else DECODER
        self.impls = []
        seen = set()
        for p in (prog,) + tuple(progs_extra):
            for im in p.impls:
                if im.get("trait") != self.trait:
                    continue
                if (im["crate"], im["key"]) in seen:
                    continue
                seen.add((im["crate"], im["key"]))
                meth = [k for nm, k, kd in im["items"] if nm == self.method]
                if not meth or meth[0] not in p.bodies:
                    continue
                self.impls.append({
                    "rec": im, "body": p.bodies[meth[0]], "self": parse_ty(im["self_ty"]),
                    "params": [g[0] for g in im["generics"] if g[1] in ("ty", "const")],
                    "prog": p,
                })
        self._cache = {}

    # -------------------------------------------------------- impl selection
    def select(self, ty):
        """Impl whose self type unifies with ty -> (impl, subst) (most specific = fewest bindings)."""
        best = None
        for im in self.impls:
            s = {}
            if unify(im["self"], ty, set(im["params"]), s):
                # most specific pattern = the one whose parameters bind the smallest types
                score = sum(ty_size(v) for v in s.values())
                if best is None or score < best[2]:
                    best = (im, s, score)
        return (best[0], best[1]) if best else (None, None)

    def is_symbolic(self, ty, params):
        ty = strip_refs(ty)
        if ty.kind == "path" and not ty.args and (ty.name in params or ty.name == "Self"):
            return True
        if ty.kind in ("proj", "opaque"):
            return True
        return False

    # -------------------------------------------------------- body -> raw NFA (events unexpanded)
    def body_nfa(self, body):
        key = body.key
        if key in self._cache:
            return self._cache[key]
        b = body
        nfa = NFA()
        # error blocks
        bad = set()
        for bi in b.live_blocks:
            blk = b.blocks[bi]
            t = blk["term"]
            if blk["cleanup"]:
                bad.add(bi)
            if t["k"] == "call" and "path" in t["fn"] and ERROR_CALLS.search(t["fn"]["path"]):
                bad.add(bi)
            if t["k"] == "call" and t["t"] is None:
                bad.add(bi)
            if t["k"] == "assert":
                pass
            for st in blk["stmts"]:
                if st["k"] == "assign" and st["lhs"] == [0, []] and st["rv"]["k"] == "agg" and st["rv"].get("adt") == "core::result::Result" and st["rv"]["vname"] == "Err":
                    bad.add(bi)
        # a block is dead if every path from it to return passes a bad block
        good_ret = b.reachable([0], removed_nodes=bad)
        ok_blocks = set()
        rets = [r for r in b.returns() if r in good_ret]
        # backward reachability from good returns avoiding bad blocks
        rev = defaultdict(list)
        for i in good_ret:
            for s_ in b.succ[i]:
                if s_ in good_ret:
                    rev[s_].append(i)
        work = list(rets)
        ok_blocks = set(rets)
        while work:
            x = work.pop()
            for p in rev[x]:
                if p not in ok_blocks:
                    ok_blocks.add(p)
                    work.append(p)
        st_in = {bi: nfa.new() for bi in ok_blocks}
        if 0 not in ok_blocks:
            # everything fails: empty language
            self._cache[key] = nfa
            return nfa
        nfa.add(nfa.start, None, st_in[0])
        for bi in ok_blocks:
            blk = b.blocks[bi]
            t = blk["term"]
            cur = st_in[bi]
            labels = []
            if t["k"] == "call" and "path" in t["fn"]:
                labels = self._call_labels(b, bi, t)
            for l in labels:
                nx = nfa.new()
                nfa.add(cur, l, nx)
                cur = nx
            if t["k"] == "ret":
                nfa.accept.add(cur)
                continue
            if t["k"] == "switch":
                vals = self._switch_refinement(b, bi, t)
                for v, tb in df.switch_edges(b, bi):
                    if tb not in ok_blocks:
                        continue
                    if vals is not None:
                        lab = vals(v)
                        if lab is None:
                            nfa.add(cur, None, st_in[tb])
                        else:
                            mid = nfa.new()
                            nfa.add(cur, lab, mid)
                            nfa.add(mid, None, st_in[tb])
                    else:
                        nfa.add(cur, None, st_in[tb])
                continue
            for s_ in b.succ[bi]:
                if s_ in ok_blocks:
                    nfa.add(cur, None, st_in[s_])
        self._cache[key] = nfa
        return nfa

    def _coder_arg(self, b, t):
        """Does any argument of this call derive from the encoder/decoder parameter?"""
        idx = 2 if self.role == "enc" else 1
        for a in t["args"]:
            if op_place(a) is None:
                continue
            for o in df.origins_of_operand(b, a):
                if o.kind == "param" and str(o.info).startswith("_%d" % idx):
                    return True
        return False

    def _call_labels(self, b, bi, t):
        fn = t["fn"]
        path = fn["path"]
        m = PRIM.search(path)
        if m and fn.get("trait") == self.coder:
            kind = m.group(2)
            labs = [("p", kind)]
            if self.role == "enc" and len(t["args"]) >= 2:
                c = t["args"][1].get("c")
                if c is not None and ("v" in c or c.get("s") in ("true", "false")):
                    v = int(c["v"]) if "v" in c else (1 if c.get("s") == "true" else 0)
                    labs.append(("=", v))
                else:
                    # a value computed from a constant through From/into (u8::from(true)) etc.
                    os_ = df.origins_of_operand(b, t["args"][1])
                    consts = [o for o in os_ if o.kind == "const"]
                    if len(os_) == 1 and consts and re.match(r"^-?\d+", str(consts[0].info)):
                        labs.append(("=", int(re.match(r"^-?\d+", str(consts[0].info)).group(0))))
            return labs
        if path == self.trait + "::" + self.method:
            ty = fn.get("self_ty") or (fn["gargs"][0] if fn.get("gargs") else "?")
            return [("T", ty)]
        if path == self.coder + "::" + self.method:
            # Encoder::encode / Decoder::decode convenience entry: nested value with its own session
            ty = fn["gargs"][1] if len(fn.get("gargs", [])) > 1 else "?"
            return [("T", ty)]
        # a workspace helper that is handed the encoder/decoder: inline it
        key = fn.get("res_key") or fn.get("key")
        callee = self.prog.bodies.get(key)
        if callee is not None and callee is not b and self._coder_arg(b, t):
            return [("CALL", key)]
        return []

    def _switch_refinement(self, b, bi, t):
        """If this switch tests a value just read (dec) -> function value->label ('=', v)."""
        if self.role != "dec":
            return None
        if df.switch_cond(b, bi).kind == "disc":
            # a test of the Result/ControlFlow/Option wrapper, not of the value read
            return None
        os_ = df.origins_of_operand(b, t["op"])
        reads = [o for o in os_ if o.kind == "call" and PRIM.search(o.callee() or "") and (o.site.node["fn"].get("trait") == self.coder)]
        if len(reads) != 1 or any(o.kind == "call" and o not in reads for o in os_):
            return None
        explicit = [int(v) for v, _ in t["targets"]]
        is_bool = t.get("ty") == "bool"

        def lab(v):
            if v == "otherwise":
                if is_bool and explicit == [0]:
                    return ("=", 1)
                if is_bool and explicit == [1]:
                    return ("=", 0)
                return ("=", "other")
            return ("=", int(v))
        return lab

    # -------------------------------------------------------- expansion
    def lang_of_impl(self, im, subst=None, depth=0, stack=()):
        """Fully expanded NFA of an impl under a substitution of its generic parameters."""
        return self._expand(im["body"], im, subst or {}, depth, stack)

    def _expand(self, body, im, subst, depth, stack):
        raw = self.body_nfa(body)
        out = NFA()
        s0, acc = out.embed(raw)
        out.add(out.start, None, s0)
        out.accept = set(acc)
        params = set(im["params"]) if im else set()
        new_edges = []
        base_len = len(out.edges)
        for (a, l, bb_) in list(out.edges):
            if l is None or l[0] in ("p", "="):
                new_edges.append((a, l, bb_))
                continue
            if l[0] == "CALL":
                callee = self.prog.bodies.get(l[1])
                if callee is None or depth > 6 or l[1] in stack:
                    new_edges.append((a, ("t", "call:" + l[1]), bb_))
                    continue
                sub = self._expand(callee, im, subst, depth + 1, stack + (l[1],))
                s, acc2 = out.embed(sub)
                new_edges.append((a, None, s))
                for x in acc2:
                    new_edges.append((x, None, bb_))
                continue
            ty = strip_refs(subst_ty(parse_ty(l[1]), subst))
            if self.is_symbolic(ty, params - set(subst)):
                new_edges.append((a, ("t", repr(canon(ty))), bb_))
                continue
            im2, s2 = self.select(ty)
            if im2 is None or depth > 6 or repr(ty) in stack:
                new_edges.append((a, ("t", repr(canon(ty))), bb_))
                continue
            sub = self._expand_impl_at(im2, s2, depth + 1, stack + (repr(ty),), outer_params=params - set(subst))
            s, acc2 = out.embed(sub)
            new_edges.append((a, None, s))
            for x in acc2:
                new_edges.append((x, None, bb_))
        out.edges = new_edges + out.edges[base_len:]
        return out

    def _expand_impl_at(self, im, subst, depth, stack, outer_params):
        # parameters of the selected impl that were bound to outer symbolic types stay symbolic under their outer names
        sub = self._expand(im["body"], im, subst, depth, stack)
        return sub


def canon(ty):
    """Canonical symbolic type: strip references; Owned projections map to their base."""
    ty = strip_refs(ty)
    if ty.kind == "proj" and ty.name == "Owned":
        return canon(ty.args[0])
    return Ty(ty.kind, ty.name, [canon(a) for a in ty.args])


def rename_params(nfa, mapping):
    out = NFA()
    out.n = nfa.n
    out.start = nfa.start
    out.accept = set(nfa.accept)
    for a, l, b in nfa.edges:
        if l is not None and l[0] == "t":
            ty = subst_ty(parse_ty(l[1]), {k: parse_ty(v) for k, v in mapping.items()})
            l = ("t", repr(canon(ty)))
        out.edges.append((a, l, b))
    return out


def fmt_path(path):
    out = []
    for l in path:
        if l == "...":
            out.append("...")
        elif l[0] == "p":
            out.append(l[1])
        elif l[0] == "=":
            out[-1:] = [(out[-1] if out else "?") + "=" + str(l[1])]
        else:
            out.append("<%s>" % short(l[1]))
    return " · ".join(out) if out else "(empty)"

"""E4 — compile-time witness crate for C14.c.

A throw-away crate that path-depends on /repo's `qbice_stable_type_id` and consists of `const _: () = assert!(..)`
items only.  `cargo check` makes rustc's const evaluator compute the repository's own `const fn`s
(`from_unique_type_name`, `combine`, every `STABLE_TYPE_ID` of a constructor-closed type universe); a violated
assertion is a *compile error* naming the type or the byte position.  Nothing of the engine is run: the witness is
never linked or executed, it only has to type-check.  This is the "make the violating program fail to build" member of
the static family, used where the property is about the arithmetic of const fns, which no shape rule can see.
"""
import hashlib
import json
import os
import re
import shutil
import subprocess

from . import extract
from .facts import EngineError

BASES = ["u8", "u16", "u32", "u64", "u128", "usize", "i8", "i16", "i32", "i64", "i128", "isize", "bool", "char", "f32", "f64",
         "()", "String", "std::path::PathBuf", "std::time::Duration", "std::ffi::OsString", "std::cmp::Ordering", "std::ops::RangeFull",
         "std::net::IpAddr", "std::net::Ipv4Addr", "std::ffi::CString", "std::time::SystemTime", "std::convert::Infallible"]
UNSIZED = ["str", "[u8]", "std::path::Path", "std::ffi::OsStr", "[u16]"]
# (format, key of the impl's self type as it appears in the extracted impl table)
UNARY_CORE = [("Option<{}>", "core::option::Option<"), ("Vec<{}>", "alloc::vec::Vec<"), ("Box<{}>", "alloc::boxed::Box<"),
              ("std::sync::Arc<{}>", "alloc::sync::Arc<"), ("std::rc::Rc<{}>", "alloc::rc::Rc<"), ("({},)", "("),
              ("[{}; 1]", "["), ("[{}; 2]", "["), ("&'static {}", "&"), ("*const {}", "*const"),
              ("std::collections::BTreeSet<{}>", "alloc::collections::btree::set::BTreeSet<"), ("std::cell::RefCell<{}>", "core::cell::RefCell<")]
UNARY_MORE = [("std::sync::Weak<{}>", "alloc::sync::Weak<"), ("std::rc::Weak<{}>", "alloc::rc::Weak<"), ("std::cell::Cell<{}>", "core::cell::Cell<"),
              ("std::cell::UnsafeCell<{}>", "core::cell::UnsafeCell<"), ("std::cell::OnceCell<{}>", "core::cell::once::OnceCell<"),
              ("std::sync::Mutex<{}>", "std::sync::"), ("std::sync::RwLock<{}>", "std::sync::"), ("std::sync::OnceLock<{}>", "std::sync::"),
              ("std::marker::PhantomData<{}>", "core::marker::PhantomData<"), ("std::mem::ManuallyDrop<{}>", "core::mem::manually_drop::ManuallyDrop<"),
              ("std::mem::MaybeUninit<{}>", "core::mem::maybe_uninit::MaybeUninit<"), ("std::ptr::NonNull<{}>", "core::ptr::non_null::NonNull<"),
              ("&'static mut {}", "&mut"), ("*mut {}", "*mut"), ("std::num::Wrapping<{}>", "core::num::wrapping::Wrapping<"),
              ("std::num::Saturating<{}>", "core::num::saturating::Saturating<"), ("std::ops::Range<{}>", "core::ops::range::Range<"),
              ("std::ops::RangeFrom<{}>", "core::ops::range::RangeFrom<"), ("std::ops::RangeInclusive<{}>", "core::ops::range::RangeInclusive<"),
              ("std::ops::RangeTo<{}>", "core::ops::range::RangeTo<"), ("std::ops::RangeToInclusive<{}>", "core::ops::range::RangeToInclusive<"),
              ("std::ops::Bound<{}>", "core::ops::range::Bound<"), ("std::collections::VecDeque<{}>", "alloc::collections::vec_deque::VecDeque<"),
              ("std::collections::LinkedList<{}>", "alloc::collections::linked_list::LinkedList<"),
              ("std::collections::BinaryHeap<{}>", "alloc::collections::binary_heap::BinaryHeap<"), ("[{}; 0]", "["), ("[{}; 3]", "["),
              ("Box<[{}]>", "["), ("std::sync::atomic::AtomicPtr<{}>", "core::sync::atomic::AtomicPtr<"), ("std::pin::Pin<Box<{}>>", "core::pin::Pin<")]
BINARY = [("Result<{}, {}>", "core::result::Result<"), ("({}, {})", "("), ("std::collections::BTreeMap<{}, {}>", "alloc::collections::btree::map::BTreeMap<"),
          ("std::collections::HashMap<{}, {}>", "std::collections::hash::map::HashMap<")]
UNSIZED_PTR = ["Box<{}>", "std::sync::Arc<{}>", "std::rc::Rc<{}>", "&'static {}", "*const {}", "std::borrow::Cow<'static, {}>"]


def universe(impl_self_types, full=True):
    """The type expressions of the witness universe, restricted to constructors that still have an Identifiable impl."""
    def has(fmt):
        # the constructor named by the format must still have an Identifiable impl (matched on the last path segment,
        # std's internal module paths move between releases)
        m = re.match(r"(?:[a-z_]+::)*([A-Z][A-Za-z]*)<", fmt)
        if m:
            return any(re.search(r"(^|::)%s<" % m.group(1), k) for k in impl_self_types)
        if fmt.startswith("&'static mut"):
            return "&mut T" in impl_self_types
        if fmt.startswith("&"):
            return "&T" in impl_self_types
        if fmt.startswith("*const"):
            return "*const T" in impl_self_types
        if fmt.startswith("*mut"):
            return "*mut T" in impl_self_types
        if fmt.startswith("["):
            return "[T; N]" in impl_self_types
        if fmt.startswith("("):
            return "(A,)" in impl_self_types and "(A, B)" in impl_self_types
        return False
    core = [f for f, k in UNARY_CORE if has(f)]
    more = [f for f, k in UNARY_MORE if has(f) and (not f.startswith("Box<[") or "[T]" in impl_self_types)
            and (not f.startswith("std::pin::Pin") or any(k.endswith("Box<T>") for k in impl_self_types))]
    binary = [f for f, k in BINARY if has(f)]
    tys = list(BASES)
    l1 = [f.format(b) for f in core for b in BASES]
    tys += l1
    tys += [f.format(b) for f in more for b in BASES]
    if full:
        tys += [f.format(t) for f in core for t in l1]                               # all nestings of two core constructors
    else:
        tys += [f.format(t) for f in core for t in l1 if any(t == g.format(b) for g in core for b in ("u8", "String"))]
    b12 = BASES[:12] if full else BASES[:12:3]
    tys += [f.format(a, b) for f in binary for a in b12 for b in b12]                # argument order: (a, b) and (b, a) both present
    b6 = ["u8", "u32", "bool", "String", "()", "f64"]
    tys += ["(%s, %s, %s)" % (a, b, c) for a in b6 for b in b6 for c in b6]
    b4 = ["u8", "bool", "String", "()"]
    tys += ["(%s, (%s, %s))" % (a, b, c) for a in b4 for b in b4 for c in b4]        # nesting vs flat tuples
    tys += ["((%s, %s), %s)" % (a, b, c) for a in b4 for b in b4 for c in b4]
    tys += ["(%s, %s, %s, %s)" % (a, b, c, d) for a in b4[:3] for b in b4[:3] for c in b4[:3] for d in b4[:3]]
    uptr = [f for f in UNSIZED_PTR if has(f)]
    tys += [f.format(u) for f in uptr for u in UNSIZED]
    tys += ["Option<%s>" % f.format(u) for f in uptr[:4] for u in UNSIZED]
    tys += [f.format("Result<%s, %s>" % (a, b)) for f in core[:6] for a in b6 for b in b6]
    # types whose id is produced by the *derive macro* (fixtures defined in the witness crate itself, see source())
    tys += ["fx::D0", "fx::inner::D0", "fx::Renamed"]
    tys += ["fx::D1<%s>" % a for a in b6] + ["fx::inner::D1<%s>" % a for a in b6]
    tys += ["fx::%s<%s, %s>" % (n, a, b) for n in ("D2", "E2", "inner::D2") for a in b4 for b in b4]
    tys += ["fx::D3<%s, %s, %s>" % (a, b, c) for a in b4[:3] for b in b4[:3] for c in b4[:3]]
    tys += ["fx::D1<fx::D1<u8>>", "fx::D1<fx::D2<u8, bool>>", "fx::D2<fx::D1<u8>, bool>", "fx::D2<u8, fx::D1<bool>>", "Vec<fx::D1<u8>>", "fx::D1<Vec<u8>>",
            "Option<fx::D0>", "fx::D1<Option<u8>>", "(fx::D0, fx::inner::D0)", "(fx::inner::D0, fx::D0)"]
    seen, out = set(), []
    for t in tys:
        if t not in seen:
            seen.add(t)
            out.append(t)
    return out


def source(tys):
    lines = []
    w = lines.append
    w("//! generated by /verif/engine/qbv/witness.py — compile-time witness for C14.c; never executed")
    w("#![allow(long_running_const_eval, clippy::all, dead_code, unused)]")
    w("use qbice_stable_type_id::{Identifiable, StableTypeID};")
    w("const fn id(name: &'static str) -> u128 { StableTypeID::from_unique_type_name(name).as_u128() }")
    w("""/// fixture types whose ids come from #[derive(Identifiable)]: same names in two modules, one / two / three parameters
pub mod fx {
    use core::marker::PhantomData;
    use qbice_stable_type_id::Identifiable;
    #[derive(Identifiable)] #[stable_type_id_crate(::qbice_stable_type_id)] pub struct D0;
    #[derive(Identifiable)] #[stable_type_id_crate(::qbice_stable_type_id)] pub struct Renamed;
    #[derive(Identifiable)] #[stable_type_id_crate(::qbice_stable_type_id)] pub struct D1<A>(pub PhantomData<A>);
    #[derive(Identifiable)] #[stable_type_id_crate(::qbice_stable_type_id)] pub struct D2<A, B>(pub PhantomData<(A, B)>);
    #[derive(Identifiable)] #[stable_type_id_crate(::qbice_stable_type_id)] pub enum E2<A, B> { L(PhantomData<A>), R(PhantomData<B>) }
    #[derive(Identifiable)] #[stable_type_id_crate(::qbice_stable_type_id)] pub struct D3<A, B, C>(pub PhantomData<(A, B, C)>);
    pub mod inner {
        use core::marker::PhantomData;
        use qbice_stable_type_id::Identifiable;
        #[derive(Identifiable)] #[stable_type_id_crate(::qbice_stable_type_id)] pub struct D0;
        #[derive(Identifiable)] #[stable_type_id_crate(::qbice_stable_type_id)] pub struct D1<A>(pub PhantomData<A>);
        #[derive(Identifiable)] #[stable_type_id_crate(::qbice_stable_type_id)] pub struct D2<A, B>(pub PhantomData<(A, B)>);
    }
}""")
    w("const N: usize = %d;" % len(tys))
    w("const RAW: [u128; N] = [")
    for t in tys:
        w("    <%s as Identifiable>::STABLE_TYPE_ID.as_u128()," % t)
    w("];")
    w("""const fn sorted(mut a: [u128; N]) -> [u128; N] {
    // heap sort
    let mut start = N / 2;
    while start > 0 { start -= 1; a = sift(a, start, N); }
    let mut end = N;
    while end > 1 { end -= 1; let t = a[0]; a[0] = a[end]; a[end] = t; a = sift(a, 0, end); }
    a
}
const fn sift(mut a: [u128; N], mut root: usize, end: usize) -> [u128; N] {
    loop {
        let mut child = 2 * root + 1;
        if child >= end { break; }
        if child + 1 < end && a[child] < a[child + 1] { child += 1; }
        if a[root] >= a[child] { break; }
        let t = a[root]; a[root] = a[child]; a[child] = t;
        root = child;
    }
    a
}
const SORTED: [u128; N] = sorted(RAW);
/// number of universe members with this id (binary search in SORTED)
const fn count(x: u128) -> usize {
    let (mut lo, mut hi) = (0usize, N);
    while lo < hi { let mid = (lo + hi) / 2; if SORTED[mid] < x { lo = mid + 1; } else { hi = mid; } }
    let mut n = 0;
    while lo + n < N && SORTED[lo + n] == x { n += 1; }
    n
}""")
    for i, t in enumerate(tys):
        w('const _: () = assert!(count(RAW[%d]) == 1, "QBV-WITNESS universe-distinct|%s");' % (i, t.replace('"', "'")))
    # every byte of a name, and its length, reach the id
    alphabet = "abcdefghijklmnopqrstuvwxyz0123456789:_<>,@. "
    for ln in range(1, 42):
        name = "".join(alphabet[(7 * i + ln) % len(alphabet)] for i in range(ln))
        for pos in range(ln):
            other = name[:pos] + ("#" if name[pos] != "#" else "$") + name[pos + 1:]
            w('const _: () = assert!(id("%s") != id("%s"), "QBV-WITNESS name-byte|byte %d of a %d-byte name");' % (name, other, pos, ln))
        w('const _: () = assert!(id("%s") != id("%s\\0"), "QBV-WITNESS name-length|%d-byte name vs the same name followed by a NUL");' % (name, name, ln))
        w('const _: () = assert!(id("%s") != id("%s"), "QBV-WITNESS name-length|%d-byte name vs its %d-byte prefix");' % (name + "x", name, ln + 1, ln))
    # combine is neither symmetric nor absorbing on the base ids
    for a, b in (("u8", "u16"), ("String", "bool"), ("()", "u8"), ("f32", "f64")):
        w('const _: () = assert!(<%s as Identifiable>::STABLE_TYPE_ID.combine(<%s as Identifiable>::STABLE_TYPE_ID).as_u128() != '
          '<%s as Identifiable>::STABLE_TYPE_ID.combine(<%s as Identifiable>::STABLE_TYPE_ID).as_u128(), "QBV-WITNESS combine-order|combine(%s, %s) == combine(%s, %s)");'
          % (a, b, b, a, a, b, b, a))
        w('const _: () = assert!(<%s as Identifiable>::STABLE_TYPE_ID.combine(<%s as Identifiable>::STABLE_TYPE_ID).as_u128() != '
          '<%s as Identifiable>::STABLE_TYPE_ID.as_u128(), "QBV-WITNESS combine-absorbs|combine(%s, %s) == id(%s)");' % (a, b, a, a, b, a))
    return "\n".join(lines) + "\n"


def _build_and_check(kind, dep_lines, src, rustflags=None):
    """Writes the witness crate `kind` for the current tree, type-checks it and returns the failed assertions
    [(kind, what)] parsed from rustc's diagnostics."""
    root = extract.repo_root()
    tag = hashlib.sha256(root.encode()).hexdigest()[:8]
    d = os.path.join(extract.CACHE, "witness-%s-%s" % (tag, kind))
    os.makedirs(os.path.join(d, "src"), exist_ok=True)

    def put(path, text):
        # leave an identical file alone: cargo's freshness check then makes a warm, passing run cheap
        if not os.path.exists(path) or open(path).read() != text:
            with open(path, "w") as fh:
                fh.write(text)
    put(os.path.join(d, "src", "lib.rs"), src)
    put(os.path.join(d, "Cargo.toml"), '[package]\nname = "qbv_witness_%s"\nversion = "0.0.0"\nedition = "2024"\n\n[workspace]\n\n[dependencies]\n%s' % (
        kind.replace("-", "_"), "".join(l % root + "\n" for l in dep_lines)))
    if not os.path.exists(os.path.join(d, "Cargo.lock")):
        shutil.copy(os.path.join(root, "Cargo.lock"), os.path.join(d, "Cargo.lock"))
    target = os.path.join(extract.CACHE, "target-witness-%s-%s" % (tag, "flags" if rustflags else "plain"))
    # cargo trusts mtimes; a tree restored with its old mtimes (rsync -a, cp -p) would be taken for fresh.  Key the
    # freshness on the content hash of the tree instead: on any change forget the workspace crates' fingerprints.
    h = extract.tree_hash(root) + hashlib.sha256(src.encode()).hexdigest()
    stamp = os.path.join(d, "TREE_HASH")
    if not os.path.exists(stamp) or open(stamp).read() != h:
        import glob
        for f in glob.glob(os.path.join(target, "debug", ".fingerprint", "qb*")):
            shutil.rmtree(f, ignore_errors=True)
        if os.path.exists(stamp):
            os.remove(stamp)
    env = dict(os.environ, CARGO_NET_OFFLINE="true", CARGO_TARGET_DIR=target, CARGO_INCREMENTAL="0")
    for k in ("RUSTFLAGS", "RUSTC_WRAPPER", "RUSTC_WORKSPACE_WRAPPER"):
        env.pop(k, None)
    if rustflags:
        env["RUSTFLAGS"] = rustflags
    # rustc's const evaluator has no step limit once long_running_const_eval is allowed (the universe needs that): a change
    # that makes one of the crate's const fns loop forever must end the check, not hang it.  Cold builds take 25-100 s.
    limit = int(os.environ.get("QBV_WITNESS_TIMEOUT", "1500"))
    pr = subprocess.Popen(["cargo", "+nightly", "check", "--offline", "--message-format=json", "-q"], cwd=d, env=env,
                          stdout=subprocess.PIPE, stderr=subprocess.PIPE, text=True, start_new_session=True)
    try:
        out, err = pr.communicate(timeout=limit)
    except subprocess.TimeoutExpired:
        import signal
        os.killpg(pr.pid, signal.SIGKILL)
        pr.communicate()
        return [("nontermination", "rustc did not finish const-evaluating the %s witness within %d s: a const fn of the crate under test no longer terminates "
                 "(or became super-linearly slow) on the witness inputs" % (kind, limit))]

    class _R:
        pass
    r = _R()
    r.stdout, r.stderr, r.returncode = out, err, pr.returncode
    failures, other = [], []
    for line in r.stdout.splitlines():
        try:
            m = json.loads(line)
        except ValueError:
            continue
        if m.get("reason") != "compiler-message":
            continue
        msg = m["message"]
        if msg.get("level") != "error":
            continue
        text = msg.get("rendered") or msg.get("message", "")
        hit = re.search(r"QBV-WITNESS ([a-z0-9-]+)\|([^\n\"]*)", text)
        if hit:
            failures.append((hit.group(1), hit.group(2).strip()))
        elif "aborting due to" not in msg.get("message", "") and "could not compile" not in msg.get("message", ""):
            other.append((m.get("target", {}).get("name", "?"), msg.get("message", "")[:300]))
    if r.returncode != 0 and not failures:
        raise EngineError("the %s witness crate does not type-check for a reason other than a failed assertion:\n%s\n%s" % (
            kind, "\n".join("%s: %s" % o for o in other[:5]), r.stderr[-3000:]))
    if r.returncode == 0:
        with open(stamp, "w") as fh:
            fh.write(h)
    return sorted(set(failures))


def run(impl_self_types, full=True):
    """C14.f: (n_types, n_assertions, failures)."""
    tys = universe(impl_self_types, full)
    src = source(tys)
    failures = _build_and_check("ids-full" if full else "ids-quick", ['qbice_stable_type_id = { path = "%s/crates/stable_type_id" }'], src)
    return len(tys), src.count("const _: () = assert!"), failures


# ---------------------------------------------------------------------------------------------------------------
# C12.g: the private const fns of the wire primitives (LEB128 varints, zig-zag), reached through the cfg(qbice_verif)
# hook `qbice_serialize::postcard::verif_hooks`

def varint_source():
    w = []
    a = w.append
    a("//! generated by /verif/engine/qbv/witness.py — compile-time witness for C12.g; never executed")
    a("#![allow(long_running_const_eval, clippy::all, dead_code, unused)]")
    a("use qbice_serialize::postcard::verif_hooks as h;")
    for bits, cap in ((16, "MAX_VARINT_U16_BYTES"), (32, "MAX_VARINT_U32_BYTES"), (64, "MAX_VARINT_U64_BYTES"), (128, "MAX_VARINT_U128_BYTES")):
        a("""/// encode_varint_u{b}(v) is the LEB128 form of v: minimal length, continuation bit on all but the last byte, and the
/// 7-bit groups, least significant first, reassemble v
const fn leb_u{b}(v: u{b}) -> bool {{
    let mut buf = [0u8; h::{cap}];
    let n = h::encode_varint_u{b}(v, &mut buf);
    let mut want = 1; let mut t = v; while t >= 0x80 {{ t >>= 7; want += 1; }}
    if n != want || n > h::{cap} {{ return false; }}
    let mut acc: u{b} = 0; let mut i = 0;
    while i < n {{
        let byte = buf[i];
        if ((byte & 0x80) != 0) != (i + 1 < n) {{ return false; }}
        acc |= ((byte & 0x7f) as u{b}) << (7 * i);
        i += 1;
    }}
    acc == v
}}
/// zig-zag maps 0, -1, 1, -2, 2 ... to 0, 1, 2, 3, 4 ... and decode inverts it
const fn zz_i{b}(x: i{b}) -> bool {{
    let e = h::zigzag_encode_i{b}(x);
    let spec: u{b} = if x >= 0 {{ (x as u{b}) << 1 }} else {{ (((!x) as u{b}) << 1) | 1 }};
    e == spec && h::zigzag_decode_i{b}(e) == x
}}""".format(b=bits, cap=cap))
        a("const _: () = assert!(h::%s >= (%d + 6) / 7, \"QBV-WITNESS varint-buffer|%s is too small for a %d-bit value\");" % (cap, bits, cap, bits))
        vals = set()
        for k in range(bits):
            for d in (-1, 0, 1):
                v = (1 << k) + d
                if 0 <= v < (1 << bits):
                    vals.add(v)
        vals |= {0, (1 << bits) - 1, (1 << bits) - 2}
        for v in sorted(vals):
            a('const _: () = assert!(leb_u%d(%d), "QBV-WITNESS varint-u%d|encode_varint_u%d(%d) is not the LEB128 form of the value");' % (bits, v, bits, bits, v))
        svals = set()
        for k in range(bits - 1):
            for d in (-1, 0, 1):
                for sgn in (1, -1):
                    x = sgn * ((1 << k) + d)
                    if -(1 << (bits - 1)) <= x < (1 << (bits - 1)):
                        svals.add(x)
        svals |= {0, -1, 1, -(1 << (bits - 1)), (1 << (bits - 1)) - 1}
        for x in sorted(svals):
            lit = "i%d::MIN" % bits if x == -(1 << (bits - 1)) else "(%d)" % x
            a('const _: () = assert!(zz_i%d(%s), "QBV-WITNESS zigzag-i%d|zig-zag of %d does not follow 0,-1,1,-2,.. -> 0,1,2,3,.. or does not decode back");' % (bits, lit, bits, x))
    return "\n".join(w) + "\n"


def run_varint():
    """C12.g: (n_assertions, failures)."""
    src = varint_source()
    failures = _build_and_check("varint", ['qbice_serialize = { path = "%s/crates/serialize" }'], src, rustflags="--cfg qbice_verif")
    return src.count("const _: () = assert!"), failures

//! D10 reproduction (property C09): the first read of a key-of-set entry whose persisted set is larger than the
//! 1024-member in-memory threshold is served by `MergeIterator::Spilled`.  When a member buffered in
//! `half_constructed` has a staged `Remove`, `next()` falls through to the rest iterator and the staged additions;
//! once both are exhausted it returns `None` although buffered members remain: the read loses members that were
//! inserted, committed, and never removed.
//!
//! Place in crates/integration_test/tests/ and run
//!   cargo test --offline -p qbice_integration_test --test d10_spilled_iterator_ends_early
//! Fails before the repair (first read returns far fewer members than expected), passes after it.

#![allow(missing_docs)]

use std::{
    collections::{BTreeSet, HashSet},
    sync::{Arc, Mutex},
};

use qbice::{
    Identifiable,
    serialize::Plugin,
    storage::{
        key_of_set_map::{ConcurrentSet, KeyOfSetMap, cache::CacheKeyOfSetMap},
        kv_database::{KeyOfSetColumn, rocksdb::RocksDB},
        write_manager::write_behind::WriteBehind,
    },
};
use tempfile::tempdir;

#[derive(Debug, Identifiable)]
struct Members;

impl KeyOfSetColumn for Members {
    type Key = u64;
    type Element = u64;
}

#[derive(Debug, Clone, Default)]
struct Set(Arc<Mutex<HashSet<u64>>>);

impl ConcurrentSet for Set {
    type Element = u64;
    type Iterator<'x> = std::vec::IntoIter<u64>;

    fn insert_element(&self, element: u64) -> bool { self.0.lock().unwrap().insert(element) }
    fn remove_element(&self, element: &u64) -> bool { self.0.lock().unwrap().remove(element) }
    fn len(&self) -> usize { self.0.lock().unwrap().len() }
    fn iter(&self) -> Self::Iterator<'_> {
        self.0.lock().unwrap().iter().copied().collect::<Vec<_>>().into_iter()
    }
}

type Map = CacheKeyOfSetMap<Members, Set, RocksDB>;
const KEY: u64 = 7;

#[tokio::test(flavor = "multi_thread")]
async fn staged_removes_do_not_end_the_first_read_of_a_spilled_set() {
    const SIZE: u64 = 1026;
    let dir = tempdir().unwrap();
    let db = RocksDB::open(dir.path(), Plugin::default()).unwrap();

    // persist 0..SIZE
    {
        let writer = WriteBehind::new(&db, 2);
        let map = Map::new(16, db.clone());
        let mut batch = writer.new_write_batch();
        for element in 0..SIZE {
            map.insert(KEY, element, &mut batch).await;
        }
        writer.submit_write_batch(batch);
        drop(writer);
    }

    // cold cache, 11 staged removes spread over the set
    let writer = WriteBehind::new(&db, 2);
    let map = Map::new(16, db.clone());
    let mut batch = writer.new_write_batch();
    let mut expected = (0..SIZE).collect::<BTreeSet<_>>();
    for k in 0..11u64 {
        let victim = k * 90 + 5;
        map.remove(&KEY, &victim, &mut batch).await;
        expected.remove(&victim);
    }

    let first = map.get(&KEY).await.collect::<BTreeSet<_>>();
    let second = map.get(&KEY).await.collect::<BTreeSet<_>>();

    writer.submit_write_batch(batch);
    drop(writer);

    assert_eq!(second, expected, "second read (streaming path)");
    assert_eq!(
        first.len(),
        expected.len(),
        "first read (spilled path) lost {} members that were never removed",
        expected.difference(&first).count()
    );
    assert_eq!(first, expected);
}

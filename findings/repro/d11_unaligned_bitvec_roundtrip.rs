//! D11 reproduction (property C12): `Encode for BitVec` writes `as_raw_slice()` as it is.  A bit vector made by
//! `split_off(k)` / `from_bitslice(&bits[k..])` at an unaligned index keeps the head offset k of its source: its raw
//! storage starts with k dead bits, the live bits are shifted, and it can be one element longer than
//! ceil(len / bits_of::<T>()).  `Decode` rebuilds the vector from ceil(len / bits) elements at head offset 0, so the
//! value comes back shifted and - when the storage is one element longer - the decoder stops before the end of what
//! was written: the next value of the stream is read from the middle of this one.
//!
//! Place in crates/serialize/tests/ and run
//!   cargo test --offline -p qbice_serialize --features bitvec --test d11_unaligned_bitvec_roundtrip
//! Both tests fail before the repair and pass after it.
#![cfg(feature = "bitvec")]

use bitvec::prelude::*;
use qbice_serialize::{
    Plugin,
    postcard::{decode, encode},
};

fn pattern(n: usize) -> BitVec<u8, Lsb0> { (0..n).map(|i| i % 3 == 0 || i % 7 == 2).collect() }

#[test]
fn unaligned_bit_vector_round_trips() {
    let plugin = Plugin::new();
    let mut source = pattern(29);
    let tail = source.split_off(3); // 26 bits, head offset 3
    let logical: Vec<bool> = tail.iter().by_vals().collect();

    let bytes = encode(&tail, &plugin).unwrap();
    let back: BitVec<u8, Lsb0> = decode(&bytes, &plugin).unwrap();

    assert_eq!(back.len(), tail.len());
    assert_eq!(back.iter().by_vals().collect::<Vec<_>>(), logical, "the decoded bits are not the encoded bits");
    assert_eq!(back, tail);
}

#[test]
fn value_after_an_unaligned_bit_vector_is_read_back() {
    let plugin = Plugin::new();
    let mut source = pattern(21);
    let tail = source.split_off(5); // 16 bits at head offset 5: three storage bytes hold two bytes' worth of bits
    let pair = (tail.clone(), 0xABCD_u16);

    let bytes = encode(&pair, &plugin).unwrap();
    let back: (BitVec<u8, Lsb0>, u16) = decode(&bytes, &plugin).unwrap();

    assert_eq!(back.1, 0xABCD, "the value written after the bit vector was read from inside the bit vector's bytes");
    assert_eq!(back.0, tail);
}

//! Reproduction: `Policy::unpin` unwraps the least-recent key of the
//! Probation region, but the Probation region can be empty when an un-pin
//! notification for a key tracked in the Pinned region is processed.
//!
//! Only the public API of `qbice_storage::tiny_lfu` is used. All tests but the
//! last one are single-threaded and use `MaintenanceMode::Piggyback`, so the
//! cache maintenance (and the panic) runs in the calling thread.
//!
//! How the state is reached (see `Policy::on_write` / `Policy::unpin`):
//!
//! 1. The main space (probation + protected) is filled with clean (not
//!    pinned) entries; nothing is ever read, so all of them sit in Probation.
//! 2. Further entries are inserted while their owner reports them as pinned
//!    ("dirty" entries of a write-behind cache). Each one overflows the
//!    window and duels with the probation victim; the frequencies tie, the
//!    candidate loses, the storage refuses to drop it (`is_pinned` is true)
//!    and the policy parks the key in the Pinned region.
//! 3. The owner removes the clean entries (`OccupiedEntry::remove`); every
//!    `Removed` message takes one key out of Probation until it is empty.
//! 4. The owner flushes a dirty entry and notifies the cache with
//!    `TinyLFU::unpin(key)`: the key is in the Pinned region, so
//!    `Policy::unpin` goes on to
//!    `self.lru.peek_least_recent(lru::Region::Probation).unwrap()` with an
//!    empty Probation region.
//!
//! The maintenance only runs once more than 32 write messages are buffered,
//! so each phase makes sure that many messages are pending.

use std::sync::{
    Arc,
    atomic::{AtomicBool, Ordering},
};

use qbice_storage::tiny_lfu::{
    Entry, LifecycleListener, MaintenanceMode, TinyLFU, UnpinStrategy,
};

/// More than `MAINTENANCE_BATCH_SIZE` (32) buffered write messages make the
/// next cache call run the maintenance.
const BATCH: u64 = 40;

/// A key that is never inserted; un-pin notifications for it are ignored by
/// the policy (it is not in the Pinned region) and only serve to fill the
/// write buffer so that the maintenance runs.
const NEVER_INSERTED: u64 = u64::MAX;

struct Slot {
    data: u64,
    pinned: AtomicBool,
}

type Value = Arc<Slot>;

/// The owner of the entries reports an entry as pinned through a flag stored
/// in the value.
#[derive(Default)]
struct FlagListener;

impl LifecycleListener<u64, Value> for FlagListener {
    fn is_pinned(&self, _key: &u64, value: &Value) -> bool {
        value.pinned.load(Ordering::SeqCst)
    }
}

type Cache = TinyLFU<u64, Value, FlagListener>;

fn insert(cache: &Cache, key: u64, pinned: bool) -> Value {
    let value =
        Arc::new(Slot { data: key * 10, pinned: AtomicBool::new(pinned) });

    cache.entry(key, |entry| match entry {
        Entry::Vacant(vacant) => vacant.insert(value.clone()),
        Entry::Occupied(_) => panic!("key {key} inserted twice"),
    });

    value
}

/// Removes the entry if it is (still) resident.
fn remove(cache: &Cache, key: u64) -> bool {
    cache.entry(key, |entry| match entry {
        Entry::Vacant(_) => false,
        Entry::Occupied(occupied) => {
            let _ = occupied.remove();
            true
        }
    })
}

/// Fills the write buffer with ignored notifications so that the maintenance
/// runs and drains everything that is pending.
fn run_maintenance(cache: &Cache) {
    for _ in 0..BATCH {
        cache.unpin(NEVER_INSERTED);
    }
}

/// The smallest instance: capacity 1, three inserts, one remove, one unpin.
///
/// capacity 1 => window 1, probation 1, protected 0.
///
/// - insert 1: window [1]
/// - insert 2: window [2, 1] overflows, main has room: 1 -> probation
/// - insert 3: window [3, 2] overflows, main is full: duel 2 (candidate) vs
///   1 (victim); both have been seen once, the candidate loses; it is pinned
///   so it moves to the Pinned region. window [3], probation [1], pinned [2]
/// - remove 1: probation []
/// - unpin 2: `peek_least_recent(Probation)` is `None`
#[test]
fn minimal_capacity_one_notify() {
    let cache: Cache =
        TinyLFU::new(1, UnpinStrategy::Notify, MaintenanceMode::Piggyback);

    let _one = insert(&cache, 1, false);
    let two = insert(&cache, 2, true);
    let _three = insert(&cache, 3, false);
    run_maintenance(&cache);

    // the pinned entry is resident and readable
    assert_eq!(cache.get(&2).map(|v| v.data), Some(20));

    assert!(remove(&cache, 1));

    // the owner is done with entry 2 and says so
    two.pinned.store(false, Ordering::SeqCst);
    cache.unpin(2);

    // panics here on the unchanged code
    run_maintenance(&cache);

    // entry 2 was never evicted nor removed by its owner before the
    // notification; afterwards it is either resident with its value or gone
    assert!(matches!(cache.get(&2).map(|v| v.data), None | Some(20)));
}

/// A write-behind like workload for any capacity: `capacity + 1` clean
/// entries, then `dirty_count` dirty (pinned) entries, then the clean ones
/// are deleted, then the dirty ones are flushed and un-pinned.
///
/// `dirty_count` is kept small for the small capacities: the frequency sketch
/// ages (halves its counters and forgets first sightings) every
/// `16 * capacity` recorded accesses, after which a fresh candidate beats the
/// probation victim instead of tying with it and the regions end up populated
/// differently.
fn write_behind_workload(
    capacity: u64,
    dirty_count: u64,
    strategy: UnpinStrategy,
) {
    let cache: Cache = TinyLFU::new(
        usize::try_from(capacity).unwrap(),
        strategy,
        MaintenanceMode::Piggyback,
    );

    let clean_keys = 0..=capacity;
    // contiguous with the clean keys: the sketch of a small cache only looks
    // at a few low bits of the (multiplicative) hash, so far-apart keys may
    // alias there and no longer tie in the duel
    let dirty_keys = capacity + 1..capacity + 1 + dirty_count;

    // phase 1: clean entries fill window and probation
    for key in clean_keys.clone() {
        let _ = insert(&cache, key, false);
    }
    run_maintenance(&cache);

    // phase 2: dirty entries; each loses its duel and is parked as Pinned
    let dirty: Vec<(u64, Value)> =
        dirty_keys.map(|key| (key, insert(&cache, key, true))).collect();
    run_maintenance(&cache);

    // a pinned entry is never evicted and stays readable
    for (key, _) in &dirty {
        assert_eq!(
            cache.get(key).map(|v| v.data),
            Some(key * 10),
            "pinned entry {key} must be resident (capacity {capacity})"
        );
    }

    // phase 3: the owner deletes the clean entries that are still resident
    for key in clean_keys {
        let _ = remove(&cache, key);
    }

    // phase 4: the owner flushes the dirty entries and notifies the cache
    for (key, value) in &dirty {
        value.pinned.store(false, Ordering::SeqCst);
        cache.unpin(*key);
    }

    // panics here (or in one of the calls above, whichever crosses the
    // maintenance threshold first) on the unchanged code
    run_maintenance(&cache);

    // whatever is still resident carries its latest value, and the number of
    // resident entries is back within the capacity (+ window/probation
    // rounding slack of the policy: max_capacity <= capacity + 1)
    let resident = dirty
        .iter()
        .filter(|(key, _)| {
            cache.get(key).is_some_and(|v| {
                assert_eq!(v.data, key * 10);
                true
            })
        })
        .count();

    assert!(
        resident as u64 <= capacity + 1,
        "{resident} resident entries with capacity {capacity} and nothing \
         pinned"
    );
}

#[test]
fn write_behind_workload_notify_capacity_1() {
    write_behind_workload(1, 3, UnpinStrategy::Notify);
}

#[test]
fn write_behind_workload_notify_capacity_2() {
    write_behind_workload(2, 3, UnpinStrategy::Notify);
}

#[test]
fn write_behind_workload_notify_capacity_3() {
    write_behind_workload(3, 3, UnpinStrategy::Notify);
}

#[test]
fn write_behind_workload_notify_capacity_4() {
    write_behind_workload(4, 3, UnpinStrategy::Notify);
}

#[test]
fn write_behind_workload_notify_capacity_16() {
    write_behind_workload(16, BATCH, UnpinStrategy::Notify);
}

#[test]
fn write_behind_workload_notify_capacity_100() {
    write_behind_workload(100, BATCH, UnpinStrategy::Notify);
}

#[test]
fn write_behind_workload_notify_capacity_300() {
    write_behind_workload(300, BATCH, UnpinStrategy::Notify);
}

/// `TinyLFU::unpin` is just as public with the Poll strategy; the message is
/// processed before the poll-based trimming gets a chance to run.
#[test]
fn write_behind_workload_poll_capacity_1() {
    write_behind_workload(1, 3, UnpinStrategy::Poll);
}

#[test]
fn write_behind_workload_poll_capacity_4() {
    write_behind_workload(4, 3, UnpinStrategy::Poll);
}

#[test]
fn write_behind_workload_poll_capacity_100() {
    write_behind_workload(100, BATCH, UnpinStrategy::Poll);
}

/// With a dedicated maintenance thread the panic kills that thread: no
/// maintenance ever runs again (the maintenance flag stays set) and dropping
/// the cache panics in `join().unwrap()`.
#[test]
fn dedicated_thread_dies() {
    let cache: Cache = TinyLFU::new(
        1,
        UnpinStrategy::Notify,
        MaintenanceMode::DedicatedThread,
    );

    let _one = insert(&cache, 1, false);
    let two = insert(&cache, 2, true);
    let _three = insert(&cache, 3, false);
    assert!(remove(&cache, 1));
    // a notification for an entry that is (still, or again) pinned is legal:
    // `Policy::unpin` re-checks with the listener and keeps such an entry
    cache.unpin(2);
    run_maintenance(&cache);
    drop(two);

    // joins the maintenance thread; panics on the unchanged code because the
    // thread panicked
    drop(cache);
}

#![allow(missing_docs)]
#![allow(clippy::must_use_candidate)]

//! Side finding (UNCHANGED code): a reader that is cancelled while a
//! re-executed firewall query is propagating dirtiness leaves the
//! "transactional" tail of `Snapshot::execute_query` running as a detached
//! task that no longer holds the phase lock. An input session opened right
//! after the cancellation runs concurrently with that tail; the tail then
//! removes the dirty mark the session has just put on the firewall's edge and
//! stamps the firewall with the value computed from the OLD input.
//!
//! To run: copy into `crates/integration_test/tests/zz_side_c04.rs` and
//! `cargo test -p qbice_integration_test --test zz_side_c04 --offline -- --nocapture`.
//! Control: `SETTLE_MS=100 cargo test ...` passes (the tail is given time to
//! finish before the next session is opened).

use std::{
    sync::{
        Arc,
        atomic::{AtomicBool, Ordering},
    },
    time::Duration,
};

use qbice::{
    Decode, Encode, Identifiable, StableHash, TrackedEngine, config::Config,
    executor::Executor, query::Query,
};
use qbice_integration_test::{Variable, create_test_engine};
use tempfile::tempdir;
use tokio::sync::Notify;

#[derive(
    Debug,
    Clone,
    Copy,
    PartialEq,
    Eq,
    PartialOrd,
    Ord,
    Hash,
    Identifiable,
    StableHash,
    Encode,
    Decode,
)]
pub struct Wall(pub Variable);

impl Query for Wall {
    type Value = i64;
}

#[derive(Debug, Default)]
pub struct WallExecutor {
    armed: AtomicBool,
    about_to_return: Notify,
}

impl<C: Config> Executor<Wall, C> for WallExecutor {
    async fn execute(&self, query: &Wall, engine: &TrackedEngine<C>) -> i64 {
        let value = engine.query(&query.0).await;

        if self.armed.swap(false, Ordering::SeqCst) {
            self.about_to_return.notify_one();
        }

        value * value
    }

    fn execution_style() -> qbice::ExecutionStyle {
        qbice::ExecutionStyle::Firewall
    }
}

#[derive(
    Debug,
    Clone,
    Copy,
    PartialEq,
    Eq,
    PartialOrd,
    Ord,
    Hash,
    Identifiable,
    StableHash,
    Encode,
    Decode,
)]
pub struct Leaf(pub u64);

impl Query for Leaf {
    type Value = i64;
}

#[derive(Debug, Default, Clone, Copy)]
pub struct LeafExecutor;

impl<C: Config> Executor<Leaf, C> for LeafExecutor {
    #[allow(clippy::cast_possible_wrap)]
    async fn execute(&self, query: &Leaf, engine: &TrackedEngine<C>) -> i64 {
        engine.query(&Wall(Variable(0))).await + query.0 as i64
    }
}

fn env_u64(name: &str, default: u64) -> u64 {
    std::env::var(name).ok().and_then(|x| x.parse().ok()).unwrap_or(default)
}

/// Number of queries that depend on the firewall (`LEAVES=...` overrides).
fn leaves() -> u64 { env_u64("LEAVES", 200) }

/// CONTROL knob: with `SETTLE_MS=100` the test waits for the detached tail to
/// finish before it opens the next input session, and then it passes.
fn settle_ms() -> u64 { env_u64("SETTLE_MS", 0) }

async fn attempt(delay_us: u64) -> Result<(), String> {
    let tempdir = tempdir().unwrap();
    let mut engine = create_test_engine(&tempdir).await;

    let wall = Arc::new(WallExecutor::default());
    engine.register_executor(wall.clone());
    engine.register_executor(Arc::new(LeafExecutor));

    let engine = Arc::new(engine);

    // epoch 1: Variable(0) = 1, compute the firewall and a wide fan-out
    {
        let mut session = engine.input_session().await;
        session.set_input(Variable(0), 1).await;
        session.commit().await;
    }
    {
        let tracked = engine.clone().tracked().await;
        for k in 0..leaves() {
            #[allow(clippy::cast_possible_wrap)]
            let expected = 1 + k as i64;
            assert_eq!(tracked.query(&Leaf(k)).await, expected);
        }
    }

    // epoch 2: Variable(0) = 2, the firewall will change its value (1 -> 4)
    {
        let mut session = engine.input_session().await;
        session.set_input(Variable(0), 2).await;
        session.commit().await;
    }

    // a reader starts repairing and is cancelled while the re-executed
    // firewall propagates dirtiness to its dependants
    {
        let tracked = engine.clone().tracked().await;
        wall.armed.store(true, Ordering::SeqCst);

        tokio::select! {
            biased;

            () = async {
                wall.about_to_return.notified().await;
                tokio::time::sleep(Duration::from_micros(delay_us)).await;
            } => {}

            _ = tracked.query(&Leaf(0)) => {
                return Err("reader finished before it could be cancelled".into());
            }
        }

        drop(tracked);
    }

    if settle_ms() > 0 {
        tokio::time::sleep(Duration::from_millis(settle_ms())).await;
    }

    // epoch 3: Variable(0) = 3
    {
        let mut session = engine.input_session().await;
        session.set_input(Variable(0), 3).await;
        session.commit().await;
    }

    // a reader handed out after the commit of epoch 3 must see Variable(0) = 3
    let tracked = engine.clone().tracked().await;
    let input = tracked.query(&Variable(0)).await;
    let wall_value = tracked.query(&Wall(Variable(0))).await;
    let leaf = tracked.query(&Leaf(7)).await;

    if input != 3 {
        return Err(format!("input = {input}"));
    }
    if wall_value != 9 || leaf != 16 {
        return Err(format!(
            "new epoch with old inputs: Variable(0) = {input}, \
             Wall(Variable(0)) = {wall_value} (expected 9), Leaf(7) = {leaf} \
             (expected 16)"
        ));
    }

    Ok(())
}

#[tokio::test(flavor = "multi_thread", worker_threads = 4)]
async fn cancelled_reader_tail_races_with_next_input_session() {
    let mut failures = Vec::new();

    for (round, delay_us) in
        [0_u64, 200, 500, 1000, 2000, 4000].into_iter().enumerate()
    {
        match tokio::time::timeout(Duration::from_secs(120), attempt(delay_us))
            .await
        {
            Ok(Ok(())) => eprintln!("round {round} (delay {delay_us}us): ok"),
            Ok(Err(msg)) => {
                eprintln!("round {round} (delay {delay_us}us): {msg}");
                failures.push(msg);
            }
            Err(_) => {
                eprintln!("round {round} (delay {delay_us}us): TIMEOUT");
                failures.push("timeout".to_string());
            }
        }
    }

    assert!(failures.is_empty(), "{failures:#?}");
}

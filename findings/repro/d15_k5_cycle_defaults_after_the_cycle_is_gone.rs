//! Side findings in the UNCHANGED code (independent of the seeded change).
//!
//! To run: copy this file to
//! `crates/integration_test/tests/zz_side_finding_c06.rs` and run
//! `cargo test --offline -p qbice_integration_test --test zz_side_finding_c06`.
//!
//! All tests are plain single-task sequences of public-API calls; all fail
//! on the unchanged code.
#![allow(missing_docs)]
#![allow(clippy::all, clippy::pedantic, clippy::nursery)]

use std::sync::Arc;

use qbice::{
    Decode, Encode, TrackedEngine, config::Config, executor::Executor,
    query::Query, stable_hash::StableHash, stable_type_id::Identifiable,
};
use qbice_integration_test::create_test_engine;
use tempfile::tempdir;

macro_rules! unit_query {
    ($name:ident) => {
        #[derive(
            Debug,
            Clone,
            Copy,
            PartialEq,
            Eq,
            PartialOrd,
            Ord,
            Hash,
            Identifiable,
            StableHash,
            Encode,
            Decode,
        )]
        pub struct $name;
        impl Query for $name {
            type Value = i64;
        }
    };
}

// ---------------------------------------------------------------------------
// Side finding 1: a stale query that is found to be on a cycle while it is in
// its *repair* phase is re-executed with the "in SCC" mark already set, so its
// very first read unwinds. It is stored with its cycle default (fine) but with
// only that first read as a dependency: the edge into the cycle (and every
// other read) is lost. When the cycle later disappears, nothing dirties the
// query and it keeps its cycle default forever.
// ---------------------------------------------------------------------------

unit_query!(V0);
unit_query!(V1);
unit_query!(A);
unit_query!(B);

#[derive(Debug, Default, Clone, Copy)]
pub struct ExecA;
impl<C: Config> Executor<A, C> for ExecA {
    async fn execute(&self, _: &A, engine: &TrackedEngine<C>) -> i64 {
        // A: reads V0; only when V0 == 1 it also reads B
        if engine.query(&V0).await == 1 {
            engine.query(&B).await + 1
        } else {
            100
        }
    }
    fn scc_value() -> i64 { -1 }
}

#[derive(Debug, Default, Clone, Copy)]
pub struct ExecB;
impl<C: Config> Executor<B, C> for ExecB {
    async fn execute(&self, _: &B, engine: &TrackedEngine<C>) -> i64 {
        // B: reads V1 first, then (unconditionally) A
        let v1 = engine.query(&V1).await;
        let a = engine.query(&A).await;
        v1 * 10 + a
    }
    fn scc_value() -> i64 { -2 }
}

#[tokio::test]
async fn stale_default_after_cycle_found_during_repair() {
    let tempdir = tempdir().unwrap();
    let mut engine = create_test_engine(&tempdir).await;
    engine.register_executor(Arc::new(ExecA));
    engine.register_executor(Arc::new(ExecB));
    let engine = Arc::new(engine);

    // phase 1: no cycle
    {
        let mut s = engine.input_session().await;
        s.set_input(V0, 0).await;
        s.set_input(V1, 1).await;
        s.commit().await;
    }
    {
        let t = engine.clone().tracked().await;
        assert_eq!(t.query(&A).await, 100);
        assert_eq!(t.query(&B).await, 110);
    }

    // phase 2: V0 = 1 closes the cycle A -> B -> A. Querying A re-executes A,
    // which descends into the *repair* of B, which finds the cycle.
    {
        let mut s = engine.input_session().await;
        s.set_input(V0, 1).await;
        s.commit().await;
    }
    {
        let t = engine.clone().tracked().await;
        assert_eq!(t.query(&A).await, -1);
        assert_eq!(t.query(&B).await, -2);
    }

    // phase 3: V0 = 0 removes the cycle again. A from-scratch evaluation
    // gives A = 100 and B = 1 * 10 + 100 = 110.
    {
        let mut s = engine.input_session().await;
        s.set_input(V0, 0).await;
        s.commit().await;
    }
    {
        let t = engine.clone().tracked().await;
        assert_eq!(t.query(&A).await, 100);
        // FAILS on the unchanged code: B is still -2 (its cycle default)
        assert_eq!(t.query(&B).await, 110);
    }
}

// ---------------------------------------------------------------------------
// Side finding 2: a cycle member that is not the ring closer records the
// closer's *cycle default* as an ordinary observation before it unwinds. When
// the cycle disappears and the former closer's proper value happens to equal
// its cycle default, the member looks unchanged and keeps its own cycle
// default, although it is no longer on any cycle.
// ---------------------------------------------------------------------------

unit_query!(Ctl);
unit_query!(X);
unit_query!(Y);

#[derive(Debug, Default, Clone, Copy)]
pub struct ExecX;
impl<C: Config> Executor<X, C> for ExecX {
    async fn execute(&self, _: &X, engine: &TrackedEngine<C>) -> i64 {
        engine.query(&Y).await + 1000
    }
    fn scc_value() -> i64 { -1 }
}

#[derive(Debug, Default, Clone, Copy)]
pub struct ExecY;
impl<C: Config> Executor<Y, C> for ExecY {
    async fn execute(&self, _: &Y, engine: &TrackedEngine<C>) -> i64 {
        if engine.query(&Ctl).await == 1 {
            engine.query(&X).await + 1
        } else {
            0
        }
    }
    // the same as the value Y computes when there is no cycle
    fn scc_value() -> i64 { 0 }
}

#[tokio::test]
async fn stale_default_when_closer_value_equals_its_default() {
    let tempdir = tempdir().unwrap();
    let mut engine = create_test_engine(&tempdir).await;
    engine.register_executor(Arc::new(ExecX));
    engine.register_executor(Arc::new(ExecY));
    let engine = Arc::new(engine);

    // phase 1: cycle X -> Y -> X
    {
        let mut s = engine.input_session().await;
        s.set_input(Ctl, 1).await;
        s.commit().await;
    }
    {
        let t = engine.clone().tracked().await;
        assert_eq!(t.query(&X).await, -1);
        assert_eq!(t.query(&Y).await, 0);
    }

    // phase 2: no cycle any more; from scratch: Y = 0, X = 1000
    {
        let mut s = engine.input_session().await;
        s.set_input(Ctl, 0).await;
        s.commit().await;
    }
    {
        let t = engine.clone().tracked().await;
        assert_eq!(t.query(&Y).await, 0);
        // FAILS on the unchanged code: X is still -1 (its cycle default)
        assert_eq!(t.query(&X).await, 1000);
    }
}

// ---------------------------------------------------------------------------
// Side finding 2, natural variant (no "proper value equals the default"
// coincidence needed): a ring member leaves the cycle while the former ring
// closer stays cyclic through *another* cycle (here a self-loop), so the
// closer's value is its cycle default before and after the edit.
// ---------------------------------------------------------------------------

unit_query!(Sw);
unit_query!(M);
unit_query!(K);

#[derive(Debug, Default, Clone, Copy)]
pub struct ExecM;
impl<C: Config> Executor<M, C> for ExecM {
    async fn execute(&self, _: &M, engine: &TrackedEngine<C>) -> i64 {
        engine.query(&K).await + 1000
    }
    fn scc_value() -> i64 { -1 }
}

#[derive(Debug, Default, Clone, Copy)]
pub struct ExecK;
impl<C: Config> Executor<K, C> for ExecK {
    async fn execute(&self, _: &K, engine: &TrackedEngine<C>) -> i64 {
        if engine.query(&Sw).await == 1 {
            // ring M -> K -> M
            engine.query(&M).await + 1
        } else {
            // self-loop K -> K
            engine.query(&K).await + 2
        }
    }
    fn scc_value() -> i64 { -2 }
}

#[tokio::test]
async fn stale_default_when_closer_stays_cyclic_through_another_cycle() {
    let tempdir = tempdir().unwrap();
    let mut engine = create_test_engine(&tempdir).await;
    engine.register_executor(Arc::new(ExecM));
    engine.register_executor(Arc::new(ExecK));
    let engine = Arc::new(engine);

    // phase 1: ring M -> K -> M
    {
        let mut s = engine.input_session().await;
        s.set_input(Sw, 1).await;
        s.commit().await;
    }
    {
        let t = engine.clone().tracked().await;
        assert_eq!(t.query(&M).await, -1);
        assert_eq!(t.query(&K).await, -2);
    }

    // phase 2: K only loops on itself; M is on no cycle any more.
    // From scratch: K = -2 (cycle default), M = -2 + 1000 = 998
    {
        let mut s = engine.input_session().await;
        s.set_input(Sw, 0).await;
        s.commit().await;
    }
    {
        let t = engine.clone().tracked().await;
        assert_eq!(t.query(&K).await, -2);
        // FAILS on the unchanged code: M is still -1 (its cycle default)
        assert_eq!(t.query(&M).await, 998);
    }
}

//! D17 reproduction (property C13): `Path` equality is component-wise ("a/b" == "a//b" == "a/./b" == "a/b/"), the stable
//! hash was taken over the raw bytes of the whole path: EQUAL values hashed DIFFERENTLY (two equal query keys are two
//! queries, two equal interned paths two allocations).  `std`'s own `Hash for Path` hashes components for this reason.
//! The second test keeps the framing honest: unequal component lists must not feed the same stream.
//!
//! Place in crates/stable_hash/tests/ and run
//!   cargo test --offline -p qbice_stable_hash --test d17_equal_paths_hash_equally
//! The first test fails before the repair; both pass after it.
use std::path::{Path, PathBuf};

use qbice_stable_hash::{BuildStableHasher, SeededStableHasherBuilder, Sip128Hasher, StableHash, StableHasher};

fn fingerprint<T: StableHash + ?Sized>(value: &T) -> u128 {
    let mut hasher = SeededStableHasherBuilder::<Sip128Hasher>::new(0).build_stable_hasher();
    value.stable_hash(&mut hasher);
    hasher.finish()
}

#[test]
fn equal_paths_hash_equally() {
    for other in ["a//b", "a/./b", "a/b/", "a/b/."] {
        assert_eq!(Path::new("a/b"), Path::new(other));
        assert_eq!(fingerprint(Path::new("a/b")), fingerprint(Path::new(other)), "`a/b` == `{other}` but the stable hashes differ");
        assert_eq!(fingerprint(&PathBuf::from("a/b")), fingerprint(&PathBuf::from(other)));
    }
}

#[test]
fn unequal_paths_and_adjacent_fields_stay_apart() {
    let distinct = ["a/b", "a", "ab", "a/b/c", "/a/b", "./a/b", "../a/b", "a/../b", ""];
    for (i, x) in distinct.iter().enumerate() {
        for y in &distinct[i + 1..] {
            assert_ne!(Path::new(x), Path::new(y));
            assert_ne!(fingerprint(Path::new(x)), fingerprint(Path::new(y)), "`{x}` != `{y}`");
        }
    }
    // a path followed by another variable-length field
    assert_ne!(fingerprint(&(PathBuf::from("/proj/a"), PathBuf::from("b/x.rs"))), fingerprint(&(PathBuf::from("/proj/a/b"), PathBuf::from("x.rs"))));
    assert_ne!(fingerprint(&(PathBuf::from("a"), "b/c".to_string())), fingerprint(&(PathBuf::from("a/b"), "c".to_string())));
}

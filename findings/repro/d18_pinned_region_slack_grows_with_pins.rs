//! Side finding (unchanged code), C16 round 5.
//!
//! With `UnpinStrategy::Poll` the resident set is NOT bounded by
//! `capacity + currently pinned + fixed slack`: it grows to about
//! `capacity + 34 * (number of long-pinned entries)`.
//!
//! `Policy::attempt_to_trim_overflowing_pinned` stops at the first entry of
//! the pinned region that is still pinned (it rotates it to the head and
//! breaks), so one maintenance round gets past at most ONE still-pinned
//! entry. Every round also parks up to one maintenance batch (33) of new
//! entries that happen to be pinned at the moment they lose the admission
//! duel. After a while the pinned region looks like
//! `P U*33 P U*33 P U*33 ...` (P = long-pinned, U = released long ago), and a
//! released entry is only dropped after the trimmer has rotated through all
//! the P's: ~33 evictable entries stay resident per long-pinned entry.
//!
//! Here: capacity 16, 200 long-pinned entries, every new entry is pinned for
//! the next 40 operations (a lock held for a short while), so at any time
//! 240 entries are pinned. Observed on the unchanged code: ~6800 resident.
//!
//! To run: copy this file to crates/integration_test/tests/ and
//! `cargo test --offline -p qbice_integration_test --test SIDE_FINDING_c16`.
#![allow(missing_docs, missing_debug_implementations, missing_copy_implementations)]
#![allow(clippy::pedantic, clippy::nursery)]

use std::{
    collections::VecDeque,
    sync::{
        Arc,
        atomic::{AtomicBool, Ordering},
    },
};

use qbice::storage::tiny_lfu::{
    Entry, LifecycleListener, MaintenanceMode, TinyLFU, UnpinStrategy,
};

pub struct Slot {
    pinned: AtomicBool,
}

#[derive(Default)]
pub struct PinListener;

impl LifecycleListener<u64, Arc<Slot>> for PinListener {
    fn is_pinned(&self, _key: &u64, value: &Arc<Slot>) -> bool {
        value.pinned.load(Ordering::SeqCst)
    }
}

type Cache = TinyLFU<u64, Arc<Slot>, PinListener>;

fn insert(cache: &Cache, key: u64, pinned: bool) -> Arc<Slot> {
    cache.entry(key, |e| match e {
        Entry::Vacant(v) => {
            let slot = Arc::new(Slot { pinned: AtomicBool::new(pinned) });
            v.insert(slot.clone());
            slot
        }
        Entry::Occupied(o) => o.get().clone(),
    })
}

#[test]
fn poll_pinned_region_slack() {
    let capacity = 16usize;
    let long_pinned = 200u64;
    let hold = 40usize;

    let cache = Cache::new(capacity, UnpinStrategy::Poll, MaintenanceMode::Piggyback);

    let mut all_keys = Vec::new();
    let mut long_handles = Vec::new();
    for k in 0..long_pinned {
        long_handles.push(insert(&cache, k, true));
        all_keys.push(k);
    }

    let mut fifo = VecDeque::new();
    let mut worst = 0usize;
    for k in 10_000..60_000u64 {
        fifo.push_back(insert(&cache, k, true));
        all_keys.push(k);
        if fifo.len() > hold {
            fifo.pop_front().unwrap().pinned.store(false, Ordering::SeqCst);
        }

        if k % 5000 == 0 {
            let resident = all_keys
                .iter()
                .filter(|k| cache.get_map(k, |_| ()).is_some())
                .count();
            worst = worst.max(resident);
            eprintln!("k={k} resident={resident}");
        }
    }

    let pinned_now = long_pinned as usize + hold;
    eprintln!("worst={worst} capacity={capacity} pinned_now={pinned_now}");
    assert!(worst <= capacity + pinned_now + 100, "worst={worst}");
}

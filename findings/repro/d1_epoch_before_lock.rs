#![allow(missing_docs)]
use std::sync::{Arc, atomic::{AtomicBool, Ordering}};
use qbice_integration_test::{Variable, Division, DivisionExecutor, create_test_engine};
use tempfile::tempdir;

// D1: epoch bumped before the exclusive phase lock is held.
#[tokio::test(flavor = "multi_thread", worker_threads = 8)]
async fn stale_after_commit() {
    let dir = tempdir().unwrap();
    let mut engine = create_test_engine(&dir).await;
    engine.register_executor(Arc::new(DivisionExecutor::default()));
    let engine = Arc::new(engine);
    {
        let mut s = engine.input_session().await;
        s.set_input(Variable(0), 0).await;
        s.set_input(Variable(1), 1).await;
        s.commit().await;
    }
    let stop = Arc::new(AtomicBool::new(false));
    let mut readers = vec![];
    for _ in 0..6 {
        let engine = engine.clone(); let stop = stop.clone();
        readers.push(tokio::spawn(async move {
            let mut n = 0u64;
            while !stop.load(Ordering::Relaxed) {
                let t = engine.clone().tracked().await;
                let _ = t.query(&Division::new(Variable(0), Variable(1))).await;
                n += 1;
            }
            n
        }));
    }
    let mut stale = vec![];
    for i in 1..=20000i64 {
        {
            let mut s = engine.input_session().await;
            s.set_input(Variable(0), i).await;
            s.commit().await;
        }
        let t = engine.clone().tracked().await;
        let v = t.query(&Division::new(Variable(0), Variable(1))).await;
        if v != i { stale.push((i, v)); if stale.len() >= 5 { break; } }
    }
    stop.store(true, Ordering::Relaxed);
    let mut total = 0; for r in readers { total += r.await.unwrap(); }
    println!("reader iterations={total}; stale observations (committed, returned)={stale:?}");
}

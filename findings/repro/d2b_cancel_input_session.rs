#![allow(missing_docs)]
use std::{sync::Arc, time::Duration};
use qbice_integration_test::{Variable, Division, DivisionExecutor, create_test_engine};
use tempfile::tempdir;

// D2b: cancel `input_session()` while it waits for the exclusive phase lock.
#[tokio::test(flavor = "multi_thread", worker_threads = 2)]
async fn cancel_input_session_while_waiting() {
    let dir = tempdir().unwrap();
    {
        let mut engine = create_test_engine(&dir).await;
        engine.register_executor(Arc::new(DivisionExecutor::default()));
        let engine = Arc::new(engine);
        {
            let mut s = engine.input_session().await;
            s.set_input(Variable(0), 42).await;
            s.set_input(Variable(1), 2).await;
            s.commit().await;
        }
        let tracked = engine.clone().tracked().await; // holds the shared phase lock
        assert_eq!(tracked.query(&Division::new(Variable(0), Variable(1))).await, 21);

        // a caller that gives up waiting for the session (timeout / select!)
        let mut fut = Box::pin(engine.input_session());
        let elapsed = tokio::time::timeout(Duration::from_millis(50), &mut fut).await.is_err();
        let p = std::panic::catch_unwind(std::panic::AssertUnwindSafe(|| drop(fut)));
        println!("timeout elapsed={elapsed}; dropping the pending input_session() future panicked={}", p.is_err());
        drop(tracked);

        // engine is still used afterwards
        {
            let mut s = engine.input_session().await;
            s.set_input(Variable(0), 100).await;
            s.commit().await;
        }
        let tracked = engine.clone().tracked().await;
        println!("value after later session = {}", tracked.query(&Division::new(Variable(0), Variable(1))).await);
        drop(tracked);
        drop(engine); // clean shutdown
    }
    // reopen: is the later session persisted?
    let mut engine = create_test_engine(&dir).await;
    engine.register_executor(Arc::new(DivisionExecutor::default()));
    let engine = Arc::new(engine);
    let tracked = engine.clone().tracked().await;
    let h = tokio::spawn(async move { tracked.query(&Variable(0)).await });
    println!("after reopen Variable(0) = {:?}", h.await.map_err(|e| e.to_string()));
}


// Verbatim copy of the insert path of CompressedBackwardEdgeSet (database.rs:199-289), element type u64.
use std::sync::Arc;
use dashmap::DashSet;
use parking_lot::RwLock;
pub enum TieredStorage { Small(RwLock<Vec<u64>>), Large(DashSet<u64>) }
#[derive(Clone)]
pub struct Set(pub Arc<RwLock<TieredStorage>>);
impl Set {
    fn insert_element(&self, element: u64) -> bool {
        let read = self.0.read();
        match &*read {
            TieredStorage::Small(vec_lock) => {
                let mut vec = vec_lock.write();
                if vec.len() == 32 {
                    let large_set = DashSet::new();
                    for item in vec.drain(..) { large_set.insert(item); }
                    let result = large_set.insert(element);
                    drop(vec);
                    drop(read);
                    *self.0.write() = TieredStorage::Large(large_set);
                    result
                } else {
                    if vec.contains(&element) { return false; }
                    vec.push(element);
                    true
                }
            }
            TieredStorage::Large(set) => set.insert(element),
        }
    }
    fn len(&self) -> usize { match &*self.0.read() { TieredStorage::Small(v) => v.read().len(), TieredStorage::Large(s) => s.len() } }
}
fn main() {
    let mut lost = 0; let rounds = 20000;
    for _ in 0..rounds {
        let s = Set(Arc::new(RwLock::new(TieredStorage::Small(RwLock::new(Vec::new())))));
        for i in 0..30 { s.insert_element(i); }
        let hs: Vec<_> = (0..8u64).map(|t| { let s = s.clone(); std::thread::spawn(move || { assert!(s.insert_element(100 + t)); }) }).collect();
        for h in hs { h.join().unwrap(); }
        if s.len() != 38 { lost += 1; }
    }
    println!("rounds={rounds} rounds_with_lost_insert={lost}");
}

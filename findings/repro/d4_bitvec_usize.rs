#![allow(missing_docs)]
#[cfg(feature = "bitvec")]
#[test]
fn bitvec_usize_roundtrip() {
    use bitvec::prelude::*;
    use qbice_serialize::{Plugin, Encoder, Decoder, PostcardEncoder, PostcardDecoder};
    let plugin = Plugin::new();
    for (name, bv) in [("70 ones", bitvec![usize, Lsb0; 1; 70]), ("[1,0,1]", bitvec![usize, Lsb0; 1, 0, 1])] {
        let mut enc = PostcardEncoder::new(Vec::new());
        enc.encode(&bv, &plugin).unwrap();
        enc.encode(&0xABu8, &plugin).unwrap(); // a second value written back to back
        let bytes = enc.into_inner();
        let mut dec = PostcardDecoder::new(&bytes[..]);
        let back: Result<BitVec<usize, Lsb0>, _> = dec.decode(&plugin);
        let next: Result<u8, _> = dec.decode(&plugin);
        println!("{name}: encoded {} bytes; decoded equal = {:?}; next value = {:?}", bytes.len(), back.as_ref().map(|b| *b == bv).map_err(|e| e.to_string()), next.map_err(|e| e.to_string()));
    }
}

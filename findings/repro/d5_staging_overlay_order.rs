//! Demonstration for C05: cancelling `InputSession::commit()` at its
//! suspension point (inside dirty propagation) must leave the engine fully
//! usable: every later query must still return the from-scratch value.
//!
//! The test changes a number of inputs, each of which has one derived query
//! depending on it, polls `commit()` exactly once (it suspends while waiting
//! for the dirty propagation workers), drops the future, and then immediately
//! queries all the dependents. All of them must observe the new inputs, both
//! right away and after everything in the background has settled.

#![allow(missing_docs)]
#![allow(clippy::must_use_candidate)]
#![allow(clippy::missing_const_for_fn)]

use std::{
    sync::{
        Arc,
        atomic::{AtomicUsize, Ordering},
    },
};

use qbice::{
    Decode, Encode, Identifiable, StableHash, TrackedEngine, config::Config,
    executor::Executor, query::Query,
};
use qbice_integration_test::{Variable, create_test_engine};
use tempfile::tempdir;

/// `Leaf(i)` = `Variable(i)` + 1
#[derive(
    Debug,
    Clone,
    Copy,
    PartialEq,
    Eq,
    PartialOrd,
    Ord,
    Hash,
    Identifiable,
    StableHash,
    Encode,
    Decode,
)]
pub struct Leaf(pub u64);

impl Query for Leaf {
    type Value = i64;
}

#[derive(Debug, Default)]
pub struct LeafExecutor {
    pub call_count: AtomicUsize,
}

impl<C: Config> Executor<Leaf, C> for LeafExecutor {
    async fn execute(&self, query: &Leaf, engine: &TrackedEngine<C>) -> i64 {
        self.call_count.fetch_add(1, Ordering::SeqCst);

        engine.query(&Variable(query.0)).await + 1
    }
}

const INPUTS: u64 = 64;
const ROUNDS: i64 = 5;

fn input_value(round: i64, i: u64) -> i64 {
    round * 1_000_000 + i64::try_from(i).unwrap()
}

async fn run_demo() {
    let tempdir = tempdir().unwrap();
    let mut engine = create_test_engine(&tempdir).await;
    let leaf_executor = Arc::new(LeafExecutor::default());
    engine.register_executor(leaf_executor.clone());
    let engine = Arc::new(engine);
    {
        let mut input_session = engine.input_session().await;
        for i in 0..INPUTS {
            input_session.set_input(Variable(i), input_value(0, i)).await;
        }
        input_session.commit().await;
    }
    {
        let tracked = engine.clone().tracked().await;
        for i in 0..INPUTS {
            assert_eq!(tracked.query(&Leaf(i)).await, input_value(0, i) + 1);
        }
    }
    for round in 1..=ROUNDS {
        {
            let mut input_session = engine.input_session().await;
            for i in 0..INPUTS {
                input_session.set_input(Variable(i), input_value(round, i)).await;
            }
            input_session.commit().await;
        }
        let before = leaf_executor.call_count.load(Ordering::SeqCst);
        let mut stale = Vec::new();
        {
            let tracked = engine.clone().tracked().await;
            for i in 0..INPUTS {
                let expected = input_value(round, i) + 1;
                let got = tracked.query(&Leaf(i)).await;
                if got != expected { stale.push((i, got, expected)); }
            }
        }
        let after = leaf_executor.call_count.load(Ordering::SeqCst);
        eprintln!("round {round}: executions {} stale {}", after - before, stale.len());
        assert!(stale.is_empty(), "round {round}: {} of {INPUTS} stale; first {:?}", stale.len(), stale.first());
    }
}

#[tokio::test(flavor = "multi_thread", worker_threads = 4)]
async fn plain_rounds_mt() { run_demo().await; }

#[tokio::test]
async fn plain_rounds_st() { run_demo().await; }

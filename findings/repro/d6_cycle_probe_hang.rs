//! Demonstration for C06: a query that lies OUTSIDE a dependency cycle must
//! evaluate exactly as a from-scratch evaluation that substitutes the cycle
//! members' declared defaults would, also when it is requested concurrently
//! with the request that discovers the cycle.
//!
//! Graph used (ring of `len` nodes plus one outsider):
//!
//! ```txt
//!   Outer ──> Node(0) ──> Node(1) ──> ... ──> Node(len-1) ──┐
//!               ^                                            │
//!               └────────────────────────────────────────────┘
//! ```
//!
//! Every `Node` is on the cycle, so every `Node` must evaluate to the cycle
//! default (`NODE_DEFAULT`). `Outer` is NOT on any cycle, so it must evaluate
//! to `NODE_DEFAULT + 1`, and never to its own cycle default.
#![allow(missing_docs)]
#![allow(clippy::must_use_candidate)]
#![allow(clippy::missing_const_for_fn)]

use std::{sync::Arc, time::Duration};

use qbice::{
    Decode, Encode, TrackedEngine, config::Config, executor::Executor,
    query::Query, stable_hash::StableHash, stable_type_id::Identifiable,
};
use qbice_integration_test::create_test_engine;
use tempfile::tempdir;
use tokio::sync::Notify;

const NODE_DEFAULT: i64 = -1000;
const OUTER_DEFAULT: i64 = -777;

#[derive(
    Debug,
    Clone,
    Copy,
    PartialEq,
    Eq,
    PartialOrd,
    Ord,
    Hash,
    Identifiable,
    StableHash,
    Encode,
    Decode,
)]
pub struct Node(pub u32);

impl Query for Node {
    type Value = i64;
}

#[derive(
    Debug,
    Clone,
    Copy,
    PartialEq,
    Eq,
    PartialOrd,
    Ord,
    Hash,
    Identifiable,
    StableHash,
    Encode,
    Decode,
)]
pub struct Outer;

impl Query for Outer {
    type Value = i64;
}

struct SignalOnDrop(Arc<Notify>);
impl Drop for SignalOnDrop {
    fn drop(&mut self) { self.0.notify_one(); }
}

#[derive(Debug)]
pub struct NodeExecutor {
    len: u32,
    cycle_closed: Arc<Notify>,
}

impl<C: Config> Executor<Node, C> for NodeExecutor {
    async fn execute(&self, key: &Node, engine: &TrackedEngine<C>) -> i64 {
        // the node that closes the ring stays "in flight" for a while after the cycle was reported to it:
        // a helper task still owns an engine handle
        let closing = key.0 + 1 == self.len;
        if closing {
            let handle = engine.clone();
            tokio::spawn(async move {
                tokio::time::sleep(Duration::from_millis(500)).await;
                drop(handle);
            });
        }
        let _signal = closing.then(|| SignalOnDrop(self.cycle_closed.clone()));
        engine.query(&Node((key.0 + 1) % self.len)).await + 1
    }
    fn scc_value() -> i64 { NODE_DEFAULT }
}

#[derive(Debug)]
pub struct OuterExecutor {
    cycle_closed: Arc<Notify>,
}

impl<C: Config> Executor<Outer, C> for OuterExecutor {
    async fn execute(&self, _key: &Outer, engine: &TrackedEngine<C>) -> i64 {
        // ask for a ring member right after the closing node saw the cycle (it is still in flight)
        self.cycle_closed.notified().await;
        engine.query(&Node(1)).await + 1
    }
    fn scc_value() -> i64 { OUTER_DEFAULT }
}

#[tokio::test(flavor = "multi_thread", worker_threads = 4)]
async fn outsider_walks_into_closed_ring() {
    let tempdir = tempdir().unwrap();
    let mut engine = create_test_engine(&tempdir).await;
    let cycle_closed = Arc::new(Notify::new());
    engine.register_executor(Arc::new(NodeExecutor { len: 3, cycle_closed: cycle_closed.clone() }));
    engine.register_executor(Arc::new(OuterExecutor { cycle_closed }));
    let engine = Arc::new(engine);
    let tracked = engine.tracked().await;
    let ring = { let t = tracked.clone(); tokio::spawn(async move { t.query(&Node(0)).await }) };
    let outer = { let t = tracked.clone(); tokio::spawn(async move { t.query(&Outer).await }) };
    let (ring, outer) = tokio::time::timeout(Duration::from_secs(20), async move { (ring.await.unwrap(), outer.await.unwrap()) })
        .await
        .expect("the requests must terminate");
    assert_eq!(ring, NODE_DEFAULT);
    assert_eq!(outer, NODE_DEFAULT + 1);
}

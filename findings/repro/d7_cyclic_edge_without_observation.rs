//! D7 reproduction: breaking a dependency ring at a member that did NOT close the cycle, then asking the closer, panics.
//!
//! Generic little graph: `Node(n)` reads the input `Edges(n)` (its successor
//! list) and then queries every successor in order:
//!
//! ```text
//! Node(n) = (n + 1) + 10 * sum(Node(s) for s in Edges(n))     cycle default: DEFAULT
//! ```
//!
//! Both tests first evaluate a graph that contains a ring, then edit ONLY the
//! successor list of the ring member that closed the cycle (the last member
//! reached from the queried root), which removes the cycle, and re-query. The
//! other ring members (and an observer outside of the ring) never read the
//! edited input themselves; they can only learn about the change through the
//! dependency edge on their ring successor that they recorded while they were
//! being unwound with their cycle default.
//!
//! Passes on the unchanged code, fails (stale cycle defaults) with the change.
#![allow(missing_docs, missing_copy_implementations, clippy::all, clippy::pedantic, clippy::nursery)]

use std::{sync::Arc, time::Duration};

use qbice::{
    Decode, Encode, TrackedEngine, config::Config, executor::Executor,
    query::Query, stable_hash::StableHash, stable_type_id::Identifiable,
};
use qbice_integration_test::create_test_engine;
use tempfile::tempdir;

#[derive(
    Debug,
    Clone,
    Copy,
    PartialEq,
    Eq,
    PartialOrd,
    Ord,
    Hash,
    Identifiable,
    StableHash,
    Encode,
    Decode,
)]
pub struct Edges(pub u32);

impl Query for Edges {
    type Value = Arc<[u32]>;
}

#[derive(
    Debug,
    Clone,
    Copy,
    PartialEq,
    Eq,
    PartialOrd,
    Ord,
    Hash,
    Identifiable,
    StableHash,
    Encode,
    Decode,
)]
pub struct Node(pub u32);

impl Query for Node {
    type Value = i64;
}

pub const DEFAULT: i64 = -1_000_000;

#[derive(Debug, Default)]
pub struct NodeExecutor;

impl<C: Config> Executor<Node, C> for NodeExecutor {
    async fn execute(&self, key: &Node, engine: &TrackedEngine<C>) -> i64 {
        let edges = engine.query(&Edges(key.0)).await;
        let mut sum = i64::from(key.0) + 1;

        for e in edges.iter() {
            sum += 10 * engine.query(&Node(*e)).await;
        }

        sum
    }

    fn scc_value() -> i64 { DEFAULT }
}


async fn set_edges<C: Config>(
    engine: &Arc<qbice::Engine<C>>,
    edges: &[(u32, &[u32])],
) {
    let mut s = engine.input_session().await;
    for (n, e) in edges {
        s.set_input(Edges(*n), Arc::from(e.to_vec())).await;
    }
    s.commit().await;
}

async fn eval<C: Config>(engine: &Arc<qbice::Engine<C>>, nodes: &[u32]) -> Vec<i64> {
    let t = engine.clone().tracked().await;
    tokio::time::timeout(Duration::from_secs(30), async {
        let mut out = Vec::new();
        for n in nodes {
            out.push(t.query(&Node(*n)).await);
        }
        out
    })
    .await
    .expect("query hangs")
}

#[tokio::test(flavor = "multi_thread", worker_threads = 4)]
async fn ring_broken_at_non_closing_member_then_closer_is_queried() {
    let tempdir = tempdir().unwrap();
    let mut engine = create_test_engine(&tempdir).await;
    engine.register_executor(Arc::new(NodeExecutor));
    let engine = Arc::new(engine);

    // 0 -> 1 -> 0, root 0: Node(1) closes the cycle (its read of Node(0) returns CyclicError), Node(0) is unwound.
    set_edges(&engine, &[(0, &[1]), (1, &[0])]).await;
    assert_eq!(eval(&engine, &[0, 1]).await, vec![DEFAULT, DEFAULT]);

    // drop the edge 0 -> 1: no cycle any more.  From scratch: Node(0) = 1, Node(1) = 2 + 10 * 1 = 12
    set_edges(&engine, &[(0, &[])]).await;
    assert_eq!(eval(&engine, &[1]).await, vec![12]);
    assert_eq!(eval(&engine, &[0]).await, vec![1]);
}

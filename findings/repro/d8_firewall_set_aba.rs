//! D8 reproduction (unchanged code): ABA on the observed firewall-set fingerprint.
//! A caller verified clean with a patched firewall set keeps its OLD observation of the callee's firewall-set fingerprint; after
//! {F1} -> {F2} -> {F1} the callee's fingerprint equals the stale observation again, the caller keeps the set {F2}, F1 is no longer
//! repaired before the caller and a change behind F1 is never seen.
//!
//! A query must not be re-executed when every dependency it read during its
//! previous run still has the same *value*, even if one of those dependencies
//! now reaches a different set of firewalls than before.
//!
//! Graph:
//!
//! ```txt
//!   Roof --> Top --> Pick --> Variable(0)            (selector)
//!                      |----> Gate(Variable(1))      (firewall, if sel == 0)
//!                      `----> Gate(Variable(2))      (firewall, if sel != 0)
//! ```
//!
//! Both gated variables hold the same number, so flipping the selector makes
//! `Pick` re-run (its input changed) and switch to the *other* firewall, but
//! `Pick` produces the same value as before. `Top` and `Roof` only ever read
//! `Pick` / `Top`, whose values did not change: they must not run again.

#![allow(missing_docs)]

use std::sync::{
    Arc,
    atomic::{AtomicUsize, Ordering},
};

use qbice::{
    Decode, Encode, Identifiable, StableHash, TrackedEngine, config::Config,
    executor::Executor, query::Query,
};
use qbice_integration_test::{Variable, create_test_engine};
use tempfile::tempdir;

#[derive(
    Debug,
    Clone,
    Copy,
    PartialEq,
    Eq,
    PartialOrd,
    Ord,
    Hash,
    Identifiable,
    StableHash,
    Encode,
    Decode,
)]
pub struct Gate(pub Variable);

impl Query for Gate {
    type Value = i64;
}

#[derive(Debug, Default)]
pub struct GateExecutor(pub AtomicUsize);

impl<C: Config> Executor<Gate, C> for GateExecutor {
    async fn execute(&self, query: &Gate, engine: &TrackedEngine<C>) -> i64 {
        self.0.fetch_add(1, Ordering::SeqCst);

        engine.query(&query.0).await
    }

    fn execution_style() -> qbice::ExecutionStyle {
        qbice::ExecutionStyle::Firewall
    }
}

#[derive(
    Debug,
    Clone,
    Copy,
    PartialEq,
    Eq,
    PartialOrd,
    Ord,
    Hash,
    Identifiable,
    StableHash,
    Encode,
    Decode,
)]
pub struct Pick;

impl Query for Pick {
    type Value = i64;
}

#[derive(Debug, Default)]
pub struct PickExecutor(pub AtomicUsize);

impl<C: Config> Executor<Pick, C> for PickExecutor {
    async fn execute(&self, _: &Pick, engine: &TrackedEngine<C>) -> i64 {
        self.0.fetch_add(1, Ordering::SeqCst);

        let selector = engine.query(&Variable(0)).await;

        if selector == 0 {
            engine.query(&Gate(Variable(1))).await
        } else {
            engine.query(&Gate(Variable(2))).await
        }
    }
}

#[derive(
    Debug,
    Clone,
    Copy,
    PartialEq,
    Eq,
    PartialOrd,
    Ord,
    Hash,
    Identifiable,
    StableHash,
    Encode,
    Decode,
)]
pub struct Top;

impl Query for Top {
    type Value = i64;
}

#[derive(Debug, Default)]
pub struct TopExecutor(pub AtomicUsize);

impl<C: Config> Executor<Top, C> for TopExecutor {
    async fn execute(&self, _: &Top, engine: &TrackedEngine<C>) -> i64 {
        self.0.fetch_add(1, Ordering::SeqCst);

        engine.query(&Pick).await + 1
    }
}

#[derive(
    Debug,
    Clone,
    Copy,
    PartialEq,
    Eq,
    PartialOrd,
    Ord,
    Hash,
    Identifiable,
    StableHash,
    Encode,
    Decode,
)]
pub struct Roof;

impl Query for Roof {
    type Value = i64;
}

#[derive(Debug, Default)]
pub struct RoofExecutor(pub AtomicUsize);

impl<C: Config> Executor<Roof, C> for RoofExecutor {
    async fn execute(&self, _: &Roof, engine: &TrackedEngine<C>) -> i64 {
        self.0.fetch_add(1, Ordering::SeqCst);

        engine.query(&Top).await * 10
    }
}

#[tokio::test]
async fn change_behind_a_firewall_that_was_left_and_reentered_is_seen() {
    let tempdir = tempdir().unwrap();
    let mut engine = create_test_engine(&tempdir).await;
    engine.register_executor(Arc::new(GateExecutor::default()));
    engine.register_executor(Arc::new(PickExecutor::default()));
    engine.register_executor(Arc::new(TopExecutor::default()));
    engine.register_executor(Arc::new(RoofExecutor::default()));
    let engine = Arc::new(engine);

    let set = |vals: Vec<(u64, i64)>| {
        let engine = engine.clone();
        async move {
            let mut session = engine.input_session().await;
            for (k, v) in vals {
                session.set_input(Variable(k), v).await;
            }
            session.commit().await;
        }
    };
    let roof = || {
        let engine = engine.clone();
        async move { engine.tracked().await.query(&Roof).await }
    };

    // 1: selector 0 -> Pick reads Gate(Variable(1)) = 5;  Roof = (5 + 1) * 10
    set(vec![(0, 0), (1, 5), (2, 5)]).await;
    assert_eq!(roof().await, 60);
    // 2: selector 1 -> Pick switches to Gate(Variable(2)), same value
    set(vec![(0, 1)]).await;
    assert_eq!(roof().await, 60);
    // 3: selector back to 0 -> Pick is behind Gate(Variable(1)) again, same value
    set(vec![(0, 0)]).await;
    assert_eq!(roof().await, 60);
    // 4: the input behind Gate(Variable(1)) changes: from scratch Roof = (7 + 1) * 10
    set(vec![(1, 7)]).await;
    assert_eq!(roof().await, 80);
}

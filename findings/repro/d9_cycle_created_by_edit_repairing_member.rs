//! D9 reproduction (unchanged code): a cycle CREATED by an input edit, reached through a member that is in repair mode.
#![allow(missing_docs)]

use std::sync::Arc;

use qbice::{
    Decode, Encode, TrackedEngine, config::Config, executor::Executor,
    query::Query, stable_hash::StableHash, stable_type_id::Identifiable,
};
use qbice_integration_test::create_test_engine;
use tempfile::tempdir;

macro_rules! unit_query {
    ($name:ident) => {
        #[derive(
            Debug,
            Clone,
            Copy,
            PartialEq,
            Eq,
            PartialOrd,
            Ord,
            Hash,
            Identifiable,
            StableHash,
            Encode,
            Decode,
        )]
        pub struct $name;

        impl Query for $name {
            type Value = i32;
        }
    };
}

unit_query!(RingSwitch);
unit_query!(RingA);
unit_query!(RingB);
unit_query!(Outside);

const A_DEFAULT: i32 = -1;
const B_DEFAULT: i32 = -2;

#[derive(Debug, Default, Clone, Copy)]
pub struct RingAExecutor;

impl<C: Config> Executor<RingA, C> for RingAExecutor {
    async fn execute(&self, _: &RingA, engine: &TrackedEngine<C>) -> i32 {
        let switch = engine.query(&RingSwitch).await;

        if switch == 1 {
            engine.query(&RingB).await + 10
        } else {
            switch * 100
        }
    }

    fn scc_value() -> i32 { A_DEFAULT }
}

#[derive(Debug, Default, Clone, Copy)]
pub struct RingBExecutor;

impl<C: Config> Executor<RingB, C> for RingBExecutor {
    async fn execute(&self, _: &RingB, engine: &TrackedEngine<C>) -> i32 {
        // the only dependency of `RingB` is `RingA`
        engine.query(&RingA).await + 20
    }

    fn scc_value() -> i32 { B_DEFAULT }
}

#[derive(Debug, Default, Clone, Copy)]
pub struct OutsideExecutor;

impl<C: Config> Executor<Outside, C> for OutsideExecutor {
    async fn execute(&self, _: &Outside, engine: &TrackedEngine<C>) -> i32 {
        let a = engine.query(&RingA).await;
        let b = engine.query(&RingB).await;

        a + b + 1000
    }
}

async fn new_engine(
    dir: &tempfile::TempDir,
) -> Arc<qbice::Engine<qbice_integration_test::TestingConfig>> {
    let mut engine = create_test_engine(dir).await;

    engine.register_executor(Arc::new(RingAExecutor));
    engine.register_executor(Arc::new(RingBExecutor));
    engine.register_executor(Arc::new(OutsideExecutor));

    Arc::new(engine)
}

async fn set_switch(
    engine: &Arc<qbice::Engine<qbice_integration_test::TestingConfig>>,
    value: i32,
) {
    let mut session = engine.input_session().await;
    session.set_input(RingSwitch, value).await;
    session.commit().await;
}

/// Enter the ring through `RingA` (so `RingB` closes it), switch the ring
/// off, and ask the closer.
#[tokio::test]
async fn ring_switched_on_off_on_entered_through_a() {
    let dir = tempdir().unwrap();
    let engine = new_engine(&dir).await;

    // on: A -> B -> A.  Entered through A: B closes the ring.
    set_switch(&engine, 1).await;
    {
        let t = engine.clone().tracked().await;
        assert_eq!(t.query(&RingA).await, A_DEFAULT);
        assert_eq!(t.query(&RingB).await, B_DEFAULT);
    }
    // off: A = 0, B = A + 20 = 20
    set_switch(&engine, 0).await;
    {
        let t = engine.clone().tracked().await;
        assert_eq!(t.query(&RingA).await, 0);
        assert_eq!(t.query(&RingB).await, 20);
    }
    // on again: both lie on the ring again
    set_switch(&engine, 1).await;
    {
        let t = engine.clone().tracked().await;
        assert_eq!(t.query(&RingA).await, A_DEFAULT);
        assert_eq!(t.query(&RingB).await, B_DEFAULT, "RingB lies on the ring again");
    }
}

//! Additional checks written together with the repair of K1 ("an executor's
//! newly read stale callee above a firewall is not repaired").
#![allow(missing_docs)]

use std::sync::Arc;

use qbice::{
    Config, Decode, Encode, Query, StableHash, TrackedEngine, executor,
};
use qbice_integration_test::{Variable, create_test_engine};
use tempfile::tempdir;

macro_rules! query {
    ($name:ident) => {
        #[derive(
            Debug,
            Clone,
            Copy,
            PartialEq,
            Eq,
            PartialOrd,
            Ord,
            Hash,
            Encode,
            Decode,
            StableHash,
            Query,
        )]
        #[value(i64)]
        pub struct $name(u64);
    };
}

async fn set(engine: &Arc<qbice::Engine<qbice_integration_test::TestingConfig>>, values: &[(u64, i64)]) {
    let mut s = engine.input_session().await;
    for (k, v) in values {
        s.set_input(Variable(*k), *v).await;
    }
    s.commit().await;
}

// --------------------------------------------------------------------------
// E1: the stale callee is reached by a *repair* (dirty edge), not by an
// executor: its set of firewalls has changed since the caller has last seen it
// --------------------------------------------------------------------------

query!(FwE);
query!(SelN);
query!(AboveN);

#[executor(style = qbice::ExecutionStyle::Firewall)]
pub async fn fw_e_executor<C: Config>(
    &FwE(k): &FwE,
    engine: &TrackedEngine<C>,
) -> i64 {
    engine.query(&Variable(k)).await
}

/// reads the selector `Variable(100)`, then the firewall it selects
#[executor]
pub async fn sel_n_executor<C: Config>(
    _: &SelN,
    engine: &TrackedEngine<C>,
) -> i64 {
    let s = engine.query(&Variable(100)).await;
    engine.query(&FwE(u64::try_from(s).unwrap())).await
}

#[executor]
pub async fn above_n_executor<C: Config>(
    _: &AboveN,
    engine: &TrackedEngine<C>,
) -> i64 {
    engine.query(&SelN(0)).await + 1000
}

#[tokio::test]
async fn repaired_callee_whose_firewall_set_has_changed() {
    let tempdir = tempdir().unwrap();
    let mut engine = create_test_engine(&tempdir).await;

    engine.register_executor(Arc::new(FwEExecutor));
    engine.register_executor(Arc::new(SelNExecutor));
    engine.register_executor(Arc::new(AboveNExecutor));

    let engine = Arc::new(engine);

    set(&engine, &[(100, 1), (1, 5), (2, 5)]).await;
    {
        let tracked = engine.clone().tracked().await;
        assert_eq!(tracked.query(&AboveN(0)).await, 1005);
    }

    // only `SelN` is brought up to date: it now reads `FwE(2)`, same value
    set(&engine, &[(100, 2)]).await;
    {
        let tracked = engine.clone().tracked().await;
        assert_eq!(tracked.query(&SelN(0)).await, 5);
    }

    // the input below the new firewall changes
    set(&engine, &[(2, 7)]).await;
    {
        let tracked = engine.clone().tracked().await;
        assert_eq!(tracked.query(&AboveN(0)).await, 1007);
    }
}

// --------------------------------------------------------------------------
// E2: the newly read callee is itself a firewall, above another firewall
// --------------------------------------------------------------------------

query!(InnerN);
query!(FwOuter);
query!(TopE2);

#[executor]
pub async fn inner_n_executor<C: Config>(
    &InnerN(k): &InnerN,
    engine: &TrackedEngine<C>,
) -> i64 {
    engine.query(&FwE(k)).await + 10
}

#[executor(style = qbice::ExecutionStyle::Firewall)]
pub async fn fw_outer_executor<C: Config>(
    &FwOuter(k): &FwOuter,
    engine: &TrackedEngine<C>,
) -> i64 {
    engine.query(&InnerN(k)).await + 100
}

#[executor]
pub async fn top_e2_executor<C: Config>(
    _: &TopE2,
    engine: &TrackedEngine<C>,
) -> i64 {
    if engine.query(&Variable(0)).await != 0 {
        engine.query(&FwOuter(1)).await
    } else {
        0
    }
}

#[tokio::test]
async fn newly_read_firewall_above_firewall() {
    let tempdir = tempdir().unwrap();
    let mut engine = create_test_engine(&tempdir).await;

    engine.register_executor(Arc::new(FwEExecutor));
    engine.register_executor(Arc::new(InnerNExecutor));
    engine.register_executor(Arc::new(FwOuterExecutor));
    engine.register_executor(Arc::new(TopE2Executor));

    let engine = Arc::new(engine);

    for (switch, data, expected) in [
        (1, 1, 111),
        (0, 1, 0),
        (1, 2, 112),
        (1, 3, 113),
        (0, 4, 0),
        (0, 5, 0),
        (1, 5, 115),
    ] {
        set(&engine, &[(0, switch), (1, data)]).await;

        let tracked = engine.clone().tracked().await;
        assert_eq!(
            tracked.query(&TopE2(0)).await,
            expected,
            "switch = {switch}, data = {data}"
        );
    }
}

// --------------------------------------------------------------------------
// E3: the newly read callee is above a projection; the firewall is repaired
// on behalf of an executor, its backward projection stays pending and other
// consumers of the projection are asked later (same and next timestamp)
// --------------------------------------------------------------------------

query!(ProjE);
query!(ConsA);
query!(ConsB);
query!(TopE3);

#[executor(style = qbice::ExecutionStyle::Projection)]
pub async fn proj_e_executor<C: Config>(
    &ProjE(k): &ProjE,
    engine: &TrackedEngine<C>,
) -> i64 {
    engine.query(&FwE(k)).await * 2
}

#[executor]
pub async fn cons_a_executor<C: Config>(
    &ConsA(k): &ConsA,
    engine: &TrackedEngine<C>,
) -> i64 {
    engine.query(&ProjE(k)).await + 1000
}

#[executor]
pub async fn cons_b_executor<C: Config>(
    &ConsB(k): &ConsB,
    engine: &TrackedEngine<C>,
) -> i64 {
    engine.query(&ProjE(k)).await + 2000
}

/// reads `ConsA(1)` only when the switch is on, and `ConsB(2)` always
#[executor]
pub async fn top_e3_executor<C: Config>(
    _: &TopE3,
    engine: &TrackedEngine<C>,
) -> i64 {
    let a = if engine.query(&Variable(0)).await != 0 {
        engine.query(&ConsA(1)).await
    } else {
        0
    };

    a + engine.query(&ConsB(2)).await
}

#[tokio::test]
async fn newly_read_callee_above_projection() {
    let tempdir = tempdir().unwrap();
    let mut engine = create_test_engine(&tempdir).await;

    engine.register_executor(Arc::new(FwEExecutor));
    engine.register_executor(Arc::new(ProjEExecutor));
    engine.register_executor(Arc::new(ConsAExecutor));
    engine.register_executor(Arc::new(ConsBExecutor));
    engine.register_executor(Arc::new(TopE3Executor));

    let engine = Arc::new(engine);

    set(&engine, &[(0, 0), (1, 1), (2, 1)]).await;
    {
        let tracked = engine.clone().tracked().await;
        assert_eq!(tracked.query(&TopE3(0)).await, 2002);
        assert_eq!(tracked.query(&ConsA(1)).await, 1002);
        assert_eq!(tracked.query(&ConsB(1)).await, 2002);
    }

    set(&engine, &[(0, 1), (1, 2)]).await;
    {
        let tracked = engine.clone().tracked().await;
        // `ConsA(1)` is newly read by the executor of `TopE3`
        assert_eq!(tracked.query(&TopE3(0)).await, 1004 + 2002);
        // the other consumer of the projection, same timestamp
        assert_eq!(tracked.query(&ConsB(1)).await, 2004);
    }

    // next timestamp, nothing relevant changes
    set(&engine, &[(50, 1)]).await;
    {
        let tracked = engine.clone().tracked().await;
        assert_eq!(tracked.query(&ConsB(1)).await, 2004);
        assert_eq!(tracked.query(&ConsA(1)).await, 1004);
        assert_eq!(tracked.query(&TopE3(0)).await, 1004 + 2002);
    }

    // the switch goes off and the data changes twice, then on again
    set(&engine, &[(0, 0), (1, 3)]).await;
    {
        let tracked = engine.clone().tracked().await;
        assert_eq!(tracked.query(&TopE3(0)).await, 2002);
    }
    set(&engine, &[(1, 4), (2, 3)]).await;
    {
        let tracked = engine.clone().tracked().await;
        assert_eq!(tracked.query(&TopE3(0)).await, 2006);
    }
    set(&engine, &[(0, 1)]).await;
    {
        let tracked = engine.clone().tracked().await;
        assert_eq!(tracked.query(&TopE3(0)).await, 1008 + 2006);
        assert_eq!(tracked.query(&ConsB(1)).await, 2008);
    }
}

// --------------------------------------------------------------------------
// E4: a firewall / projection / firewall / projection sandwich below a newly
// read callee; random-ish history against the closed form
// --------------------------------------------------------------------------

query!(ProjA);
query!(FwB);
query!(ProjC);
query!(ConsC);
query!(TopE4);

#[executor(style = qbice::ExecutionStyle::Projection)]
pub async fn proj_a_executor<C: Config>(
    _: &ProjA,
    engine: &TrackedEngine<C>,
) -> i64 {
    engine.query(&FwE(1)).await * 2
}

#[executor(style = qbice::ExecutionStyle::Firewall)]
pub async fn fw_b_executor<C: Config>(
    _: &FwB,
    engine: &TrackedEngine<C>,
) -> i64 {
    engine.query(&ProjA(0)).await + engine.query(&Variable(2)).await
}

#[executor(style = qbice::ExecutionStyle::Projection)]
pub async fn proj_c_executor<C: Config>(
    _: &ProjC,
    engine: &TrackedEngine<C>,
) -> i64 {
    engine.query(&FwB(0)).await + engine.query(&FwE(1)).await
}

#[executor]
pub async fn cons_c_executor<C: Config>(
    _: &ConsC,
    engine: &TrackedEngine<C>,
) -> i64 {
    engine.query(&ProjC(0)).await + 1000
}

#[executor]
pub async fn top_e4_executor<C: Config>(
    _: &TopE4,
    engine: &TrackedEngine<C>,
) -> i64 {
    match engine.query(&Variable(0)).await {
        0 => 0,
        1 => engine.query(&ConsC(0)).await,
        2 => engine.query(&ProjC(0)).await,
        3 => engine.query(&FwB(0)).await,
        _ => engine.query(&ProjA(0)).await,
    }
}

#[tokio::test(flavor = "multi_thread", worker_threads = 4)]
async fn newly_read_callee_above_sandwich() {
    let tempdir = tempdir().unwrap();
    let mut engine = create_test_engine(&tempdir).await;

    engine.register_executor(Arc::new(FwEExecutor));
    engine.register_executor(Arc::new(ProjAExecutor));
    engine.register_executor(Arc::new(FwBExecutor));
    engine.register_executor(Arc::new(ProjCExecutor));
    engine.register_executor(Arc::new(ConsCExecutor));
    engine.register_executor(Arc::new(TopE4Executor));

    let engine = Arc::new(engine);

    let mut state = 0x9E37_79B9_7F4A_7C15_u64;
    let mut next = move |n: u64| {
        state ^= state << 13;
        state ^= state >> 7;
        state ^= state << 17;
        state % n
    };

    let (mut v0, mut v1, mut v2) = (1_i64, 1_i64, 1_i64);

    for round in 0..120 {
        set(&engine, &[(0, v0), (1, v1), (2, v2)]).await;

        let proj_a = v1 * 2;
        let fw_b = proj_a + v2;
        let proj_c = fw_b + v1;
        let expected = match v0 {
            0 => 0,
            1 => proj_c + 1000,
            2 => proj_c,
            3 => fw_b,
            _ => proj_a,
        };

        let tracked = engine.clone().tracked().await;
        assert_eq!(
            tracked.query(&TopE4(0)).await,
            expected,
            "round {round}: v0 = {v0}, v1 = {v1}, v2 = {v2}"
        );

        // now and then another consumer is asked in the same timestamp
        if next(3) == 0 {
            assert_eq!(
                tracked.query(&ConsC(0)).await,
                proj_c + 1000,
                "round {round} (ConsC): v0 = {v0}, v1 = {v1}, v2 = {v2}"
            );
        }
        drop(tracked);

        if next(2) == 0 {
            v0 = i64::try_from(next(5)).unwrap();
        }
        if next(2) == 0 {
            v1 = i64::try_from(next(4)).unwrap();
        }
        if next(3) == 0 {
            v2 = i64::try_from(next(4)).unwrap();
        }
    }
}

//! Crude cost probe for the settled check added by the K1 repair (not a
//! regression test): many queries above the same large set of firewalls.
#![allow(missing_docs)]

use std::{sync::Arc, time::Instant};

use qbice::{
    Config, Decode, Encode, Query, StableHash, TrackedEngine, executor,
};
use qbice_integration_test::{Variable, create_test_engine};
use tempfile::tempdir;

const FIREWALLS: u64 = 64;
const MIDS: u64 = 1500;

macro_rules! query {
    ($name:ident) => {
        #[derive(
            Debug,
            Clone,
            Copy,
            PartialEq,
            Eq,
            PartialOrd,
            Ord,
            Hash,
            Encode,
            Decode,
            StableHash,
            Query,
        )]
        #[value(i64)]
        pub struct $name(u64);
    };
}

query!(FwP);
query!(MidP);
query!(TopP);

#[executor(style = qbice::ExecutionStyle::Firewall)]
pub async fn fw_p_executor<C: Config>(
    &FwP(k): &FwP,
    engine: &TrackedEngine<C>,
) -> i64 {
    engine.query(&Variable(k)).await
}

#[executor]
pub async fn mid_p_executor<C: Config>(
    &MidP(i): &MidP,
    engine: &TrackedEngine<C>,
) -> i64 {
    let mut sum = i64::try_from(i).unwrap();
    for k in 0..FIREWALLS {
        sum += engine.query(&FwP(k)).await;
    }
    sum
}

#[executor]
pub async fn top_p_executor<C: Config>(
    _: &TopP,
    engine: &TrackedEngine<C>,
) -> i64 {
    let mut sum = 0;
    for i in 0..MIDS {
        sum += engine.query(&MidP(i)).await;
    }
    sum
}

#[tokio::test(flavor = "multi_thread", worker_threads = 4)]
async fn probe() {
    let tempdir = tempdir().unwrap();
    let mut engine = create_test_engine(&tempdir).await;

    engine.register_executor(Arc::new(FwPExecutor));
    engine.register_executor(Arc::new(MidPExecutor));
    engine.register_executor(Arc::new(TopPExecutor));

    let engine = Arc::new(engine);

    {
        let mut s = engine.input_session().await;
        for k in 0..FIREWALLS {
            s.set_input(Variable(k), 1).await;
        }
        s.set_input(Variable(10_000), 0).await;
        s.commit().await;
    }

    let base: i64 = (0..MIDS).map(|i| i64::try_from(i).unwrap()).sum::<i64>()
        + i64::try_from(MIDS * FIREWALLS).unwrap();

    let start = Instant::now();
    {
        let tracked = engine.clone().tracked().await;
        assert_eq!(tracked.query(&TopP(0)).await, base);
    }
    eprintln!("PROBE initial: {:?}", start.elapsed());

    for round in 1..=5_i64 {
        // one firewall changes: every MidP is re-executed
        {
            let mut s = engine.input_session().await;
            s.set_input(Variable(0), 1 + round).await;
            s.commit().await;
        }
        let start = Instant::now();
        {
            let tracked = engine.clone().tracked().await;
            assert_eq!(
                tracked.query(&TopP(0)).await,
                base + round * i64::try_from(MIDS).unwrap()
            );
        }
        eprintln!("PROBE firewall changed: {:?}", start.elapsed());

        // the input changes, the firewall does not: every MidP edge of TopP
        // stays clean, nothing but the firewall is repaired
        {
            let mut s = engine.input_session().await;
            s.set_input(Variable(10_000), round).await;
            s.commit().await;
        }
        let start = Instant::now();
        {
            let tracked = engine.clone().tracked().await;
            assert_eq!(
                tracked.query(&TopP(0)).await,
                base + round * i64::try_from(MIDS).unwrap()
            );
        }
        eprintln!("PROBE unrelated change: {:?}", start.elapsed());
    }
}

//! Randomised differential check written together with the repair of K1: a
//! graph whose dependencies CHANGE with the inputs (branches taken for the
//! first time, dropped and resumed dependencies, never computed queries above
//! old ones), with firewalls, firewalls above firewalls and projections.
//! Every completed query is compared with the from-scratch value.
//!
//! The projections have static dependencies on purpose: a projection that
//! starts to read another firewall without changing its value exposes another
//! defect (see `zz_k1_side.rs`), which this repair does not address.
//!
//! Environment: `FIX_DYN_SEEDS` (default 30), `FIX_DYN_FIRST` (default 1),
//! `FIX_DYN_STEPS` (default 60), `FIX_DYN_DROP=1` (some queries are dropped
//! early, followed by a pause of `FIX_DYN_GRACE_MS`, default 30),
//! `FIX_DYN_WIDTH` (a round asks for 1..=WIDTH nodes concurrently, default 3),
//! `FIX_DYN_SEQ=1` (the nodes of a round are asked for one after the other).
//!
//! NOTE: with concurrent rounds this test has failed once in about 600
//! histories with a stale value that the K1 repair has no part in (a dirty
//! mark that was never made: see REPORT.md, the known key-of-set load/write
//! race of the backward edge sets is the suspect). `FIX_DYN_SEQ=1` avoids it.
#![allow(missing_docs)]

use std::{
    sync::{
        Arc,
        atomic::{AtomicUsize, Ordering},
    },
    time::Duration,
};

use qbice::{
    Decode, Encode, Executor, Identifiable, Query, StableHash, TrackedEngine,
    config::Config,
};
use qbice_integration_test::{Variable, create_test_engine};
use tempfile::tempdir;

macro_rules! query {
    ($name:ident, $ex:ident) => {
        #[derive(
            Debug,
            Clone,
            Copy,
            PartialEq,
            Eq,
            PartialOrd,
            Ord,
            Hash,
            StableHash,
            Identifiable,
            Encode,
            Decode,
        )]
        pub struct $name(pub u64);

        impl Query for $name {
            type Value = i64;
        }

        #[derive(Debug, Clone)]
        pub struct $ex(pub Arc<AtomicUsize>);
    };
}

query!(FwA, FwAEx);
query!(Proj, ProjEx);
query!(ProjSum, ProjSumEx);
query!(Mid, MidEx);
query!(Cons, ConsEx);
query!(FwOuter, FwOuterEx);
query!(FwDyn, FwDynEx);
query!(AboveDyn, AboveDynEx);
query!(Top, TopEx);
query!(Top2, Top2Ex);
query!(Fresh, FreshEx);

fn idx(x: i64, n: i64) -> u64 { u64::try_from(x.rem_euclid(n)).unwrap() }

// inputs: Variable(0..3) data, Variable(3) selector of FwDyn,
// Variable(4) switch of Top, Variable(5) index used by Top

impl<C: Config> Executor<FwA, C> for FwAEx {
    async fn execute(&self, &FwA(k): &FwA, e: &TrackedEngine<C>) -> i64 {
        self.0.fetch_add(1, Ordering::SeqCst);
        e.query(&Variable(k)).await
    }

    fn execution_style() -> qbice::ExecutionStyle {
        qbice::ExecutionStyle::Firewall
    }
}

impl<C: Config> Executor<Proj, C> for ProjEx {
    async fn execute(&self, &Proj(k): &Proj, e: &TrackedEngine<C>) -> i64 {
        self.0.fetch_add(1, Ordering::SeqCst);
        e.query(&FwA(k)).await * 2
    }

    fn execution_style() -> qbice::ExecutionStyle {
        qbice::ExecutionStyle::Projection
    }
}

impl<C: Config> Executor<ProjSum, C> for ProjSumEx {
    async fn execute(&self, _: &ProjSum, e: &TrackedEngine<C>) -> i64 {
        self.0.fetch_add(1, Ordering::SeqCst);
        e.query(&Proj(0)).await + e.query(&Proj(1)).await
    }

    fn execution_style() -> qbice::ExecutionStyle {
        qbice::ExecutionStyle::Projection
    }
}

impl<C: Config> Executor<Mid, C> for MidEx {
    async fn execute(&self, &Mid(k): &Mid, e: &TrackedEngine<C>) -> i64 {
        self.0.fetch_add(1, Ordering::SeqCst);
        e.query(&FwA(k)).await + 100
    }
}

impl<C: Config> Executor<Cons, C> for ConsEx {
    async fn execute(&self, &Cons(k): &Cons, e: &TrackedEngine<C>) -> i64 {
        self.0.fetch_add(1, Ordering::SeqCst);
        e.query(&Proj(k)).await + 1000
    }
}

impl<C: Config> Executor<FwOuter, C> for FwOuterEx {
    async fn execute(&self, &FwOuter(k): &FwOuter, e: &TrackedEngine<C>) -> i64 {
        self.0.fetch_add(1, Ordering::SeqCst);
        e.query(&Mid(k)).await + e.query(&Cons(k)).await
    }

    fn execution_style() -> qbice::ExecutionStyle {
        qbice::ExecutionStyle::Firewall
    }
}

impl<C: Config> Executor<FwDyn, C> for FwDynEx {
    async fn execute(&self, _: &FwDyn, e: &TrackedEngine<C>) -> i64 {
        self.0.fetch_add(1, Ordering::SeqCst);
        let s = e.query(&Variable(3)).await;
        e.query(&Mid(idx(s, 3))).await
    }

    fn execution_style() -> qbice::ExecutionStyle {
        qbice::ExecutionStyle::Firewall
    }
}

impl<C: Config> Executor<AboveDyn, C> for AboveDynEx {
    async fn execute(&self, _: &AboveDyn, e: &TrackedEngine<C>) -> i64 {
        self.0.fetch_add(1, Ordering::SeqCst);
        e.query(&FwDyn(0)).await + 1
    }
}

impl<C: Config> Executor<Top, C> for TopEx {
    async fn execute(&self, _: &Top, e: &TrackedEngine<C>) -> i64 {
        self.0.fetch_add(1, Ordering::SeqCst);
        let t = e.query(&Variable(4)).await;

        match idx(t, 7) {
            0 => 0,
            1 => {
                let k = idx(e.query(&Variable(5)).await, 3);
                e.query(&Mid(k)).await
            }
            2 => {
                let k = idx(e.query(&Variable(5)).await, 3);
                e.query(&Cons(k)).await
            }
            3 => {
                let k = idx(e.query(&Variable(5)).await, 3);
                e.query(&FwOuter(k)).await
            }
            4 => e.query(&ProjSum(0)).await,
            5 => e.query(&AboveDyn(0)).await,
            _ => {
                e.query(&Mid(0)).await
                    + e.query(&Cons(1)).await
                    + e.query(&FwOuter(2)).await
            }
        }
    }
}

impl<C: Config> Executor<Top2, C> for Top2Ex {
    async fn execute(&self, _: &Top2, e: &TrackedEngine<C>) -> i64 {
        self.0.fetch_add(1, Ordering::SeqCst);
        let top = e.query(&Top(0)).await;
        let t = e.query(&Variable(4)).await;

        top + if t.rem_euclid(2) == 0 {
            e.query(&Cons(0)).await
        } else {
            e.query(&Mid(1)).await
        }
    }
}

impl<C: Config> Executor<Fresh, C> for FreshEx {
    async fn execute(&self, &Fresh(n): &Fresh, e: &TrackedEngine<C>) -> i64 {
        self.0.fetch_add(1, Ordering::SeqCst);

        match n % 4 {
            0 => e.query(&Mid(n % 3)).await,
            1 => e.query(&Cons(n % 3)).await,
            2 => e.query(&Top2(0)).await,
            _ => e.query(&FwOuter(n % 3)).await + e.query(&AboveDyn(0)).await,
        }
    }
}

#[derive(Debug, Clone, Copy)]
enum Node {
    FwA(u64),
    Proj(u64),
    ProjSum,
    Mid(u64),
    Cons(u64),
    FwOuter(u64),
    FwDyn,
    AboveDyn,
    Top,
    Top2,
    Fresh(u64),
}

fn model(node: Node, v: &[i64; 6]) -> i64 {
    let var = |k: u64| v[usize::try_from(k).unwrap()];

    match node {
        Node::FwA(k) => var(k),
        Node::Proj(k) => var(k) * 2,
        Node::ProjSum => {
            model(Node::Proj(0), v) + model(Node::Proj(1), v)
        }
        Node::Mid(k) => var(k) + 100,
        Node::Cons(k) => var(k) * 2 + 1000,
        Node::FwOuter(k) => model(Node::Mid(k), v) + model(Node::Cons(k), v),
        Node::FwDyn => model(Node::Mid(idx(v[3], 3)), v),
        Node::AboveDyn => model(Node::FwDyn, v) + 1,
        Node::Top => match idx(v[4], 7) {
            0 => 0,
            1 => model(Node::Mid(idx(v[5], 3)), v),
            2 => model(Node::Cons(idx(v[5], 3)), v),
            3 => model(Node::FwOuter(idx(v[5], 3)), v),
            4 => model(Node::ProjSum, v),
            5 => model(Node::AboveDyn, v),
            _ => {
                model(Node::Mid(0), v)
                    + model(Node::Cons(1), v)
                    + model(Node::FwOuter(2), v)
            }
        },
        Node::Top2 => {
            model(Node::Top, v)
                + if v[4].rem_euclid(2) == 0 {
                    model(Node::Cons(0), v)
                } else {
                    model(Node::Mid(1), v)
                }
        }
        Node::Fresh(n) => match n % 4 {
            0 => model(Node::Mid(n % 3), v),
            1 => model(Node::Cons(n % 3), v),
            2 => model(Node::Top2, v),
            _ => model(Node::FwOuter(n % 3), v) + model(Node::AboveDyn, v),
        },
    }
}

async fn ask<C: Config>(t: &TrackedEngine<C>, node: Node) -> i64 {
    match node {
        Node::FwA(k) => t.query(&FwA(k)).await,
        Node::Proj(k) => t.query(&Proj(k)).await,
        Node::ProjSum => t.query(&ProjSum(0)).await,
        Node::Mid(k) => t.query(&Mid(k)).await,
        Node::Cons(k) => t.query(&Cons(k)).await,
        Node::FwOuter(k) => t.query(&FwOuter(k)).await,
        Node::FwDyn => t.query(&FwDyn(0)).await,
        Node::AboveDyn => t.query(&AboveDyn(0)).await,
        Node::Top => t.query(&Top(0)).await,
        Node::Top2 => t.query(&Top2(0)).await,
        Node::Fresh(n) => t.query(&Fresh(n)).await,
    }
}

struct Rng(u64);

impl Rng {
    fn next(&mut self) -> u64 {
        self.0 ^= self.0 << 13;
        self.0 ^= self.0 >> 7;
        self.0 ^= self.0 << 17;
        self.0
    }

    fn below(&mut self, n: u64) -> u64 { self.next() % n }
}

fn random_node(rng: &mut Rng, fresh: &mut u64) -> Node {
    match rng.below(16) {
        0 => Node::FwA(rng.below(3)),
        1 => Node::Proj(rng.below(3)),
        2 => Node::ProjSum,
        3 => Node::Mid(rng.below(3)),
        4 => Node::Cons(rng.below(3)),
        5 => Node::FwOuter(rng.below(3)),
        6 => Node::FwDyn,
        7 => Node::AboveDyn,
        8..=10 => Node::Top,
        11..=13 => Node::Top2,
        _ => {
            *fresh += 1;
            Node::Fresh(*fresh)
        }
    }
}

fn env(name: &str, default: u64) -> u64 {
    std::env::var(name).ok().and_then(|x| x.parse().ok()).unwrap_or(default)
}

#[allow(clippy::too_many_lines)]
async fn run_history(seed: u64, steps: u64) {
    let tempdir = tempdir().unwrap();
    let mut engine = create_test_engine(&tempdir).await;

    let count = Arc::new(AtomicUsize::new(0));

    engine.register_executor(Arc::new(FwAEx(count.clone())));
    engine.register_executor(Arc::new(ProjEx(count.clone())));
    engine.register_executor(Arc::new(ProjSumEx(count.clone())));
    engine.register_executor(Arc::new(MidEx(count.clone())));
    engine.register_executor(Arc::new(ConsEx(count.clone())));
    engine.register_executor(Arc::new(FwOuterEx(count.clone())));
    engine.register_executor(Arc::new(FwDynEx(count.clone())));
    engine.register_executor(Arc::new(AboveDynEx(count.clone())));
    engine.register_executor(Arc::new(TopEx(count.clone())));
    engine.register_executor(Arc::new(Top2Ex(count.clone())));
    engine.register_executor(Arc::new(FreshEx(count.clone())));

    let engine = Arc::new(engine);
    let mut rng = Rng(seed.wrapping_mul(0x9E37_79B9_7F4A_7C15) | 1);

    let drop_some = std::env::var("FIX_DYN_DROP").is_ok();
    let sequential = std::env::var("FIX_DYN_SEQ").is_ok();
    let width = env("FIX_DYN_WIDTH", 3);
    let grace_ms = env("FIX_DYN_GRACE_MS", 30);

    let mut v = [1_i64; 6];
    let mut fresh = seed * 1_000_000;
    let mut log: Vec<String> = Vec::new();

    {
        let mut s = engine.input_session().await;
        for (k, x) in v.iter().enumerate() {
            s.set_input(Variable(k as u64), *x).await;
        }
        s.commit().await;
    }

    for step in 0..steps {
        // an input session: each input changes with probability 1/3
        {
            let mut s = engine.input_session().await;
            let mut what = Vec::new();

            if rng.below(8) != 0 {
                for k in 0..6_usize {
                    if rng.below(3) == 0 {
                        v[k] = i64::try_from(rng.below(8)).unwrap();
                        s.set_input(Variable(k as u64), v[k]).await;
                        what.push(format!("v{k} = {}", v[k]));
                    }
                }
            }

            s.commit().await;
            log.push(format!("{step}: session [{}]", what.join(", ")));
        }

        // a few rounds of queries; a round is one tracked engine that is
        // asked for one to three nodes concurrently
        for _ in 0..rng.below(3) {
            let tracked = engine.clone().tracked().await;
            let nodes = (0..=rng.below(width.max(1)))
                .map(|_| random_node(&mut rng, &mut fresh))
                .collect::<Vec<_>>();

            if drop_some && rng.below(4) == 0 {
                let micros = rng.below(2500);
                let node = nodes[0];
                let result = tokio::time::timeout(
                    Duration::from_micros(micros),
                    ask(&tracked, node),
                )
                .await;

                log.push(format!(
                    "{step}: query {node:?} dropped after {micros}us -> \
                     {result:?}"
                ));

                if grace_ms > 0 {
                    tokio::time::sleep(Duration::from_millis(grace_ms)).await;
                }

                if let Ok(value) = result {
                    assert_eq!(
                        value,
                        model(node, &v),
                        "seed {seed}, {node:?}, v = {v:?}\n{}",
                        log.join("\n")
                    );
                }

                continue;
            }

            let mut values = Vec::new();

            if sequential {
                for node in nodes.iter().copied() {
                    values.push(ask(&tracked, node).await);
                }
            } else {
                let mut handles = Vec::new();
                for node in nodes.iter().copied() {
                    let tracked = tracked.clone();
                    handles.push(tokio::spawn(async move {
                        ask(&tracked, node).await
                    }));
                }

                for handle in handles {
                    values.push(handle.await.unwrap());
                }
            }

            log.push(format!("{step}: queries {nodes:?} -> {values:?}"));

            for (node, value) in nodes.iter().zip(&values) {
                assert_eq!(
                    *value,
                    model(*node, &v),
                    "seed {seed}, {node:?}, v = {v:?}\n{}",
                    log.join("\n")
                );
            }
        }

        // now and then: everything that has static identity is asked for,
        // then a session that changes nothing must not execute anything
        if step % 10 == 9 {
            let all = [
                Node::Top2,
                Node::Top,
                Node::AboveDyn,
                Node::FwDyn,
                Node::FwOuter(0),
                Node::FwOuter(1),
                Node::FwOuter(2),
                Node::Cons(0),
                Node::Cons(1),
                Node::Cons(2),
                Node::Mid(0),
                Node::Mid(1),
                Node::Mid(2),
                Node::ProjSum,
                Node::Proj(0),
                Node::Proj(1),
                Node::Proj(2),
                Node::FwA(0),
                Node::FwA(1),
                Node::FwA(2),
            ];

            {
                let tracked = engine.clone().tracked().await;
                for node in all {
                    assert_eq!(
                        ask(&tracked, node).await,
                        model(node, &v),
                        "seed {seed}, settle {node:?}, v = {v:?}\n{}",
                        log.join("\n")
                    );
                }
            }
            log.push(format!("{step}: settled"));

            let before = count.load(Ordering::SeqCst);
            {
                let s = engine.input_session().await;
                s.commit().await;
            }
            {
                let tracked = engine.clone().tracked().await;
                for node in all {
                    assert_eq!(ask(&tracked, node).await, model(node, &v));
                }
            }
            assert_eq!(
                count.load(Ordering::SeqCst),
                before,
                "seed {seed}: an executor ran after a session that changed \
                 nothing\n{}",
                log.join("\n")
            );
        }
    }
}

#[tokio::test(flavor = "multi_thread", worker_threads = 4)]
async fn random_dynamic_histories_match_from_scratch_values() {
    let seeds = env("FIX_DYN_SEEDS", 30);
    let first = env("FIX_DYN_FIRST", 1);
    let steps = env("FIX_DYN_STEPS", 60);

    for seed in first..=seeds {
        run_history(seed, steps).await;
    }
}

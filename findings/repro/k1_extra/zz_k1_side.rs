//! Side finding made while repairing K1 (NOT repaired by it): the recorded
//! set of firewalls of a query above a projection goes stale when the
//! projection starts to read another firewall without changing its value.
#![allow(missing_docs)]

use std::sync::Arc;

use qbice::{
    Config, Decode, Encode, Query, StableHash, TrackedEngine, executor,
};
use qbice_integration_test::{Variable, create_test_engine};
use tempfile::tempdir;

macro_rules! query {
    ($name:ident) => {
        #[derive(
            Debug,
            Clone,
            Copy,
            PartialEq,
            Eq,
            PartialOrd,
            Ord,
            Hash,
            Encode,
            Decode,
            StableHash,
            Query,
        )]
        #[value(i64)]
        pub struct $name(u64);
    };
}

query!(FwS);
query!(ProjSel);
query!(AboveSel);

#[executor(style = qbice::ExecutionStyle::Firewall)]
pub async fn fw_s_executor<C: Config>(
    &FwS(k): &FwS,
    engine: &TrackedEngine<C>,
) -> i64 {
    engine.query(&Variable(k)).await
}

#[executor(style = qbice::ExecutionStyle::Projection)]
pub async fn proj_sel_executor<C: Config>(
    _: &ProjSel,
    engine: &TrackedEngine<C>,
) -> i64 {
    let s = engine.query(&FwS(100)).await;
    engine.query(&FwS(u64::try_from(s).unwrap())).await
}

#[executor]
pub async fn above_sel_executor<C: Config>(
    _: &AboveSel,
    engine: &TrackedEngine<C>,
) -> i64 {
    engine.query(&ProjSel(0)).await + 1000
}

#[tokio::test]
async fn firewall_set_above_projection_goes_stale() {
    let tempdir = tempdir().unwrap();
    let mut engine = create_test_engine(&tempdir).await;

    engine.register_executor(Arc::new(FwSExecutor));
    engine.register_executor(Arc::new(ProjSelExecutor));
    engine.register_executor(Arc::new(AboveSelExecutor));

    let engine = Arc::new(engine);

    for (sel, v1, v2, expected) in
        [(1, 5, 5, 1005), (2, 5, 5, 1005), (2, 5, 7, 1007)]
    {
        {
            let mut s = engine.input_session().await;
            s.set_input(Variable(100), sel).await;
            s.set_input(Variable(1), v1).await;
            s.set_input(Variable(2), v2).await;
            s.commit().await;
        }

        let tracked = engine.clone().tracked().await;
        assert_eq!(
            tracked.query(&AboveSel(0)).await,
            expected,
            "sel = {sel}, v1 = {v1}, v2 = {v2}"
        );
    }
}

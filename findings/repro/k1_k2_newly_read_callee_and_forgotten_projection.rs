#![allow(missing_docs)]

use std::sync::Arc;

use qbice::{
    Config, Decode, Encode, Query, StableHash, TrackedEngine, executor,
};
use qbice_integration_test::{Variable, create_test_engine};
use tempfile::tempdir;

#[derive(
    Debug, Clone, Copy, PartialEq, Eq, PartialOrd, Ord, Hash, Encode, Decode,
    StableHash, Query,
)]
#[value(i64)]
pub struct Fw(u64);

#[executor(style = qbice::ExecutionStyle::Firewall)]
pub async fn fw_executor<C: Config>(
    &Fw(k): &Fw,
    engine: &TrackedEngine<C>,
) -> i64 {
    engine.query(&Variable(k)).await
}

#[derive(
    Debug, Clone, Copy, PartialEq, Eq, PartialOrd, Ord, Hash, Encode, Decode,
    StableHash, Query,
)]
#[value(i64)]
pub struct Mid(u64);

#[executor]
pub async fn mid_executor<C: Config>(
    &Mid(k): &Mid,
    engine: &TrackedEngine<C>,
) -> i64 {
    engine.query(&Fw(k)).await + 100
}

#[derive(
    Debug, Clone, Copy, PartialEq, Eq, PartialOrd, Ord, Hash, Encode, Decode,
    StableHash, Query,
)]
#[value(i64)]
pub struct Top;

#[executor]
pub async fn top_executor<C: Config>(
    _: &Top,
    engine: &TrackedEngine<C>,
) -> i64 {
    // Variable(0) is the switch, Variable(1) the data
    if engine.query(&Variable(0)).await != 0 {
        engine.query(&Mid(1)).await
    } else {
        0
    }
}

#[tokio::test]
async fn newly_read_stale_callee_above_firewall() {
    let tempdir = tempdir().unwrap();
    let mut engine = create_test_engine(&tempdir).await;

    engine.register_executor(Arc::new(FwExecutor));
    engine.register_executor(Arc::new(MidExecutor));
    engine.register_executor(Arc::new(TopExecutor));

    let engine = Arc::new(engine);

    {
        let mut s = engine.input_session().await;
        s.set_input(Variable(0), 0).await;
        s.set_input(Variable(1), 1).await;
        s.commit().await;
    }

    {
        let tracked = engine.clone().tracked().await;
        assert_eq!(tracked.query(&Top).await, 0);
        assert_eq!(tracked.query(&Mid(1)).await, 101);
    }

    {
        let mut s = engine.input_session().await;
        s.set_input(Variable(0), 1).await;
        s.set_input(Variable(1), 2).await;
        s.commit().await;
    }

    {
        let tracked = engine.clone().tracked().await;
        assert_eq!(tracked.query(&Top).await, 102);
    }
}

/// Same defect with a single top-level query in the whole history: `Top`
/// reads `Mid(1)`, stops reading it, and reads it again after the input below
/// the firewall has changed.
#[tokio::test]
async fn dropped_and_resumed_dependency_above_firewall() {
    let tempdir = tempdir().unwrap();
    let mut engine = create_test_engine(&tempdir).await;

    engine.register_executor(Arc::new(FwExecutor));
    engine.register_executor(Arc::new(MidExecutor));
    engine.register_executor(Arc::new(TopExecutor));

    let engine = Arc::new(engine);

    // (switch, data, from-scratch value of `Top`)
    for (switch, data, expected) in
        [(1, 1, 101), (0, 1, 0), (1, 2, 102), (1, 3, 103)]
    {
        {
            let mut s = engine.input_session().await;
            s.set_input(Variable(0), switch).await;
            s.set_input(Variable(1), data).await;
            s.commit().await;
        }

        let tracked = engine.clone().tracked().await;
        assert_eq!(
            tracked.query(&Top).await,
            expected,
            "switch = {switch}, data = {data}"
        );
    }
}

// ---------------------------------------------------------------------------
// Side finding 2: a backward projection that was interrupted by a cancelled
// query is never resumed once the timestamp has moved on.
// ---------------------------------------------------------------------------

use std::sync::atomic::{AtomicBool, Ordering};

#[derive(
    Debug, Clone, Copy, PartialEq, Eq, PartialOrd, Ord, Hash, Encode, Decode,
    StableHash, Query,
)]
#[value(i64)]
pub struct Proj(u64);

#[derive(Debug, Default)]
pub struct ProjExecutor {
    pub stuck: AtomicBool,
}

impl<C: Config> qbice::executor::Executor<Proj, C> for ProjExecutor {
    async fn execute(&self, &Proj(k): &Proj, engine: &TrackedEngine<C>) -> i64 {
        while self.stuck.load(Ordering::SeqCst) {
            tokio::task::yield_now().await;
        }

        engine.query(&Fw(k)).await * 2
    }

    fn execution_style() -> qbice::ExecutionStyle {
        qbice::ExecutionStyle::Projection
    }
}

#[derive(
    Debug, Clone, Copy, PartialEq, Eq, PartialOrd, Ord, Hash, Encode, Decode,
    StableHash, Query,
)]
#[value(i64)]
pub struct Consumer(u64);

#[executor]
pub async fn consumer_executor<C: Config>(
    &Consumer(k): &Consumer,
    engine: &TrackedEngine<C>,
) -> i64 {
    engine.query(&Proj(k)).await + 1000
}

#[tokio::test(flavor = "multi_thread", worker_threads = 2)]
async fn cancelled_backward_projection_is_forgotten_after_next_session() {
    let tempdir = tempdir().unwrap();
    let mut engine = create_test_engine(&tempdir).await;

    let proj = Arc::new(ProjExecutor::default());

    engine.register_executor(Arc::new(FwExecutor));
    engine.register_executor(proj.clone());
    engine.register_executor(Arc::new(ConsumerExecutor));

    let engine = Arc::new(engine);

    {
        let mut s = engine.input_session().await;
        s.set_input(Variable(1), 1).await;
        s.set_input(Variable(7), 0).await;
        s.commit().await;
    }
    {
        let tracked = engine.clone().tracked().await;
        assert_eq!(tracked.query(&Consumer(1)).await, 1002);
    }

    {
        let mut s = engine.input_session().await;
        s.set_input(Variable(1), 2).await;
        s.commit().await;
    }

    // the user gives up while the projection is being re-executed by the
    // backward projection propagation of `Fw(1)`
    proj.stuck.store(true, Ordering::SeqCst);
    {
        let tracked = engine.clone().tracked().await;
        tokio::select! {
            () = tokio::time::sleep(std::time::Duration::from_millis(300)) => {}
            _ = tracked.query(&Consumer(1)) => panic!("should be stuck"),
        }
    }
    // let the aborted tasks of the cancelled query really go away first
    tokio::time::sleep(std::time::Duration::from_millis(200)).await;
    proj.stuck.store(false, Ordering::SeqCst);

    // an unrelated write moves the timestamp on
    {
        let mut s = engine.input_session().await;
        s.set_input(Variable(7), 1).await;
        s.commit().await;
    }

    {
        let tracked = engine.clone().tracked().await;
        // from scratch: Variable(1) = 2 -> Fw = 2 -> Proj = 4 -> 1004
        assert_eq!(tracked.query(&Consumer(1)).await, 1004);
    }
}

//! Side findings in the UNCHANGED code (property C03 and a stale value).
//!
//! Graph: Variable(0) -> Fw (Firewall) -> Proj (Projection) -> Top (Normal)
//!
//! The pending-backward-projection marker of a firewall is only honoured when
//! the firewall is reached by a `RepairFirewall` / backward-projection caller
//! *in the same timestamp* in which the firewall changed. When the user
//! queries the firewall DIRECTLY (CallerKind::User) after an input change, the
//! firewall is recomputed, the marker is written, but the projections above it
//! are never invoked; the next input session makes the marker stale.

#![allow(missing_docs)]

use std::sync::{
    Arc,
    atomic::{AtomicUsize, Ordering},
};

use qbice::{
    Decode, Encode, Executor, Identifiable, Query, StableHash, TrackedEngine,
    config::Config,
};
use qbice_integration_test::{Variable, create_test_engine};
use tempfile::tempdir;

macro_rules! key {
    ($name:ident) => {
        #[derive(
            Debug,
            Clone,
            Copy,
            PartialEq,
            Eq,
            PartialOrd,
            Ord,
            Hash,
            StableHash,
            Identifiable,
            Encode,
            Decode,
        )]
        pub struct $name;

        impl Query for $name {
            type Value = i64;
        }
    };
}

key!(Fw);
key!(Proj);
key!(Top);

#[derive(Debug, Default)]
pub struct FwEx(pub AtomicUsize);

impl<C: Config> Executor<Fw, C> for FwEx {
    async fn execute(&self, _: &Fw, engine: &TrackedEngine<C>) -> i64 {
        self.0.fetch_add(1, Ordering::SeqCst);
        engine.query(&Variable(0)).await * 2
    }

    fn execution_style() -> qbice::ExecutionStyle {
        qbice::ExecutionStyle::Firewall
    }
}

#[derive(Debug, Default)]
pub struct ProjEx(pub AtomicUsize);

impl<C: Config> Executor<Proj, C> for ProjEx {
    async fn execute(&self, _: &Proj, engine: &TrackedEngine<C>) -> i64 {
        self.0.fetch_add(1, Ordering::SeqCst);
        engine.query(&Fw).await + 1
    }

    fn execution_style() -> qbice::ExecutionStyle {
        qbice::ExecutionStyle::Projection
    }
}

#[derive(Debug, Default)]
pub struct TopEx(pub AtomicUsize);

impl<C: Config> Executor<Top, C> for TopEx {
    async fn execute(&self, _: &Top, engine: &TrackedEngine<C>) -> i64 {
        self.0.fetch_add(1, Ordering::SeqCst);
        engine.query(&Proj).await * 10
    }
}

/// Stale value: after the firewall was queried directly, a later (unrelated)
/// session makes the marker stale and `Top` keeps returning the old value.
#[tokio::test(flavor = "multi_thread")]
async fn side_stale_value_after_direct_firewall_query() {
    let tempdir = tempdir().unwrap();
    let mut engine = create_test_engine(&tempdir).await;

    let fw = Arc::new(FwEx::default());
    let proj = Arc::new(ProjEx::default());
    let top = Arc::new(TopEx::default());
    engine.register_executor(fw.clone());
    engine.register_executor(proj.clone());
    engine.register_executor(top.clone());
    let engine = Arc::new(engine);

    {
        let mut s = engine.input_session().await;
        s.set_input(Variable(0), 1).await;
        s.set_input(Variable(1), 0).await;
        s.commit().await;
    }
    assert_eq!(engine.clone().tracked().await.query(&Top).await, 30);

    // change the input, then demand only the firewall, directly
    {
        let mut s = engine.input_session().await;
        s.set_input(Variable(0), 2).await;
        s.commit().await;
    }
    assert_eq!(engine.clone().tracked().await.query(&Fw).await, 4);

    // an unrelated session
    {
        let mut s = engine.input_session().await;
        s.set_input(Variable(1), 1).await;
        s.commit().await;
    }

    // (2 * 2 + 1) * 10
    assert_eq!(engine.clone().tracked().await.query(&Top).await, 50);
}

/// Unjustified re-execution: the firewall goes v1 -> v2 (seen only by a direct
/// user query) -> v1; the projection, whose last run read v1, is force
/// re-executed by the backward projection although nothing it read differs.
#[tokio::test(flavor = "multi_thread")]
async fn side_unjustified_projection_rerun() {
    let tempdir = tempdir().unwrap();
    let mut engine = create_test_engine(&tempdir).await;

    let fw = Arc::new(FwEx::default());
    let proj = Arc::new(ProjEx::default());
    let top = Arc::new(TopEx::default());
    engine.register_executor(fw.clone());
    engine.register_executor(proj.clone());
    engine.register_executor(top.clone());
    let engine = Arc::new(engine);

    {
        let mut s = engine.input_session().await;
        s.set_input(Variable(0), 1).await;
        s.commit().await;
    }
    assert_eq!(engine.clone().tracked().await.query(&Top).await, 30);
    assert_eq!(proj.0.load(Ordering::SeqCst), 1);

    {
        let mut s = engine.input_session().await;
        s.set_input(Variable(0), 2).await;
        s.commit().await;
    }
    assert_eq!(engine.clone().tracked().await.query(&Fw).await, 4);
    assert_eq!(proj.0.load(Ordering::SeqCst), 1);

    {
        let mut s = engine.input_session().await;
        s.set_input(Variable(0), 1).await;
        s.commit().await;
    }
    assert_eq!(engine.clone().tracked().await.query(&Top).await, 30);

    // Proj last read Fw == 2, and Fw == 2 again: no justification to re-run
    assert_eq!(proj.0.load(Ordering::SeqCst), 1, "projection re-executed");
    assert_eq!(top.0.load(Ordering::SeqCst), 1);
}

//! Extra checks written together with the repair of the "pending backward
//! projection is forgotten once the timestamp moves on" defect.
//!
//! Graph:
//!
//! ```txt
//!   Variable(0) -> FwA (Firewall) <- Coarse (Projection: FwA / 100)
//!                                       ^
//!                                       +-- Next (Projection: Coarse + 1) <- Top
//!   Variable(1) -> FwB (Firewall)
//!                    ^
//!   FwA <- Sum (Projection: FwA + FwB) <- TopSum
//! ```

#![allow(missing_docs)]

use std::{
    sync::{
        Arc,
        atomic::{AtomicBool, AtomicUsize, Ordering},
    },
    time::Duration,
};

use qbice::{
    Decode, Encode, Executor, Identifiable, Query, StableHash, TrackedEngine,
    config::Config,
};
use qbice_integration_test::{Variable, create_test_engine};
use tempfile::tempdir;

macro_rules! key {
    ($name:ident) => {
        #[derive(
            Debug,
            Clone,
            Copy,
            PartialEq,
            Eq,
            PartialOrd,
            Ord,
            Hash,
            StableHash,
            Identifiable,
            Encode,
            Decode,
        )]
        pub struct $name;

        impl Query for $name {
            type Value = i64;
        }
    };
}

key!(FwA);
key!(FwB);
key!(Coarse);
key!(Next);
key!(Sum);
key!(Top);
key!(TopSum);

#[derive(Debug, Default)]
pub struct FwAEx(pub AtomicUsize);

impl<C: Config> Executor<FwA, C> for FwAEx {
    async fn execute(&self, _: &FwA, engine: &TrackedEngine<C>) -> i64 {
        self.0.fetch_add(1, Ordering::SeqCst);
        engine.query(&Variable(0)).await * 10
    }

    fn execution_style() -> qbice::ExecutionStyle {
        qbice::ExecutionStyle::Firewall
    }
}

#[derive(Debug, Default)]
pub struct FwBEx(pub AtomicUsize);

impl<C: Config> Executor<FwB, C> for FwBEx {
    async fn execute(&self, _: &FwB, engine: &TrackedEngine<C>) -> i64 {
        self.0.fetch_add(1, Ordering::SeqCst);
        engine.query(&Variable(1)).await * 10
    }

    fn execution_style() -> qbice::ExecutionStyle {
        qbice::ExecutionStyle::Firewall
    }
}

#[derive(Debug, Default)]
pub struct CoarseEx(pub AtomicUsize);

impl<C: Config> Executor<Coarse, C> for CoarseEx {
    async fn execute(&self, _: &Coarse, engine: &TrackedEngine<C>) -> i64 {
        self.0.fetch_add(1, Ordering::SeqCst);
        engine.query(&FwA).await / 100
    }

    fn execution_style() -> qbice::ExecutionStyle {
        qbice::ExecutionStyle::Projection
    }
}

#[derive(Debug, Default)]
pub struct NextEx {
    pub count: AtomicUsize,
    pub stuck: AtomicBool,
    pub entered: AtomicUsize,
}

impl<C: Config> Executor<Next, C> for NextEx {
    async fn execute(&self, _: &Next, engine: &TrackedEngine<C>) -> i64 {
        self.count.fetch_add(1, Ordering::SeqCst);
        let v = engine.query(&Coarse).await;

        self.entered.fetch_add(1, Ordering::SeqCst);
        while self.stuck.load(Ordering::SeqCst) {
            tokio::time::sleep(Duration::from_millis(1)).await;
        }

        v + 1
    }

    fn execution_style() -> qbice::ExecutionStyle {
        qbice::ExecutionStyle::Projection
    }
}

#[derive(Debug, Default)]
pub struct SumEx(pub AtomicUsize);

impl<C: Config> Executor<Sum, C> for SumEx {
    async fn execute(&self, _: &Sum, engine: &TrackedEngine<C>) -> i64 {
        self.0.fetch_add(1, Ordering::SeqCst);
        engine.query(&FwA).await + engine.query(&FwB).await
    }

    fn execution_style() -> qbice::ExecutionStyle {
        qbice::ExecutionStyle::Projection
    }
}

#[derive(Debug, Default)]
pub struct TopEx(pub AtomicUsize);

impl<C: Config> Executor<Top, C> for TopEx {
    async fn execute(&self, _: &Top, engine: &TrackedEngine<C>) -> i64 {
        self.0.fetch_add(1, Ordering::SeqCst);
        engine.query(&Next).await + 1000
    }
}

#[derive(Debug, Default)]
pub struct TopSumEx(pub AtomicUsize);

impl<C: Config> Executor<TopSum, C> for TopSumEx {
    async fn execute(&self, _: &TopSum, engine: &TrackedEngine<C>) -> i64 {
        self.0.fetch_add(1, Ordering::SeqCst);
        engine.query(&Sum).await + 2000
    }
}

struct Ex {
    fwa: Arc<FwAEx>,
    fwb: Arc<FwBEx>,
    coarse: Arc<CoarseEx>,
    next: Arc<NextEx>,
    sum: Arc<SumEx>,
    top: Arc<TopEx>,
    top_sum: Arc<TopSumEx>,
}

impl Ex {
    /// `[fwa, fwb, coarse, next, sum, top, top_sum]`
    fn counts(&self) -> [usize; 7] {
        [
            self.fwa.0.load(Ordering::SeqCst),
            self.fwb.0.load(Ordering::SeqCst),
            self.coarse.0.load(Ordering::SeqCst),
            self.next.count.load(Ordering::SeqCst),
            self.sum.0.load(Ordering::SeqCst),
            self.top.0.load(Ordering::SeqCst),
            self.top_sum.0.load(Ordering::SeqCst),
        ]
    }
}

async fn setup(
    tempdir: &tempfile::TempDir,
) -> (Arc<qbice::Engine<qbice_integration_test::TestingConfig>>, Ex) {
    let mut engine = create_test_engine(tempdir).await;

    let ex = Ex {
        fwa: Arc::new(FwAEx::default()),
        fwb: Arc::new(FwBEx::default()),
        coarse: Arc::new(CoarseEx::default()),
        next: Arc::new(NextEx::default()),
        sum: Arc::new(SumEx::default()),
        top: Arc::new(TopEx::default()),
        top_sum: Arc::new(TopSumEx::default()),
    };

    engine.register_executor(ex.fwa.clone());
    engine.register_executor(ex.fwb.clone());
    engine.register_executor(ex.coarse.clone());
    engine.register_executor(ex.next.clone());
    engine.register_executor(ex.sum.clone());
    engine.register_executor(ex.top.clone());
    engine.register_executor(ex.top_sum.clone());

    (Arc::new(engine), ex)
}

async fn set(
    engine: &Arc<qbice::Engine<qbice_integration_test::TestingConfig>>,
    values: &[(u64, i64)],
) {
    let mut s = engine.input_session().await;
    for (k, v) in values {
        s.set_input(Variable(*k), *v).await;
    }
    s.commit().await;
}

fn expected_top(v0: i64) -> i64 { (v0 * 10) / 100 + 1 + 1000 }
fn expected_top_sum(v0: i64, v1: i64) -> i64 { v0 * 10 + v1 * 10 + 2000 }

/// The firewall is asked directly, the timestamp moves on, then the roots are
/// asked: the values are right, only justified executions happen, and once the
/// marker has been consumed, a session that changes nothing executes nothing.
#[tokio::test(flavor = "multi_thread", worker_threads = 4)]
async fn direct_firewall_query_then_roots_minimal_work() {
    let tempdir = tempdir().unwrap();
    let (engine, ex) = setup(&tempdir).await;

    set(&engine, &[(0, 1), (1, 1), (9, 0)]).await;
    {
        let t = engine.clone().tracked().await;
        assert_eq!(t.query(&Top).await, expected_top(1));
        assert_eq!(t.query(&TopSum).await, expected_top_sum(1, 1));
    }
    assert_eq!(ex.counts(), [1, 1, 1, 1, 1, 1, 1]);

    // FwA: 10 -> 20, seen only by a direct user query
    set(&engine, &[(0, 2)]).await;
    {
        let t = engine.clone().tracked().await;
        assert_eq!(t.query(&FwA).await, 20);
    }
    assert_eq!(ex.counts(), [2, 1, 1, 1, 1, 1, 1]);

    // unrelated session
    set(&engine, &[(9, 1)]).await;
    {
        let t = engine.clone().tracked().await;
        assert_eq!(t.query(&Top).await, expected_top(2));
        assert_eq!(t.query(&TopSum).await, expected_top_sum(2, 1));
    }
    // Coarse and Sum read a changed FwA; Coarse's value (0) is unchanged, so
    // Next and Top do not run; Sum changed, so TopSum runs.
    assert_eq!(ex.counts(), [2, 1, 2, 1, 2, 1, 2]);

    // sessions that change nothing: nothing runs
    for _ in 0..2 {
        set(&engine, &[]).await;
        let t = engine.clone().tracked().await;
        assert_eq!(t.query(&Top).await, expected_top(2));
        assert_eq!(t.query(&TopSum).await, expected_top_sum(2, 1));
        drop(t);
        assert_eq!(ex.counts(), [2, 1, 2, 1, 2, 1, 2]);
    }

    // a real change again, through the ordinary path
    set(&engine, &[(0, 30), (1, 2)]).await;
    {
        let t = engine.clone().tracked().await;
        assert_eq!(t.query(&Top).await, expected_top(30));
        assert_eq!(t.query(&TopSum).await, expected_top_sum(30, 2));
    }
    assert_eq!(ex.counts(), [3, 2, 3, 2, 3, 2, 3]);
}

/// The marker is left behind twice in a row (two direct firewall queries in
/// two timestamps), and the firewall ends on the value the projections have
/// seen: nothing above the firewall may run.
#[tokio::test(flavor = "multi_thread", worker_threads = 4)]
async fn firewall_returns_to_seen_value_before_marker_is_consumed() {
    let tempdir = tempdir().unwrap();
    let (engine, ex) = setup(&tempdir).await;

    set(&engine, &[(0, 1), (1, 1), (9, 0)]).await;
    {
        let t = engine.clone().tracked().await;
        assert_eq!(t.query(&Top).await, expected_top(1));
        assert_eq!(t.query(&TopSum).await, expected_top_sum(1, 1));
    }

    set(&engine, &[(0, 2)]).await;
    assert_eq!(engine.clone().tracked().await.query(&FwA).await, 20);

    set(&engine, &[(0, 1)]).await;
    assert_eq!(engine.clone().tracked().await.query(&FwA).await, 10);

    set(&engine, &[(9, 1)]).await;
    {
        let t = engine.clone().tracked().await;
        assert_eq!(t.query(&Top).await, expected_top(1));
        assert_eq!(t.query(&TopSum).await, expected_top_sum(1, 1));
    }
    assert_eq!(ex.counts(), [3, 1, 1, 1, 1, 1, 1]);
}

/// The propagation is cancelled on the SECOND level (the projection of the
/// projection hangs), the timestamp moves on, the root is asked again.
#[tokio::test(flavor = "multi_thread", worker_threads = 4)]
async fn cancelled_on_second_level_then_session_then_query() {
    let tempdir = tempdir().unwrap();
    let (engine, ex) = setup(&tempdir).await;

    set(&engine, &[(0, 1), (1, 1), (9, 0)]).await;
    {
        let t = engine.clone().tracked().await;
        assert_eq!(t.query(&Top).await, expected_top(1));
        assert_eq!(t.query(&TopSum).await, expected_top_sum(1, 1));
    }

    // FwA: 10 -> 500, Coarse: 0 -> 5, Next hangs
    set(&engine, &[(0, 50)]).await;
    ex.next.stuck.store(true, Ordering::SeqCst);
    let entered = ex.next.entered.load(Ordering::SeqCst);
    {
        let t = engine.clone().tracked().await;
        let q = t.query(&Top);
        tokio::pin!(q);

        let deadline = tokio::time::Instant::now() + Duration::from_secs(20);
        loop {
            tokio::select! {
                v = &mut q => panic!("Next is stuck, got {v}"),
                () = tokio::time::sleep(Duration::from_millis(5)) => {}
            }
            if ex.next.entered.load(Ordering::SeqCst) > entered {
                break;
            }
            assert!(tokio::time::Instant::now() < deadline);
        }
    }
    tokio::time::sleep(Duration::from_millis(100)).await;
    ex.next.stuck.store(false, Ordering::SeqCst);

    set(&engine, &[(9, 1)]).await;
    {
        let t = engine.clone().tracked().await;
        let (a, b) = tokio::join!(t.query(&Top), t.query(&TopSum));
        assert_eq!(a, expected_top(50));
        assert_eq!(b, expected_top_sum(50, 1));
    }

    // and everything is settled: an empty session runs nothing
    let before = ex.counts();
    set(&engine, &[]).await;
    {
        let t = engine.clone().tracked().await;
        assert_eq!(t.query(&Top).await, expected_top(50));
        assert_eq!(t.query(&TopSum).await, expected_top_sum(50, 1));
    }
    assert_eq!(ex.counts(), before);
}

/// A stale marker on `FwA` and, in the timestamp in which it is consumed, a
/// change below the *other* firewall of the same projection.
#[tokio::test(flavor = "multi_thread", worker_threads = 4)]
async fn stale_marker_and_change_under_sibling_firewall() {
    let tempdir = tempdir().unwrap();
    let (engine, ex) = setup(&tempdir).await;

    set(&engine, &[(0, 1), (1, 1)]).await;
    {
        let t = engine.clone().tracked().await;
        assert_eq!(t.query(&Top).await, expected_top(1));
        assert_eq!(t.query(&TopSum).await, expected_top_sum(1, 1));
    }

    set(&engine, &[(0, 2)]).await;
    assert_eq!(engine.clone().tracked().await.query(&FwA).await, 20);

    set(&engine, &[(1, 7)]).await;
    {
        let t = engine.clone().tracked().await;
        assert_eq!(t.query(&TopSum).await, expected_top_sum(2, 7));
        assert_eq!(t.query(&Top).await, expected_top(2));
    }
    // Sum ran once more (both its callees changed), not twice
    assert_eq!(ex.counts(), [2, 2, 2, 1, 2, 1, 2]);
}

//! Randomised differential check written together with the repair of the
//! "pending backward projection is forgotten" defect.
//!
//! A fixed graph with two firewalls, a projection of one firewall, a
//! projection of both, a projection of projections and normal queries above
//! them. Every node is computed once at the start and the dependencies are
//! static, so that the other known defects (a *fresh* or *newly read* caller
//! above a firewall) cannot interfere. Then a random history of input
//! sessions (also empty ones), direct user queries of arbitrary nodes
//! (firewalls and projections included) and queries that are dropped after a
//! random delay is played; every completed query is compared with the
//! from-scratch value, and at regular intervals it is checked that a session
//! which changes nothing executes nothing.

#![allow(missing_docs)]

use std::{
    sync::{
        Arc,
        atomic::{AtomicU64, AtomicUsize, Ordering},
    },
    time::Duration,
};

use qbice::{
    Decode, Encode, Executor, Identifiable, Query, StableHash, TrackedEngine,
    config::Config,
};
use qbice_integration_test::{TestingConfig, Variable, create_test_engine};
use tempfile::tempdir;

#[derive(
    Debug,
    Clone,
    Copy,
    PartialEq,
    Eq,
    PartialOrd,
    Ord,
    Hash,
    StableHash,
    Identifiable,
    Encode,
    Decode,
)]
pub enum Node {
    FwA,
    FwB,
    P1,
    P2,
    P3,
    N1,
    N2,
    N3,
}

const ALL: [Node; 8] = [
    Node::FwA,
    Node::FwB,
    Node::P1,
    Node::P2,
    Node::P3,
    Node::N1,
    Node::N2,
    Node::N3,
];

fn model(node: Node, v0: i64, v1: i64) -> i64 {
    let fwa = v0 / 2;
    let fwb = v1 / 2;
    let p1 = fwa % 2;
    let p2 = fwa + fwb;
    let p3 = p1 * 10 + p2;
    let n1 = p1 + 100;
    let n2 = p3 + fwb * 1000;
    let n3 = n1 + n2;

    match node {
        Node::FwA => fwa,
        Node::FwB => fwb,
        Node::P1 => p1,
        Node::P2 => p2,
        Node::P3 => p3,
        Node::N1 => n1,
        Node::N2 => n2,
        Node::N3 => n3,
    }
}

macro_rules! key {
    ($name:ident) => {
        #[derive(
            Debug,
            Clone,
            Copy,
            PartialEq,
            Eq,
            PartialOrd,
            Ord,
            Hash,
            StableHash,
            Identifiable,
            Encode,
            Decode,
        )]
        pub struct $name;

        impl Query for $name {
            type Value = i64;
        }
    };
}

key!(FwA);
key!(FwB);
key!(P1);
key!(P2);
key!(P3);
key!(N1);
key!(N2);
key!(N3);

/// Shared by all executors: execution counters and a little pseudo-random
/// jitter, so that dropped queries are cut at different places.
#[derive(Debug, Default)]
pub struct Shared {
    counts: [AtomicUsize; 8],
    rng: AtomicU64,
}

impl Shared {
    fn next(&self) -> u64 {
        let mut x = self.rng.fetch_add(0x9E37_79B9_7F4A_7C15, Ordering::SeqCst);
        x ^= x >> 30;
        x = x.wrapping_mul(0xBF58_476D_1CE4_E5B9);
        x ^= x >> 27;
        x = x.wrapping_mul(0x94D0_49BB_1331_11EB);
        x ^ (x >> 31)
    }

    async fn jitter(&self) {
        let r = self.next();
        for _ in 0..(r % 4) {
            tokio::task::yield_now().await;
        }
        if r % 7 == 0 {
            tokio::time::sleep(Duration::from_millis(1)).await;
        }
    }

    fn counts(&self) -> [usize; 8] {
        std::array::from_fn(|i| self.counts[i].load(Ordering::SeqCst))
    }
}

macro_rules! executor {
    ($ex:ident, $key:ident, $idx:expr, $style:expr, |$engine:ident| $body:expr) => {
        #[derive(Debug)]
        pub struct $ex(pub Arc<Shared>);

        impl<C: Config> Executor<$key, C> for $ex {
            async fn execute(
                &self,
                _: &$key,
                $engine: &TrackedEngine<C>,
            ) -> i64 {
                self.0.counts[$idx].fetch_add(1, Ordering::SeqCst);
                self.0.jitter().await;
                let value = $body;
                self.0.jitter().await;
                value
            }

            fn execution_style() -> qbice::ExecutionStyle { $style }
        }
    };
}

executor!(FwAEx, FwA, 0, qbice::ExecutionStyle::Firewall, |e| {
    e.query(&Variable(0)).await / 2
});
executor!(FwBEx, FwB, 1, qbice::ExecutionStyle::Firewall, |e| {
    e.query(&Variable(1)).await / 2
});
executor!(P1Ex, P1, 2, qbice::ExecutionStyle::Projection, |e| {
    e.query(&FwA).await % 2
});
executor!(P2Ex, P2, 3, qbice::ExecutionStyle::Projection, |e| {
    e.query(&FwA).await + e.query(&FwB).await
});
executor!(P3Ex, P3, 4, qbice::ExecutionStyle::Projection, |e| {
    e.query(&P1).await * 10 + e.query(&P2).await
});
executor!(N1Ex, N1, 5, qbice::ExecutionStyle::Normal, |e| {
    e.query(&P1).await + 100
});
executor!(N2Ex, N2, 6, qbice::ExecutionStyle::Normal, |e| {
    e.query(&P3).await + e.query(&FwB).await * 1000
});
executor!(N3Ex, N3, 7, qbice::ExecutionStyle::Normal, |e| {
    e.query(&N1).await + e.query(&N2).await
});

async fn ask(tracked: &TrackedEngine<TestingConfig>, node: Node) -> i64 {
    match node {
        Node::FwA => tracked.query(&FwA).await,
        Node::FwB => tracked.query(&FwB).await,
        Node::P1 => tracked.query(&P1).await,
        Node::P2 => tracked.query(&P2).await,
        Node::P3 => tracked.query(&P3).await,
        Node::N1 => tracked.query(&N1).await,
        Node::N2 => tracked.query(&N2).await,
        Node::N3 => tracked.query(&N3).await,
    }
}

struct Rng(u64);

impl Rng {
    fn next(&mut self) -> u64 {
        self.0 ^= self.0 << 13;
        self.0 ^= self.0 >> 7;
        self.0 ^= self.0 << 17;
        self.0
    }

    fn below(&mut self, n: u64) -> u64 { self.next() % n }
}

async fn run_history(seed: u64, steps: usize) {
    let tempdir = tempdir().unwrap();
    let mut engine = create_test_engine(&tempdir).await;

    let shared = Arc::new(Shared::default());
    shared.rng.store(seed.wrapping_mul(0x1234_5678_9ABC_DEF1), Ordering::SeqCst);

    engine.register_executor(Arc::new(FwAEx(shared.clone())));
    engine.register_executor(Arc::new(FwBEx(shared.clone())));
    engine.register_executor(Arc::new(P1Ex(shared.clone())));
    engine.register_executor(Arc::new(P2Ex(shared.clone())));
    engine.register_executor(Arc::new(P3Ex(shared.clone())));
    engine.register_executor(Arc::new(N1Ex(shared.clone())));
    engine.register_executor(Arc::new(N2Ex(shared.clone())));
    engine.register_executor(Arc::new(N3Ex(shared.clone())));

    let engine = Arc::new(engine);
    let mut rng = Rng(seed.wrapping_mul(0x9E37_79B9_7F4A_7C15) | 1);

    let mut v0 = 1_i64;
    let mut v1 = 1_i64;

    // the history pauses for `FIX_RANDOM_GRACE_MS` (default 30) after every
    // dropped query. With `FIX_RANDOM_GRACE_MS=0` the next query races with
    // what the dropped query has left running, and this exposes ANOTHER
    // defect, which the unchanged code has as well (see REPORT.md): a stale
    // value within one timestamp.
    let grace_ms = std::env::var("FIX_RANDOM_GRACE_MS")
        .ok()
        .and_then(|x| x.parse::<u64>().ok())
        .unwrap_or(30);

    // with `FIX_RANDOM_NO_DROP=1` no query is ever dropped
    let no_drop = std::env::var("FIX_RANDOM_NO_DROP").is_ok();

    // with `FIX_RANDOM_SETTLE=1` every node is brought up to date before
    // every input session: no backward projection is ever left pending when
    // the timestamp moves on
    let settle_every = std::env::var("FIX_RANDOM_SETTLE")
        .ok()
        .and_then(|x| x.parse::<usize>().ok())
        .unwrap_or(8);
    let mut log: Vec<String> = Vec::new();

    {
        let mut s = engine.input_session().await;
        s.set_input(Variable(0), v0).await;
        s.set_input(Variable(1), v1).await;
        s.set_input(Variable(9), 0).await;
        s.commit().await;
    }
    {
        // computes every node: the dependencies are static from here on
        let t = engine.clone().tracked().await;
        assert_eq!(ask(&t, Node::N3).await, model(Node::N3, v0, v1));
    }

    for step in 0..steps {
        // an input session
        {
            let mut s = engine.input_session().await;
            match rng.below(6) {
                0 => {
                    log.push(format!("{step}: empty session"));
                }
                1 => {
                    let x = i64::try_from(rng.below(1000)).unwrap();
                    s.set_input(Variable(9), x).await;
                    log.push(format!("{step}: unrelated session"));
                }
                2 | 3 => {
                    v0 = i64::try_from(rng.below(8)).unwrap();
                    s.set_input(Variable(0), v0).await;
                    log.push(format!("{step}: v0 = {v0}"));
                }
                4 => {
                    v1 = i64::try_from(rng.below(8)).unwrap();
                    s.set_input(Variable(1), v1).await;
                    log.push(format!("{step}: v1 = {v1}"));
                }
                _ => {
                    v0 = i64::try_from(rng.below(8)).unwrap();
                    v1 = i64::try_from(rng.below(8)).unwrap();
                    s.set_input(Variable(0), v0).await;
                    s.set_input(Variable(1), v1).await;
                    log.push(format!("{step}: v0 = {v0}, v1 = {v1}"));
                }
            }
            s.commit().await;
        }

        // a few queries, some of them dropped early
        for _ in 0..rng.below(3) {
            let node = ALL[usize::try_from(rng.below(8)).unwrap()];
            let tracked = engine.clone().tracked().await;

            if rng.below(3) == 0 && !no_drop {
                let micros = rng.below(2500);
                let result = tokio::time::timeout(
                    Duration::from_micros(micros),
                    ask(&tracked, node),
                )
                .await;

                log.push(format!(
                    "{step}: query {node:?} dropped after {micros}us -> \
                     {result:?}"
                ));

                // let whatever the dropped query has left running (aborted
                // tasks, detached transactional tails) go away first
                if grace_ms > 0 {
                    tokio::time::sleep(Duration::from_millis(grace_ms)).await;
                }

                if let Ok(value) = result {
                    assert_eq!(
                        value,
                        model(node, v0, v1),
                        "seed {seed}, {node:?}\n{}",
                        log.join("\n")
                    );
                }
            } else {
                let value = ask(&tracked, node).await;
                log.push(format!("{step}: query {node:?} -> {value}"));

                assert_eq!(
                    value,
                    model(node, v0, v1),
                    "seed {seed}, {node:?}\n{}",
                    log.join("\n")
                );
            }
        }

        // settle: everything is asked for, then a session that changes
        // nothing must not execute anything
        if step % settle_every == settle_every - 1 {
            {
                let tracked = engine.clone().tracked().await;
                let mut got = Vec::new();
                let mut want = Vec::new();
                for node in ALL.iter().rev() {
                    got.push((*node, ask(&tracked, *node).await));
                    want.push((*node, model(*node, v0, v1)));
                }
                assert_eq!(
                    got,
                    want,
                    "seed {seed}, settle (top-down order)\n{}",
                    log.join("\n")
                );
            }
            log.push(format!("{step}: settled"));

            let before = shared.counts();
            {
                let s = engine.input_session().await;
                s.commit().await;
            }
            {
                let tracked = engine.clone().tracked().await;
                for node in ALL.iter().rev() {
                    assert_eq!(
                        ask(&tracked, *node).await,
                        model(*node, v0, v1)
                    );
                }
            }
            assert_eq!(
                shared.counts(),
                before,
                "seed {seed}: an executor ran after a session that changed \
                 nothing\n{}",
                log.join("\n")
            );
        }
    }
}

#[tokio::test(flavor = "multi_thread", worker_threads = 4)]
async fn random_histories_match_from_scratch_values() {
    let seeds = std::env::var("FIX_RANDOM_SEEDS")
        .ok()
        .and_then(|x| x.parse::<u64>().ok())
        .unwrap_or(24);

    let first = std::env::var("FIX_RANDOM_FIRST")
        .ok()
        .and_then(|x| x.parse::<u64>().ok())
        .unwrap_or(1);

    for seed in first..=seeds {
        run_history(seed, 64).await;
    }
}

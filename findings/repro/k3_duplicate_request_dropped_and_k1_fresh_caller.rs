//! Side finding in the UNCHANGED code (found while working on C02, round 5).
//!
//! To run: copy this file to
//! `crates/integration_test/tests/zz_side_c02.rs` and run
//! `cargo test -p qbice_integration_test --test zz_side_c02 --offline`.
//!
//! `Engine::register_callee` hands out an `UndoRegisterCallee` guard for EVERY
//! call, also when the callee was already registered by another, still pending
//! (or already finished) `query` call of the same executor. When an executor
//! awaits the same dependency twice at once and one of the two futures is
//! dropped (`select!`, `timeout`, ...):
//!
//! A third, unrelated finding (`fresh_caller_of_stale_query_behind_firewall`)
//! is at the end of the file.
//!
//! * `dropping_both_duplicate_requests_panics`: both guards run
//!   `abort_callee`, the second one trips
//!   `assert!(callee_queries.remove_sync(callee).is_some())` -> panic inside
//!   a `Drop`.
//! * `dropping_one_duplicate_request_loses_the_dependency`: the loser of a
//!   `select!` removes the dependency that the winner has already observed
//!   and defused. The caller is stored without the forward edge, no backward
//!   edge is written, and a later edit of the callee's input does not
//!   invalidate the caller: a stale value is returned.

#![allow(missing_docs)]

use std::{
    sync::{
        Arc,
        atomic::{AtomicUsize, Ordering},
    },
    time::Duration,
};

use qbice::{
    Decode, Encode, Identifiable, StableHash, TrackedEngine, config::Config,
    executor::Executor, query::Query,
};
use qbice_integration_test::{Variable, create_test_engine};
use tempfile::tempdir;

#[derive(
    Debug,
    Clone,
    Copy,
    PartialEq,
    Eq,
    PartialOrd,
    Ord,
    Hash,
    StableHash,
    Encode,
    Decode,
    Identifiable,
)]
pub struct Slow(pub u64);

impl Query for Slow {
    type Value = i64;
}

#[derive(Debug, Default)]
pub struct SlowExecutor(pub AtomicUsize);

impl<C: Config> Executor<Slow, C> for SlowExecutor {
    async fn execute(&self, query: &Slow, engine: &TrackedEngine<C>) -> i64 {
        self.0.fetch_add(1, Ordering::Relaxed);
        tokio::time::sleep(Duration::from_millis(100)).await;
        engine.query(&Variable(query.0)).await
    }
}

/// Awaits `Slow(n)` twice at once and takes whichever finishes first.
#[derive(
    Debug,
    Clone,
    Copy,
    PartialEq,
    Eq,
    PartialOrd,
    Ord,
    Hash,
    StableHash,
    Encode,
    Decode,
    Identifiable,
)]
pub struct FirstOfTwo(pub u64);

impl Query for FirstOfTwo {
    type Value = i64;
}

#[derive(Debug, Default)]
pub struct FirstOfTwoExecutor(pub AtomicUsize);

impl<C: Config> Executor<FirstOfTwo, C> for FirstOfTwoExecutor {
    async fn execute(
        &self,
        query: &FirstOfTwo,
        engine: &TrackedEngine<C>,
    ) -> i64 {
        self.0.fetch_add(1, Ordering::Relaxed);

        let slow = Slow(query.0);
        let a = engine.query(&slow);
        let b = engine.query(&slow);

        tokio::select! {
            biased;
            v = a => v,
            v = b => v,
        }
    }
}

/// Awaits `Slow(n)` twice at once, but gives up after a short while.
#[derive(
    Debug,
    Clone,
    Copy,
    PartialEq,
    Eq,
    PartialOrd,
    Ord,
    Hash,
    StableHash,
    Encode,
    Decode,
    Identifiable,
)]
pub struct BothOrNothing(pub u64);

impl Query for BothOrNothing {
    type Value = i64;
}

#[derive(Debug, Default)]
pub struct BothOrNothingExecutor(pub AtomicUsize);

impl<C: Config> Executor<BothOrNothing, C> for BothOrNothingExecutor {
    async fn execute(
        &self,
        query: &BothOrNothing,
        engine: &TrackedEngine<C>,
    ) -> i64 {
        self.0.fetch_add(1, Ordering::Relaxed);

        let slow = Slow(query.0);
        let both =
            async { tokio::join!(engine.query(&slow), engine.query(&slow)) };

        match tokio::time::timeout(Duration::from_millis(10), both).await {
            Ok((a, b)) => a + b,
            Err(_) => -1,
        }
    }
}

#[tokio::test]
async fn dropping_one_duplicate_request_loses_the_dependency() {
    let tempdir = tempdir().unwrap();
    let mut engine = create_test_engine(&tempdir).await;

    engine.register_executor(Arc::new(SlowExecutor::default()));
    engine.register_executor(Arc::new(FirstOfTwoExecutor::default()));

    let engine = Arc::new(engine);

    {
        let mut session = engine.input_session().await;
        session.set_input(Variable(0), 10).await;
        session.commit().await;
    }

    {
        let tracked = engine.clone().tracked().await;
        assert_eq!(tracked.query(&FirstOfTwo(0)).await, 10);
    }

    {
        let mut session = engine.input_session().await;
        session.set_input(Variable(0), 20).await;
        session.commit().await;
    }

    {
        let tracked = engine.clone().tracked().await;
        // from-scratch value is 20
        assert_eq!(tracked.query(&FirstOfTwo(0)).await, 20);
    }
}

#[tokio::test]
async fn dropping_both_duplicate_requests_panics() {
    let tempdir = tempdir().unwrap();
    let mut engine = create_test_engine(&tempdir).await;

    engine.register_executor(Arc::new(SlowExecutor::default()));
    engine.register_executor(Arc::new(BothOrNothingExecutor::default()));

    let engine = Arc::new(engine);

    {
        let mut session = engine.input_session().await;
        session.set_input(Variable(0), 10).await;
        session.commit().await;
    }

    let tracked = engine.clone().tracked().await;
    // the executor gives up on its two (identical) requests and returns -1
    assert_eq!(tracked.query(&BothOrNothing(0)).await, -1);
}

// ============================================================================
// Third finding (sequential, no concurrency needed): a query that has never
// been computed (`Fresh`) calls a query (`Mid`) that was computed in an earlier
// revision and sits behind a firewall (`Fw`) whose input has been edited.
// `Mid` is repaired on behalf of a *query* caller, so the transitive firewall
// callees of `Mid` are not repaired first (only `User`/`RepairFirewall`
// callers do that, and the fresh root has no firewall set yet); the edge
// `Mid -> Fw` is not dirty (propagation stopped at the firewall), `Mid` is
// declared clean and its old value is handed to `Fresh`.
// Expected 115, unchanged code returns 111.
// ============================================================================

macro_rules! q {
    ($name:ident) => {
        #[derive(
            Debug, Clone, Copy, PartialEq, Eq, PartialOrd, Ord, Hash,
            StableHash, Encode, Decode, Identifiable,
        )]
        pub struct $name(pub u64);
        impl Query for $name {
            type Value = i64;
        }
    };
}
q!(Fw);
q!(Mid);
q!(Fresh);

#[derive(Debug, Default, Clone, Copy)]
pub struct FwEx;
impl<C: Config> Executor<Fw, C> for FwEx {
    async fn execute(&self, q: &Fw, e: &TrackedEngine<C>) -> i64 {
        e.query(&Variable(q.0)).await * 2
    }
    fn execution_style() -> qbice::ExecutionStyle {
        qbice::ExecutionStyle::Firewall
    }
}
#[derive(Debug, Default, Clone, Copy)]
pub struct MidEx;
impl<C: Config> Executor<Mid, C> for MidEx {
    async fn execute(&self, q: &Mid, e: &TrackedEngine<C>) -> i64 {
        e.query(&Fw(q.0)).await + 1
    }
}
#[derive(Debug, Default, Clone, Copy)]
pub struct FreshEx;
impl<C: Config> Executor<Fresh, C> for FreshEx {
    async fn execute(&self, q: &Fresh, e: &TrackedEngine<C>) -> i64 {
        e.query(&Mid(q.0)).await + 100
    }
}

#[tokio::test]
async fn fresh_caller_of_stale_query_behind_firewall() {
    let tempdir = tempdir().unwrap();
    let mut engine = create_test_engine(&tempdir).await;
    engine.register_executor(Arc::new(FwEx));
    engine.register_executor(Arc::new(MidEx));
    engine.register_executor(Arc::new(FreshEx));
    let engine = Arc::new(engine);
    {
        let mut s = engine.input_session().await;
        s.set_input(Variable(0), 5).await;
        s.commit().await;
    }
    {
        let t = engine.clone().tracked().await;
        assert_eq!(t.query(&Mid(0)).await, 11);
    }
    {
        let mut s = engine.input_session().await;
        s.set_input(Variable(0), 7).await;
        s.commit().await;
    }
    {
        let t = engine.clone().tracked().await;
        // Fresh has never been computed; Mid is stale behind the firewall
        assert_eq!(t.query(&Fresh(0)).await, 7 * 2 + 1 + 100);
    }
}

//! Reproduction: a write to a `CacheKeyOfSetMap` that races with a cache load
//! of the same key is lost from every later read.
//!
//! The interleaving is forced deterministically: the map is generic over the
//! database, so the tests hand it a thin wrapper around the real `RocksDB`
//! whose `scan_members` can be made to stop in the middle of a load -- which
//! is exactly the window between "the loader sampled the staging log" and
//! "the loader published the entry into the cache".

#![allow(missing_docs)]

use std::{
    collections::HashSet,
    sync::{
        Arc, Mutex,
        atomic::{AtomicBool, Ordering},
        mpsc,
    },
    time::{Duration, Instant},
};

use qbice::{
    Identifiable,
    serialize::Plugin,
    storage::{
        key_of_set_map::{ConcurrentSet, KeyOfSetMap, cache::CacheKeyOfSetMap},
        kv_database::{
            KeyOfSetColumn, KvDatabase, WideColumn, WideColumnValue,
            WriteBatch as _, rocksdb::RocksDB,
        },
        write_manager::write_behind::WriteBehind,
    },
};

const TIMEOUT: Duration = Duration::from_secs(10);

// ---------------------------------------------------------------------------
// The column and the set container
// ---------------------------------------------------------------------------

#[derive(Debug, Clone, Copy, PartialEq, Eq, Hash, Identifiable)]
pub struct Members;

impl KeyOfSetColumn for Members {
    type Key = u32;
    type Element = u32;
}

/// A plain `ConcurrentSet` (the integration test crate has no `dashmap`).
#[derive(Debug, Clone, Default)]
pub struct SharedSet(Arc<Mutex<HashSet<u32>>>);

impl ConcurrentSet for SharedSet {
    type Element = u32;
    type Iterator<'x> = std::vec::IntoIter<u32>;

    fn insert_element(&self, element: u32) -> bool {
        self.0.lock().unwrap().insert(element)
    }

    fn remove_element(&self, element: &u32) -> bool {
        self.0.lock().unwrap().remove(element)
    }

    fn len(&self) -> usize { self.0.lock().unwrap().len() }

    fn iter(&self) -> Self::Iterator<'_> {
        self.0.lock().unwrap().iter().copied().collect::<Vec<_>>().into_iter()
    }
}

// ---------------------------------------------------------------------------
// The database wrapper: RocksDB whose next `scan_members` can be paused
// ---------------------------------------------------------------------------

#[derive(Debug)]
struct Gate {
    /// When set, the next `scan_members` announces itself and waits.
    armed: AtomicBool,
    entered: Mutex<mpsc::Sender<()>>,
    release: Mutex<mpsc::Receiver<()>>,
}

#[derive(Debug, Clone)]
struct GatedDb {
    inner: RocksDB,
    gate: Arc<Gate>,
}

/// The test's side of the gate.
struct GateControl {
    gate: Arc<Gate>,
    entered: mpsc::Receiver<()>,
    release: mpsc::Sender<()>,
}

impl GateControl {
    fn arm(&self) { self.gate.armed.store(true, Ordering::SeqCst); }

    fn wait_until_scan_is_paused(&self) {
        self.entered
            .recv_timeout(TIMEOUT)
            .expect("the loader never reached scan_members");
    }

    fn release(&self) { self.release.send(()).unwrap(); }
}

fn gated(inner: RocksDB) -> (GatedDb, GateControl) {
    let (entered_tx, entered_rx) = mpsc::channel();
    let (release_tx, release_rx) = mpsc::channel();

    let gate = Arc::new(Gate {
        armed: AtomicBool::new(false),
        entered: Mutex::new(entered_tx),
        release: Mutex::new(release_rx),
    });

    (GatedDb { inner, gate: gate.clone() }, GateControl {
        gate,
        entered: entered_rx,
        release: release_tx,
    })
}

/// The write batch of `RocksDB`, except that it asks to be committed right
/// away (`should_write_more` is `false`, the default of the trait) instead of
/// waiting until 4MB of writes have accumulated; this lets the tests observe
/// a flush while the background writer is still running.
#[derive(Debug)]
struct EagerBatch(<RocksDB as KvDatabase>::WriteBatch);

impl qbice::storage::kv_database::WriteBatch for EagerBatch {
    type SerializationBuffer = <RocksDB as KvDatabase>::SerializationBuffer;

    fn put<W: WideColumn, C: WideColumnValue<W>>(
        &mut self,
        key: &W::Key,
        value: &C,
    ) {
        self.0.put::<W, C>(key, value);
    }

    fn delete<W: WideColumn, C: WideColumnValue<W>>(&mut self, key: &W::Key) {
        self.0.delete::<W, C>(key);
    }

    fn insert_member<C: KeyOfSetColumn>(
        &mut self,
        key: &C::Key,
        value: &C::Element,
    ) {
        self.0.insert_member::<C>(key, value);
    }

    fn delete_member<C: KeyOfSetColumn>(
        &mut self,
        key: &C::Key,
        value: &C::Element,
    ) {
        self.0.delete_member::<C>(key, value);
    }

    fn consume_serialization_buffer(
        &mut self,
        buffer: Self::SerializationBuffer,
    ) {
        self.0.consume_serialization_buffer(buffer);
    }

    fn commit(self) { self.0.commit(); }

    fn should_write_more(&self) -> bool { false }
}

impl KvDatabase for GatedDb {
    type WriteBatch = EagerBatch;
    type SerializationBuffer = <RocksDB as KvDatabase>::SerializationBuffer;
    type ScanMemberIterator<C: KeyOfSetColumn> =
        <RocksDB as KvDatabase>::ScanMemberIterator<C>;

    fn get_wide_column<W: WideColumn, C: WideColumnValue<W>>(
        &self,
        key: &W::Key,
    ) -> Option<C> {
        self.inner.get_wide_column::<W, C>(key)
    }

    fn scan_members<C: KeyOfSetColumn>(
        &self,
        key: &C::Key,
    ) -> Self::ScanMemberIterator<C> {
        // the scan of the real database: it sees what is committed *now*
        let iterator = self.inner.scan_members::<C>(key);

        // a slow scan: stop here until the test lets us continue
        if self.gate.armed.swap(false, Ordering::SeqCst) {
            self.gate.entered.lock().unwrap().send(()).unwrap();
            self.gate
                .release
                .lock()
                .unwrap()
                .recv_timeout(TIMEOUT)
                .expect("the test never released the paused scan");
        }

        iterator
    }

    fn write_batch(&self) -> Self::WriteBatch {
        EagerBatch(self.inner.write_batch())
    }

    fn serialization_buffer(&self) -> Self::SerializationBuffer {
        self.inner.serialization_buffer()
    }
}

// ---------------------------------------------------------------------------
// Helpers
// ---------------------------------------------------------------------------

type Map = CacheKeyOfSetMap<Members, SharedSet, GatedDb>;

async fn read(map: &Map, key: u32) -> HashSet<u32> {
    map.get(&key).await.collect()
}

fn committed(db: &RocksDB, key: u32) -> HashSet<u32> {
    db.scan_members::<Members>(&key).collect()
}

/// Waits until the background writer has committed `expected` for `key` to the
/// real database, and gives the after-commit thread (which trims the staging
/// log) time to run.
fn wait_until_committed(db: &RocksDB, key: u32, expected: &HashSet<u32>) {
    let start = Instant::now();

    while &committed(db, key) != expected {
        assert!(
            start.elapsed() < TIMEOUT,
            "the background writer never committed {expected:?}; the \
             database has {:?}",
            committed(db, key)
        );
        std::thread::sleep(Duration::from_millis(5));
    }

    std::thread::sleep(Duration::from_millis(300));
}

fn set(elements: &[u32]) -> HashSet<u32> { elements.iter().copied().collect() }

struct Fixture {
    _dir: tempfile::TempDir,
    raw: RocksDB,
    control: GateControl,
    map: Arc<Map>,
    writer: WriteBehind<GatedDb>,
}

/// A database that already holds `{1, 2}` under key 7, a map with a cache
/// that is far larger than anything the test puts into it, and a write-behind
/// writer.
fn fixture() -> Fixture {
    let dir = tempfile::tempdir().unwrap();
    let raw = RocksDB::open(dir.path(), Plugin::default()).unwrap();

    let mut seed = raw.write_batch();
    seed.insert_member::<Members>(&7, &1);
    seed.insert_member::<Members>(&7, &2);
    seed.commit();

    let (db, control) = gated(raw.clone());
    let map = Arc::new(Map::new(1 << 16, db.clone()));
    let writer = WriteBehind::new(&db, 1);

    Fixture { _dir: dir, raw, control, map, writer }
}

// ---------------------------------------------------------------------------
// Control: the same calls without the overlap
// ---------------------------------------------------------------------------

#[tokio::test(flavor = "multi_thread", worker_threads = 4)]
async fn control_write_before_the_load_is_visible() {
    let fx = fixture();

    let mut batch = fx.writer.new_write_batch();
    fx.map.insert(7, 3, &mut batch).await;
    fx.map.remove(&7, &2, &mut batch).await;

    assert_eq!(read(&fx.map, 7).await, set(&[1, 3]));
    assert_eq!(read(&fx.map, 7).await, set(&[1, 3]));

    fx.writer.submit_write_batch(batch);
    wait_until_committed(&fx.raw, 7, &set(&[1, 3]));

    assert_eq!(read(&fx.map, 7).await, set(&[1, 3]));
}

#[tokio::test(flavor = "multi_thread", worker_threads = 4)]
async fn control_write_after_the_load_is_visible() {
    let fx = fixture();

    assert_eq!(read(&fx.map, 7).await, set(&[1, 2]));

    let mut batch = fx.writer.new_write_batch();
    fx.map.insert(7, 3, &mut batch).await;
    fx.map.remove(&7, &2, &mut batch).await;

    assert_eq!(read(&fx.map, 7).await, set(&[1, 3]));

    fx.writer.submit_write_batch(batch);
    wait_until_committed(&fx.raw, 7, &set(&[1, 3]));

    assert_eq!(read(&fx.map, 7).await, set(&[1, 3]));
}

// ---------------------------------------------------------------------------
// The race
// ---------------------------------------------------------------------------

/// Runs `write` while a load of key 7 is paused between its staging snapshot
/// and the publication of the entry, then checks that every later read sees
/// `expected`.
async fn write_during_load<F>(expected: &[u32], write: F)
where
    F: AsyncFnOnce(&Map, &mut <Map as KeyOfSetMap<Members, SharedSet>>::WriteBatch),
{
    let fx = fixture();
    let expected = set(expected);

    // A: a reader misses the cache and starts to load key 7; its scan of the
    // database is paused.
    fx.control.arm();
    let reader = {
        let map = fx.map.clone();
        tokio::spawn(async move { read(&map, 7).await })
    };
    fx.control.wait_until_scan_is_paused();

    // B: the write. It is appended to the staging log, finds no cache entry
    // and returns.
    let mut batch = fx.writer.new_write_batch();
    write(&fx.map, &mut batch).await;

    // A continues: overlays its (older) snapshot, publishes the entry.
    fx.control.release();
    let concurrent_read = tokio::time::timeout(TIMEOUT, reader)
        .await
        .expect("the paused reader never finished")
        .unwrap();

    // The reader overlapped the write: it may or may not see it.
    println!("read concurrent with the write : {concurrent_read:?}");

    // Everything below happens strictly after the write returned.
    let first = read(&fx.map, 7).await;
    let second = read(&fx.map, 7).await;
    println!("first read after the write     : {first:?}");
    println!("second read after the write    : {second:?}");

    fx.writer.submit_write_batch(batch);
    wait_until_committed(&fx.raw, 7, &expected);
    let after_flush = read(&fx.map, 7).await;
    println!("database after the flush       : {:?}", committed(&fx.raw, 7));
    println!("read after the flush           : {after_flush:?}");

    let Fixture { map, writer, raw, _dir, .. } = fx;
    drop(writer);
    let after_shutdown = read(&map, 7).await;
    println!("read after the writer shut down: {after_shutdown:?}");
    println!("expected                       : {expected:?}");

    assert_eq!(committed(&raw, 7), expected, "database");
    assert_eq!(first, expected, "first read after the write");
    assert_eq!(second, expected, "second read after the write");
    assert_eq!(after_flush, expected, "read after the flush");
    assert_eq!(after_shutdown, expected, "read after the writer shut down");
}

#[tokio::test(flavor = "multi_thread", worker_threads = 4)]
async fn insert_during_load_is_not_lost() {
    write_during_load(&[1, 2, 3], async |map, batch| {
        map.insert(7, 3, batch).await;
    })
    .await;
}

#[tokio::test(flavor = "multi_thread", worker_threads = 4)]
async fn remove_during_load_is_not_lost() {
    write_during_load(&[1], async |map, batch| {
        map.remove(&7, &2, batch).await;
    })
    .await;
}

#[tokio::test(flavor = "multi_thread", worker_threads = 4)]
async fn insert_and_remove_during_load_are_not_lost() {
    write_during_load(&[1, 3], async |map, batch| {
        map.insert(7, 3, batch).await;
        map.remove(&7, &2, batch).await;
    })
    .await;
}

// ---------------------------------------------------------------------------
// Not forced: real threads, a cache that is much smaller than the key space
// ---------------------------------------------------------------------------

/// Every thread owns one element and toggles it in the sets of a few shared
/// keys; since nobody else writes that element, a read that follows the
/// thread's own write must agree with it -- whatever the other threads, the
/// evictions and the background writer are doing in the meantime.
#[tokio::test(flavor = "multi_thread", worker_threads = 8)]
async fn stress_read_your_own_writes() {
    const THREADS: u32 = 8;
    const KEYS: u32 = 12;
    const ROUNDS: u32 = 3000;

    let dir = tempfile::tempdir().unwrap();
    let raw = RocksDB::open(dir.path(), Plugin::default()).unwrap();
    let (db, _control) = gated(raw);

    let map = Arc::new(Map::new(4, db.clone()));
    let writer = Arc::new(WriteBehind::new(&db, 2));

    let mut tasks = Vec::new();

    for element in 0..THREADS {
        let map = map.clone();
        let writer = writer.clone();

        tasks.push(tokio::spawn(async move {
            let mut present = vec![false; KEYS as usize];
            let mut state = u64::from(element) * 0x9E37_79B9 + 1;

            for round in 0..ROUNDS {
                // xorshift
                state ^= state << 13;
                state ^= state >> 7;
                state ^= state << 17;

                let key = u32::try_from(state % u64::from(KEYS)).unwrap();
                let slot = &mut present[key as usize];

                let mut batch = writer.new_write_batch();
                if *slot {
                    map.remove(&key, &element, &mut batch).await;
                } else {
                    map.insert(key, element, &mut batch).await;
                }
                *slot = !*slot;
                writer.submit_write_batch(batch);

                if state & 0x100 != 0 {
                    tokio::task::yield_now().await;
                }

                let seen = read(&map, key).await;
                assert_eq!(
                    seen.contains(&element),
                    *slot,
                    "round {round}: thread {element} {} its element in key \
                     {key}, then read {seen:?}",
                    if *slot { "inserted" } else { "removed" },
                );
            }
        }));
    }

    let mut failures = Vec::new();
    for task in tasks {
        if let Err(error) = task.await {
            failures.push(error.to_string());
        }
    }

    assert!(failures.is_empty(), "{failures:#?}");
}

//! Random sequential harness for cycle-related incremental mismatches.
//!
//! A case is a random "program" for 3..=5 derived queries `N0..N4` over 3
//! inputs `In(0..3)`. Every derived query runs a short list of steps; a step
//! reads an input or another derived query, possibly only when a previously
//! read input / derived value has a certain value, so edges (and therefore
//! dependency cycles) are switched on and off by input edits.
//!
//! After every edit a random sequence of derived queries is asked from the
//! long-lived (incremental) engine, and the same sequence is asked from a
//! brand-new engine that has only ever seen the current inputs (from-scratch
//! evaluation). All values must agree.
//!
//! Everything is sequential (one task, one request at a time), unless
//! `FUZZ_CONCURRENT` is set: then the incremental engine is asked from one
//! task per request, all at once (each node twice), on 4 worker threads; the
//! from-scratch evaluation stays sequential.
//!
//! Knobs (environment): `FUZZ_CASES` (default 150), `FUZZ_SEED` (default 1),
//! `FUZZ_EDITS` (default 8), `FUZZ_VERBOSE`.

#![allow(missing_docs)]
#![allow(clippy::all, clippy::pedantic, clippy::nursery)]

use std::{
    sync::{
        Arc,
        atomic::{AtomicI64, Ordering},
    },
    time::Duration,
};

use qbice::{
    Decode, Encode, Engine, TrackedEngine, config::Config, executor::Executor,
    query::Query, stable_hash::StableHash, stable_type_id::Identifiable,
};
use qbice_integration_test::{TestingConfig, create_test_engine};
use tempfile::tempdir;

const MAX_NODES: usize = 5;
const INPUTS: u8 = 3;

/// 0: the cycle default of `Ni` is `-(i + 1)` (never a proper value);
/// 1: the cycle default of `Ni` is `i % modulus`-ish small value that proper
///    values can take as well.
static DEFAULT_MODE: AtomicI64 = AtomicI64::new(0);

#[derive(
    Debug,
    Clone,
    Copy,
    PartialEq,
    Eq,
    PartialOrd,
    Ord,
    Hash,
    Identifiable,
    StableHash,
    Encode,
    Decode,
)]
pub struct In(pub u8);
impl Query for In {
    type Value = i64;
}

#[derive(Debug, Clone, Copy, PartialEq, Eq)]
enum Step {
    /// read input k
    In(u8),
    /// read node j
    Node(usize),
    /// read input k; if it equals v, read node j
    IfIn(u8, i64, usize),
    /// read node j1; if its value is `m` modulo 2, read node j2
    IfNode(usize, i64, usize),
}

#[derive(Debug)]
struct Program {
    modulus: i64,
    nodes: Vec<Vec<Step>>,
}

fn mix(program: &Program, acc: i64, x: i64) -> i64 {
    (acc.wrapping_mul(3).wrapping_add(x)).rem_euclid(program.modulus)
}

async fn read_node<C: Config>(engine: &TrackedEngine<C>, j: usize) -> i64 {
    match j {
        0 => engine.query(&N0).await,
        1 => engine.query(&N1).await,
        2 => engine.query(&N2).await,
        3 => engine.query(&N3).await,
        4 => engine.query(&N4).await,
        _ => unreachable!(),
    }
}

async fn run_program<C: Config>(
    program: &Program,
    me: usize,
    engine: &TrackedEngine<C>,
) -> i64 {
    let mut acc = me as i64 + 1;

    for step in &program.nodes[me] {
        match *step {
            Step::In(k) => {
                acc = mix(program, acc, engine.query(&In(k)).await);
            }
            Step::Node(j) => {
                acc = mix(program, acc, read_node(engine, j).await);
            }
            Step::IfIn(k, v, j) => {
                let x = engine.query(&In(k)).await;
                acc = mix(program, acc, x);
                if x == v {
                    acc = mix(program, acc, read_node(engine, j).await);
                }
            }
            Step::IfNode(j1, m, j2) => {
                let y = read_node(engine, j1).await;
                acc = mix(program, acc, y);
                if y.rem_euclid(2) == m {
                    acc = mix(program, acc, read_node(engine, j2).await);
                }
            }
        }
    }

    acc
}

macro_rules! node {
    ($name:ident, $exec:ident, $idx:expr) => {
        #[derive(
            Debug,
            Clone,
            Copy,
            PartialEq,
            Eq,
            PartialOrd,
            Ord,
            Hash,
            Identifiable,
            StableHash,
            Encode,
            Decode,
        )]
        pub struct $name;
        impl Query for $name {
            type Value = i64;
        }

        #[derive(Debug, Clone)]
        struct $exec(Arc<Program>);

        impl<C: Config> Executor<$name, C> for $exec {
            async fn execute(
                &self,
                _: &$name,
                engine: &TrackedEngine<C>,
            ) -> i64 {
                run_program(&self.0, $idx, engine).await
            }

            fn scc_value() -> i64 {
                if DEFAULT_MODE.load(Ordering::SeqCst) == 0 {
                    -($idx as i64 + 1)
                } else {
                    ($idx as i64) % 2
                }
            }
        }
    };
}

node!(N0, Exec0, 0);
node!(N1, Exec1, 1);
node!(N2, Exec2, 2);
node!(N3, Exec3, 3);
node!(N4, Exec4, 4);

struct Rng(u64);
impl Rng {
    fn next(&mut self) -> u64 {
        // xorshift64*
        self.0 ^= self.0 >> 12;
        self.0 ^= self.0 << 25;
        self.0 ^= self.0 >> 27;
        self.0.wrapping_mul(0x2545_F491_4F6C_DD1D)
    }
    fn below(&mut self, n: u64) -> u64 { (self.next() >> 11) % n }
    fn chance(&mut self, percent: u64) -> bool { self.below(100) < percent }
}

fn random_program(rng: &mut Rng) -> Program {
    let n = 3 + rng.below((MAX_NODES - 2) as u64) as usize;
    let modulus = if rng.chance(50) { 3 } else { 1_000_003 };

    let mut nodes = Vec::new();
    for me in 0..n {
        let steps = 1 + rng.below(3) as usize;
        let mut prog = Vec::new();
        for _ in 0..steps {
            let other = |rng: &mut Rng| {
                // mostly other nodes; self-loops now and then
                if rng.chance(8) {
                    me
                } else {
                    let mut j = rng.below(n as u64) as usize;
                    if j == me {
                        j = (j + 1) % n;
                    }
                    j
                }
            };

            let step = match rng.below(10) {
                0..=2 => Step::In(rng.below(INPUTS as u64) as u8),
                3..=4 => Step::Node(other(rng)),
                5..=8 => Step::IfIn(
                    rng.below(INPUTS as u64) as u8,
                    rng.below(2) as i64,
                    other(rng),
                ),
                _ => Step::IfNode(other(rng), rng.below(2) as i64, other(rng)),
            };
            prog.push(step);
        }
        nodes.push(prog);
    }

    Program { modulus, nodes }
}

async fn new_engine(
    program: &Arc<Program>,
) -> (tempfile::TempDir, Arc<Engine<TestingConfig>>) {
    let dir = tempdir().unwrap();
    let mut engine = create_test_engine(&dir).await;
    engine.register_executor(Arc::new(Exec0(program.clone())));
    engine.register_executor(Arc::new(Exec1(program.clone())));
    engine.register_executor(Arc::new(Exec2(program.clone())));
    engine.register_executor(Arc::new(Exec3(program.clone())));
    engine.register_executor(Arc::new(Exec4(program.clone())));
    (dir, Arc::new(engine))
}

async fn set_inputs(
    engine: &Arc<Engine<TestingConfig>>,
    values: &[(u8, i64)],
) {
    let mut session = engine.input_session().await;
    for (k, v) in values {
        session.set_input(In(*k), *v).await;
    }
    session.commit().await;
}

#[derive(Debug, Clone, PartialEq, Eq)]
enum Outcome {
    Value(i64),
    Panicked,
    TimedOut,
}

/// Asks every node of `order` from its own task, all at once.
async fn ask_concurrently(
    engine: &Arc<Engine<TestingConfig>>,
    order: &[usize],
) -> Vec<Outcome> {
    let mut handles = Vec::new();
    for j in order.iter().copied() {
        let engine = engine.clone();
        handles.push(tokio::spawn(async move {
            let tracked = engine.tracked().await;
            tokio::time::timeout(
                Duration::from_secs(20),
                read_node(&tracked, j),
            )
            .await
        }));
    }

    let mut out = Vec::new();
    for handle in handles {
        out.push(match handle.await {
            Ok(Ok(v)) => Outcome::Value(v),
            Ok(Err(_)) => Outcome::TimedOut,
            Err(_) => Outcome::Panicked,
        });
    }
    out
}

/// Asks `order` from one tracked engine (one request after the other).
async fn ask(
    engine: &Arc<Engine<TestingConfig>>,
    order: &[usize],
) -> Vec<Outcome> {
    let engine = engine.clone();
    let order_owned = order.to_vec();
    let n = order.len();

    let handle = tokio::spawn(async move {
        let tracked = engine.tracked().await;
        let mut out = Vec::new();
        for j in order_owned {
            match tokio::time::timeout(
                Duration::from_secs(20),
                read_node(&tracked, j),
            )
            .await
            {
                Ok(v) => out.push(Outcome::Value(v)),
                Err(_) => {
                    out.push(Outcome::TimedOut);
                    break;
                }
            }
        }
        out
    });

    match handle.await {
        Ok(mut out) => {
            while out.len() < n {
                out.push(Outcome::TimedOut);
            }
            out
        }
        Err(_) => vec![Outcome::Panicked; n],
    }
}

#[derive(Debug, Default)]
struct Stats {
    cases: usize,
    edits: usize,
    compared: usize,
    cyclic_values: usize,
    mismatches: usize,
    mismatching_cases: usize,
    order_dependent: usize,
    panics: usize,
    timeouts: usize,
}

async fn run_case(
    case_seed: u64,
    edits: usize,
    verbose: bool,
    stats: &mut Stats,
) {
    let mut rng = Rng(case_seed.wrapping_mul(0x9E37_79B9_7F4A_7C15) | 1);
    for _ in 0..4 {
        rng.next();
    }

    DEFAULT_MODE.store(i64::from(rng.chance(30)), Ordering::SeqCst);

    let program = Arc::new(random_program(&mut rng));
    let n = program.nodes.len();

    let (_dir, incremental) = new_engine(&program).await;

    let mut inputs: Vec<i64> =
        (0..INPUTS).map(|_| rng.below(3) as i64).collect();
    set_inputs(
        &incremental,
        &inputs
            .iter()
            .enumerate()
            .map(|(k, v)| (k as u8, *v))
            .collect::<Vec<_>>(),
    )
    .await;

    let mut case_failed = false;
    let mut history = Vec::new();

    for edit in 0..=edits {
        if edit > 0 {
            // change one or two inputs
            let changes = 1 + rng.below(2) as usize;
            let mut batch = Vec::new();
            for _ in 0..changes {
                let k = rng.below(INPUTS as u64) as usize;
                let mut v = rng.below(3) as i64;
                if v == inputs[k] {
                    v = (v + 1) % 3;
                }
                inputs[k] = v;
                batch.push((k as u8, v));
            }
            set_inputs(&incremental, &batch).await;
        }

        // what is asked after this edit
        let mut order: Vec<usize> = (0..n).collect();
        for i in (1..order.len()).rev() {
            order.swap(i, rng.below(i as u64 + 1) as usize);
        }
        if rng.chance(50) {
            let keep = 1 + rng.below(n as u64) as usize;
            order.truncate(keep);
        }

        history.push((inputs.clone(), order.clone()));
        stats.edits += 1;

        let got = if std::env::var("FUZZ_CONCURRENT").is_ok() {
            // the same node may be asked by two tasks
            let mut twice = order.clone();
            twice.extend(order.iter().rev().copied());
            let mut got = ask_concurrently(&incremental, &twice).await;
            let second = got.split_off(order.len());
            for (a, b) in got.iter().zip(second.iter().rev()) {
                if a != b {
                    println!(
                        "MISMATCH case {case_seed} edit {edit}: two \
                         concurrent requests disagree: {a:?} {b:?}"
                    );
                    stats.mismatches += 1;
                    case_failed = true;
                }
            }
            got
        } else {
            ask(&incremental, &order).await
        };

        let (_scratch_dir, scratch) = new_engine(&program).await;
        set_inputs(
            &scratch,
            &inputs
                .iter()
                .enumerate()
                .map(|(k, v)| (k as u8, *v))
                .collect::<Vec<_>>(),
        )
        .await;
        let expected = ask(&scratch, &order).await;

        for ((j, g), e) in order.iter().zip(&got).zip(&expected) {
            stats.compared += 1;

            if matches!(e, Outcome::Value(v) if *v < 0) {
                stats.cyclic_values += 1;
            }

            match g {
                Outcome::Panicked => stats.panics += 1,
                Outcome::TimedOut => stats.timeouts += 1,
                Outcome::Value(_) => {}
            }

            if g == e {
                continue;
            }

            // is the from-scratch answer itself order dependent? ask the
            // node alone from another new engine
            let (_d, alone) = new_engine(&program).await;
            set_inputs(
                &alone,
                &inputs
                    .iter()
                    .enumerate()
                    .map(|(k, v)| (k as u8, *v))
                    .collect::<Vec<_>>(),
            )
            .await;
            let alone_value = ask(&alone, &[*j]).await.pop().unwrap();

            if &alone_value != e {
                stats.order_dependent += 1;
                if verbose {
                    println!(
                        "  [order dependent] case {case_seed} edit {edit}: \
                         N{j} incremental {g:?}, scratch(in order) {e:?}, \
                         scratch(alone) {alone_value:?}"
                    );
                }
                if g == &alone_value {
                    continue;
                }
            }

            stats.mismatches += 1;
            case_failed = true;

            println!(
                "MISMATCH case {case_seed} edit {edit}: N{j}: incremental \
                 {g:?}, from scratch {e:?} (alone {alone_value:?})"
            );
        }

        if case_failed {
            break;
        }
    }

    if case_failed {
        stats.mismatching_cases += 1;
        println!(
            "  program (modulus {}, default mode {}):",
            program.modulus,
            DEFAULT_MODE.load(Ordering::SeqCst)
        );
        for (i, p) in program.nodes.iter().enumerate() {
            println!("    N{i}: {p:?}");
        }
        println!("  history (inputs, asked):");
        for (inputs, order) in &history {
            println!("    {inputs:?} {order:?}");
        }
    }

    stats.cases += 1;
}

fn env_u64(name: &str, default: u64) -> u64 {
    std::env::var(name).ok().and_then(|x| x.parse().ok()).unwrap_or(default)
}

#[tokio::test(flavor = "multi_thread", worker_threads = 4)]
async fn random_sequential_histories_agree_with_from_scratch() {
    let cases = env_u64("FUZZ_CASES", 150);
    let seed = env_u64("FUZZ_SEED", 1);
    let edits = env_u64("FUZZ_EDITS", 8) as usize;
    let verbose = std::env::var("FUZZ_VERBOSE").is_ok();

    // the cyclic panic payloads are caught by the engine; keep them quiet
    let hook = std::panic::take_hook();
    std::panic::set_hook(Box::new(|_| {}));

    let mut stats = Stats::default();
    for case in 0..cases {
        run_case(seed * 1_000_000 + case, edits, verbose, &mut stats).await;
    }

    std::panic::set_hook(hook);

    println!("{stats:#?}");

    assert_eq!(
        (stats.mismatches, stats.panics, stats.timeouts),
        (0, 0, 0),
        "incremental evaluation disagrees with from-scratch evaluation"
    );
}

//! Additional checks for the repair of "a cycle found during the repair phase
//! loses the dependencies of the re-executed member".
#![allow(missing_docs)]
#![allow(clippy::all, clippy::pedantic, clippy::nursery)]

use std::{sync::Arc, time::Duration};

use qbice::{
    Decode, Encode, Engine, TrackedEngine, config::Config, executor::Executor,
    query::Query, stable_hash::StableHash, stable_type_id::Identifiable,
};
use qbice_integration_test::{TestingConfig, create_test_engine};
use tempfile::tempdir;

macro_rules! unit_query {
    ($name:ident) => {
        #[derive(
            Debug,
            Clone,
            Copy,
            PartialEq,
            Eq,
            PartialOrd,
            Ord,
            Hash,
            Identifiable,
            StableHash,
            Encode,
            Decode,
        )]
        pub struct $name;
        impl Query for $name {
            type Value = i64;
        }
    };
}

unit_query!(V0);
unit_query!(V1);
unit_query!(V2);
unit_query!(V3);
unit_query!(A);
unit_query!(B);
unit_query!(C);

/// A: reads V0; only when V0 == 1 it also reads B
#[derive(Debug, Default, Clone, Copy)]
pub struct ExecA;
impl<Cfg: Config> Executor<A, Cfg> for ExecA {
    async fn execute(&self, _: &A, engine: &TrackedEngine<Cfg>) -> i64 {
        if engine.query(&V0).await == 1 {
            engine.query(&B).await
                + A_OFFSET.load(std::sync::atomic::Ordering::Relaxed)
        } else {
            100
        }
    }
    fn scc_value() -> i64 { -1 }
}

/// B: reads V1, V2, then C
#[derive(Debug, Default, Clone, Copy)]
pub struct ExecB;
impl<Cfg: Config> Executor<B, Cfg> for ExecB {
    async fn execute(&self, _: &B, engine: &TrackedEngine<Cfg>) -> i64 {
        let v1 = engine.query(&V1).await;
        let v2 = engine.query(&V2).await;
        let c = engine.query(&C).await;
        v1 * 10_000 + v2 * 1_000 + c
    }
    fn scc_value() -> i64 { -2 }
}

/// C: reads V3, then A
#[derive(Debug, Default, Clone, Copy)]
pub struct ExecC;
impl<Cfg: Config> Executor<C, Cfg> for ExecC {
    async fn execute(&self, _: &C, engine: &TrackedEngine<Cfg>) -> i64 {
        let v3 = engine.query(&V3).await;
        let a = engine.query(&A).await;
        v3 * 1_000_000 + a
    }
    fn scc_value() -> i64 { -3 }
}

async fn engine_abc(
    dir: &tempfile::TempDir,
) -> Arc<Engine<TestingConfig>> {
    let mut engine = create_test_engine(dir).await;
    engine.register_executor(Arc::new(ExecA));
    engine.register_executor(Arc::new(ExecB));
    engine.register_executor(Arc::new(ExecC));
    Arc::new(engine)
}

async fn set(engine: &Arc<Engine<TestingConfig>>, v: [Option<i64>; 4]) {
    let mut s = engine.input_session().await;
    if let Some(x) = v[0] {
        s.set_input(V0, x).await;
    }
    if let Some(x) = v[1] {
        s.set_input(V1, x).await;
    }
    if let Some(x) = v[2] {
        s.set_input(V2, x).await;
    }
    if let Some(x) = v[3] {
        s.set_input(V3, x).await;
    }
    s.commit().await;
}

/// `K5_A_OFFSET=1` makes `B`'s cycle default + offset equal to `A`'s own
/// cycle default.
static A_OFFSET: std::sync::atomic::AtomicI64 =
    std::sync::atomic::AtomicI64::new(7);

fn env_iterations() -> i64 {
    if let Some(offset) = std::env::var("K5_A_OFFSET")
        .ok()
        .and_then(|x| x.parse::<i64>().ok())
    {
        A_OFFSET.store(offset, std::sync::atomic::Ordering::Relaxed);
    }


    std::env::var("K5_ITERATIONS")
        .ok()
        .and_then(|x| x.parse::<i64>().ok())
        .unwrap_or(40)
}

fn expected(v: [i64; 4]) -> (i64, i64, i64) {
    if v[0] == 1 {
        (-1, -2, -3)
    } else {
        let a = 100;
        let c = v[3] * 1_000_000 + a;
        let b = v[1] * 10_000 + v[2] * 1_000 + c;
        (a, b, c)
    }
}

/// A ring of three; after the edit that closes it, `A` executes while `B`
/// and `C` are both only repairing when the ring is found (`C`'s repair of
/// `A` finds it).  Asked in every order, over several rounds of closing and
/// opening the ring, with edits to the reads that come *before* the edge
/// into the ring.
#[tokio::test]
async fn ring_of_three_with_two_repairing_members() {
    let orders: [[usize; 3]; 6] = [
        [0, 1, 2],
        [0, 2, 1],
        [1, 0, 2],
        [1, 2, 0],
        [2, 0, 1],
        [2, 1, 0],
    ];

    for open_order in orders {
        for close_order in orders {
            let dir = tempdir().unwrap();
            let engine = engine_abc(&dir).await;

            let mut v = [0, 1, 2, 3];
            set(&engine, [Some(0), Some(1), Some(2), Some(3)]).await;

            let check = |engine: Arc<Engine<TestingConfig>>,
                         order: [usize; 3],
                         v: [i64; 4],
                         what: &'static str| async move {
                let t = engine.tracked().await;
                let (ea, eb, ec) = expected(v);
                for q in order {
                    match q {
                        0 => assert_eq!(
                            t.query(&A).await,
                            ea,
                            "A {what} {order:?} {v:?}"
                        ),
                        1 => assert_eq!(
                            t.query(&B).await,
                            eb,
                            "B {what} {order:?} {v:?}"
                        ),
                        _ => assert_eq!(
                            t.query(&C).await,
                            ec,
                            "C {what} {order:?} {v:?}"
                        ),
                    }
                }
            };

            check(engine.clone(), open_order, v, "initial").await;

            for round in 0..3 {
                // close the ring
                v[0] = 1;
                set(&engine, [Some(1), None, None, None]).await;
                check(engine.clone(), close_order, v, "closed").await;

                // edit reads that come before the edge into the ring, while
                // the ring stays closed
                v[2] = 5 + round;
                v[3] = 7 + round;
                set(&engine, [None, None, Some(v[2]), Some(v[3])]).await;
                check(engine.clone(), close_order, v, "closed, edited")
                    .await;

                // open the ring
                v[0] = 0;
                set(&engine, [Some(0), None, None, None]).await;
                check(engine.clone(), open_order, v, "opened").await;

                v[1] = 20 + round;
                set(&engine, [None, Some(v[1]), None, None]).await;
                check(engine.clone(), open_order, v, "opened, edited").await;
            }
        }
    }
}

/// The same graph, but the members are asked concurrently from several tasks
/// on a multi-threaded runtime: no hang, no escaping panic, and the values of
/// the sequential evaluation.
#[tokio::test(flavor = "multi_thread", worker_threads = 4)]
async fn ring_of_three_asked_concurrently() {
    for iteration in 0..env_iterations() {
        let dir = tempdir().unwrap();
        let engine = engine_abc(&dir).await;

        let mut v = [0, 1, 2, 3 + iteration];
        set(&engine, [Some(0), Some(1), Some(2), Some(v[3])]).await;

        for phase in 0..4 {
            if phase > 0 {
                v[0] = phase % 2;
                set(&engine, [Some(v[0]), None, None, None]).await;
            }

            let (ea, eb, ec) = expected(v);

            let mut handles = Vec::new();
            for q in [0usize, 1, 2, 2, 1, 0] {
                let engine = engine.clone();
                handles.push(tokio::spawn(async move {
                    let t = engine.tracked().await;
                    let value = match q {
                        0 => t.query(&A).await,
                        1 => t.query(&B).await,
                        _ => t.query(&C).await,
                    };
                    (q, value)
                }));
            }

            for handle in handles {
                let (q, value) =
                    tokio::time::timeout(Duration::from_secs(30), handle)
                        .await
                        .expect("request did not terminate")
                        .expect("request panicked");

                let want = [ea, eb, ec][q];
                assert_eq!(
                    value, want,
                    "iteration {iteration} phase {phase} query {q}"
                );
            }
        }
    }
}

//! Side findings for C09 (round 5): sequences of public-API calls for which
//! the UNCHANGED code violates "cached maps always return the latest write".
//!
//! To run: copy this file to `crates/integration_test/tests/` and run
//! `cargo test -p qbice_integration_test --test SIDE_FINDING_c09 --offline`.
//!
//! The backing store is the real RocksDB backend wrapped in `GatedDb`, a
//! `KvDatabase` that can park exactly one read (`get_wide_column` /
//! `scan_members`) after it has sampled the store, which is all that is needed
//! to place a reader deterministically between "store sampled" and "cache
//! filled".

#![allow(missing_docs)]

use std::{
    collections::HashSet,
    sync::{
        Arc, Mutex,
        mpsc::{Receiver, Sender, channel},
    },
    time::{Duration, Instant},
};

use qbice::{
    Decode, Encode, Identifiable,
    serialize::Plugin,
    storage::{
        key_of_set_map::{ConcurrentSet, KeyOfSetMap},
        kv_database::{
            DiscriminantEncoding, KeyOfSetColumn, KvDatabase, WideColumn,
            WideColumnValue, rocksdb::RocksDB,
        },
        single_map::SingleMap,
        storage_engine::{
            StorageEngine,
            db_backed::{Configuration, DbBacked},
        },
    },
};

// ---------------------------------------------------------------------------
// a store whose reads can be parked
// ---------------------------------------------------------------------------

type Hooks = (Sender<()>, Receiver<()>);

#[derive(Clone)]
struct GatedDb {
    inner: RocksDB,
    gate: Arc<Mutex<Option<Hooks>>>,
}

impl GatedDb {
    /// Arms the gate: the next read parks after sampling the store. Returns
    /// (reached, release).
    fn arm(&self) -> (Receiver<()>, Sender<()>) {
        let (reached_tx, reached_rx) = channel();
        let (release_tx, release_rx) = channel();
        *self.gate.lock().unwrap() = Some((reached_tx, release_rx));
        (reached_rx, release_tx)
    }

    fn park_if_armed(&self) {
        let hooks = self.gate.lock().unwrap().take();
        if let Some((reached, release)) = hooks {
            reached.send(()).unwrap();
            release.recv().unwrap();
        }
    }
}

impl KvDatabase for GatedDb {
    type WriteBatch = <RocksDB as KvDatabase>::WriteBatch;
    type SerializationBuffer = <RocksDB as KvDatabase>::SerializationBuffer;
    type ScanMemberIterator<C: KeyOfSetColumn> =
        <RocksDB as KvDatabase>::ScanMemberIterator<C>;

    fn get_wide_column<W: WideColumn, C: WideColumnValue<W>>(
        &self,
        key: &W::Key,
    ) -> Option<C> {
        let value = self.inner.get_wide_column::<W, C>(key);
        self.park_if_armed();
        value
    }

    fn scan_members<C: KeyOfSetColumn>(
        &self,
        key: &C::Key,
    ) -> Self::ScanMemberIterator<C> {
        let iter = self.inner.scan_members::<C>(key);
        self.park_if_armed();
        iter
    }

    fn write_batch(&self) -> Self::WriteBatch { self.inner.write_batch() }

    fn serialization_buffer(&self) -> Self::SerializationBuffer {
        self.inner.serialization_buffer()
    }
}

// ---------------------------------------------------------------------------
// columns
// ---------------------------------------------------------------------------

#[derive(
    Debug, Clone, Copy, PartialEq, Eq, PartialOrd, Ord, Hash, Identifiable,
)]
pub struct SideColumn;

impl WideColumn for SideColumn {
    type Key = u64;
    type Discriminant = ();

    fn discriminant_encoding() -> DiscriminantEncoding {
        DiscriminantEncoding::Prefixed
    }
}

/// The padding only exists to make a write batch big enough (4 MiB) for the
/// background writer to commit it right away.
#[derive(Debug, Clone, PartialEq, Eq, Encode, Decode)]
pub struct Val {
    tag: u64,
    pad: Vec<u8>,
}

impl WideColumnValue<SideColumn> for Val {
    fn discriminant() {}
}

fn small(tag: u64) -> Val { Val { tag, pad: Vec::new() } }
fn big(tag: u64) -> Val { Val { tag, pad: vec![0xCD; 2 * 1024 * 1024] } }

#[derive(
    Debug, Clone, Copy, PartialEq, Eq, PartialOrd, Ord, Hash, Identifiable,
)]
pub struct SideSetColumn;

impl KeyOfSetColumn for SideSetColumn {
    type Key = u64;
    type Element = u64;
}

#[derive(Debug, Clone, Default)]
pub struct MySet(Arc<Mutex<HashSet<u64>>>);

impl ConcurrentSet for MySet {
    type Element = u64;
    type Iterator<'x> = std::vec::IntoIter<u64>;

    fn insert_element(&self, element: u64) -> bool {
        self.0.lock().unwrap().insert(element)
    }

    fn remove_element(&self, element: &u64) -> bool {
        self.0.lock().unwrap().remove(element)
    }

    fn len(&self) -> usize { self.0.lock().unwrap().len() }

    fn iter(&self) -> Self::Iterator<'_> {
        self.0.lock().unwrap().iter().copied().collect::<Vec<_>>().into_iter()
    }
}

fn wait_for(what: &str, mut cond: impl FnMut() -> bool) {
    let start = Instant::now();
    while !cond() {
        assert!(start.elapsed() < Duration::from_secs(20), "timeout: {what}");
        std::thread::sleep(Duration::from_millis(5));
    }
}

fn block_on<T>(f: impl Future<Output = T>) -> T {
    tokio::runtime::Builder::new_current_thread().build().unwrap().block_on(f)
}

// ---------------------------------------------------------------------------
// 1. single map: a reader that sampled the store BEFORE a write fills the
//    cache AFTER that write has been committed, un-pinned and evicted
// ---------------------------------------------------------------------------

#[test]
fn single_map_late_fill_installs_value_older_than_committed_write() {
    const K: u64 = 777;

    let dir = tempfile::tempdir().unwrap();
    let db = GatedDb {
        inner: RocksDB::open(dir.path(), Plugin::default()).unwrap(),
        gate: Arc::default(),
    };
    let engine = DbBacked::new(
        db.clone(),
        Configuration::builder().cache_capacity(8).build(),
    );
    let manager = engine.new_write_manager();
    let map = Arc::new(engine.new_single_map::<SideColumn, Val>());

    block_on(async {
        // epoch order: `write` is committed first, `filler` stays open
        let mut write = manager.new_write_batch();
        let mut filler = manager.new_write_batch();

        // the cache is full of in-flight entries
        for k in 0..8u64 {
            map.insert(k, small(k), &mut filler).await;
        }
        // ... which are a little more popular than K will be, so that K
        // loses against them when the cache policy has to choose
        for _ in 0..2 {
            for k in 0..7u64 {
                assert_eq!(map.get(&k).await.map(|x| x.tag), Some(k));
            }
        }

        // READER: get(K) misses the cache, reads "absent" from the store and
        // is parked before it fills the cache.
        let (reached, release) = db.arm();
        let reader = std::thread::spawn({
            let map = map.clone();
            move || block_on(async { map.get(&K).await.map(|x| x.tag) })
        });
        reached.recv().unwrap();

        // WRITER: insert(K, 7); the batch is committed and the cache is told.
        map.insert(K, big(7), &mut write).await;
        map.insert(K + 1, big(0), &mut write).await;
        map.insert(K + 2, big(0), &mut write).await;
        for k in 8..48u64 {
            map.insert(k, small(k), &mut filler).await;
        }
        manager.submit_write_batch(write);
        wait_for("commit of K", || {
            db.inner.get_wide_column::<SideColumn, Val>(&K).is_some()
        });
        std::thread::sleep(Duration::from_millis(500));

        // cache pressure: K (no longer pinned) is evicted
        for k in 48..128u64 {
            map.insert(k, small(k), &mut filler).await;
        }

        // READER resumes and fills the (vacant) slot with what it read
        release.send(()).unwrap();
        let reader_saw = reader.join().unwrap();

        // a read issued long after insert(K, 7) returned
        let got = map.get(&K).await.map(|x| x.tag);

        manager.submit_write_batch(filler);

        eprintln!("reader saw {reader_saw:?}; later read saw {got:?}");
        assert_eq!(got, Some(7), "insert(K, 7) was issued before this read");
    });
}

// ---------------------------------------------------------------------------
// 2. key-of-set map: an insert that runs while another task is loading the
//    set from the store is lost from the cached set
// ---------------------------------------------------------------------------

#[test]
fn key_of_set_insert_during_load_is_lost_from_cached_set() {
    const K: u64 = 5;

    let dir = tempfile::tempdir().unwrap();
    let db = GatedDb {
        inner: RocksDB::open(dir.path(), Plugin::default()).unwrap(),
        gate: Arc::default(),
    };
    let engine = DbBacked::new(db.clone(), Configuration::builder().build());
    let manager = engine.new_write_manager();
    let sets = Arc::new(engine.new_key_of_set_map::<SideSetColumn, MySet>());

    block_on(async {
        // READER: get(K) takes the staging snapshot (empty), misses the
        // cache, opens the store scan and is parked.
        let (reached, release) = db.arm();
        let reader = std::thread::spawn({
            let sets = sets.clone();
            move || {
                block_on(async { sets.get(&K).await.collect::<Vec<_>>() })
            }
        });
        reached.recv().unwrap();

        // WRITER: insert(K, 42) - staged; the set is not cached yet, so the
        // cache is not touched.
        let mut batch = manager.new_write_batch();
        sets.insert(K, 42, &mut batch).await;

        // READER resumes: builds the set from store + its OLD snapshot and
        // puts it into the cache.
        release.send(()).unwrap();
        let _concurrent = reader.join().unwrap();

        // a read issued after insert(K, 42) returned: cache hit
        let got = sets.get(&K).await.collect::<Vec<_>>();

        manager.submit_write_batch(batch);

        assert_eq!(got, vec![42], "insert(K, 42) was issued before this read");
    });
}

// ---------------------------------------------------------------------------
// 3. key-of-set map, spilled set: re-inserting a member that is already in
//    the store makes the read yield it twice (until the re-insert is
//    committed)
// ---------------------------------------------------------------------------

#[test]
fn spilled_set_yields_reinserted_member_twice() {
    const K: u64 = 9;

    let dir = tempfile::tempdir().unwrap();
    let db = GatedDb {
        inner: RocksDB::open(dir.path(), Plugin::default()).unwrap(),
        gate: Arc::default(),
    };
    let engine = DbBacked::new(db.clone(), Configuration::builder().build());
    let manager = engine.new_write_manager();
    let sets = engine.new_key_of_set_map::<SideSetColumn, MySet>();
    let pads = engine.new_single_map::<SideColumn, Val>();

    block_on(async {
        let mut first = manager.new_write_batch();
        for e in 0..1100u64 {
            sets.insert(K, e, &mut first).await;
        }
        // padding to get the batch committed right away
        for k in 0..3u64 {
            pads.insert(k, big(k), &mut first).await;
        }
        manager.submit_write_batch(first);
        wait_for("commit of the set", || {
            db.inner.scan_members::<SideSetColumn>(&K).count() == 1100
        });
        std::thread::sleep(Duration::from_millis(500));

        let mut second = manager.new_write_batch();
        sets.insert(K, 5, &mut second).await; // already a member

        let spilled = sets.get(&K).await.collect::<Vec<_>>();
        let streaming = sets.get(&K).await.collect::<Vec<_>>();

        manager.submit_write_batch(second);

        let count5 = |v: &[u64]| v.iter().filter(|x| **x == 5).count();
        eprintln!(
            "spilled: len {} (5 x{}), streaming: len {} (5 x{})",
            spilled.len(),
            count5(&spilled),
            streaming.len(),
            count5(&streaming)
        );
        assert_eq!(spilled.len(), 1100);
        assert_eq!(streaming.len(), 1100);
    });
}

//! Stress test for the wide-column cache (`CacheSingleMap`): real threads, a
//! cache that is much smaller than the key space, a background writer that
//! commits every batch right away and a store whose reads are a little slow.
//!
//! Every key has exactly one writer (its owner). Hence
//!
//! * whenever the owner reads one of its keys it must see its last write
//!   (right after the write, or many rounds later), and
//! * any other task that reads the key must never see the versions go
//!   backwards.
//!
//! Both are violated when a cache fill installs what it read from the store
//! before a write that has meanwhile been committed, un-pinned and evicted.

#![allow(missing_docs)]

use std::{
    sync::{
        Arc,
        atomic::{AtomicU64, Ordering},
    },
    time::Duration,
};

use qbice::{
    Decode, Encode, Identifiable,
    serialize::Plugin,
    storage::{
        kv_database::{
            DiscriminantEncoding, KeyOfSetColumn, KvDatabase, WideColumn,
            WideColumnValue, rocksdb::RocksDB,
        },
        single_map::{SingleMap, cache::CacheSingleMap},
        write_manager::write_behind::WriteBehind,
    },
};

#[derive(
    Debug, Clone, Copy, PartialEq, Eq, PartialOrd, Ord, Hash, Identifiable,
)]
pub struct Column;

impl WideColumn for Column {
    type Key = u32;
    type Discriminant = ();

    fn discriminant_encoding() -> DiscriminantEncoding {
        DiscriminantEncoding::Prefixed
    }
}

#[derive(Debug, Clone, Copy, PartialEq, Eq, Encode, Decode)]
pub struct Version(u64);

impl WideColumnValue<Column> for Version {
    fn discriminant() {}
}

/// RocksDB whose point reads are slow now and then (after they have sampled
/// the store), and whose write batches ask to be committed right away.
#[derive(Debug, Clone)]
struct SlowDb {
    inner: RocksDB,
    reads: Arc<AtomicU64>,
}

#[derive(Debug)]
struct EagerBatch(<RocksDB as KvDatabase>::WriteBatch);

impl qbice::storage::kv_database::WriteBatch for EagerBatch {
    type SerializationBuffer = <RocksDB as KvDatabase>::SerializationBuffer;

    fn put<W: WideColumn, C: WideColumnValue<W>>(
        &mut self,
        key: &W::Key,
        value: &C,
    ) {
        self.0.put::<W, C>(key, value);
    }

    fn delete<W: WideColumn, C: WideColumnValue<W>>(&mut self, key: &W::Key) {
        self.0.delete::<W, C>(key);
    }

    fn insert_member<C: KeyOfSetColumn>(
        &mut self,
        key: &C::Key,
        value: &C::Element,
    ) {
        self.0.insert_member::<C>(key, value);
    }

    fn delete_member<C: KeyOfSetColumn>(
        &mut self,
        key: &C::Key,
        value: &C::Element,
    ) {
        self.0.delete_member::<C>(key, value);
    }

    fn consume_serialization_buffer(
        &mut self,
        buffer: Self::SerializationBuffer,
    ) {
        self.0.consume_serialization_buffer(buffer);
    }

    fn commit(self) { self.0.commit(); }

    fn should_write_more(&self) -> bool { false }
}

impl KvDatabase for SlowDb {
    type WriteBatch = EagerBatch;
    type SerializationBuffer = <RocksDB as KvDatabase>::SerializationBuffer;
    type ScanMemberIterator<C: KeyOfSetColumn> =
        <RocksDB as KvDatabase>::ScanMemberIterator<C>;

    fn get_wide_column<W: WideColumn, C: WideColumnValue<W>>(
        &self,
        key: &W::Key,
    ) -> Option<C> {
        let value = self.inner.get_wide_column::<W, C>(key);

        // the store has been sampled; now be slow
        match self.reads.fetch_add(1, Ordering::Relaxed) % 4 {
            0 => std::thread::sleep(Duration::from_micros(300)),
            1 => std::thread::yield_now(),
            _ => {}
        }

        value
    }

    fn scan_members<C: KeyOfSetColumn>(
        &self,
        key: &C::Key,
    ) -> Self::ScanMemberIterator<C> {
        self.inner.scan_members::<C>(key)
    }

    fn write_batch(&self) -> Self::WriteBatch {
        EagerBatch(self.inner.write_batch())
    }

    fn serialization_buffer(&self) -> Self::SerializationBuffer {
        self.inner.serialization_buffer()
    }
}

type Map = CacheSingleMap<Column, Version, SlowDb>;

const THREADS: u32 = 8;
const KEYS_PER_THREAD: u32 = 2;
const KEYS: u32 = THREADS * KEYS_PER_THREAD;

// Most of the action is in the first few hundred rounds, while the cache fills
// up: many short runs find more than one long run.
const REPEATS: u32 = 12;
const ROUNDS: u32 = 700;

#[tokio::test(flavor = "multi_thread", worker_threads = 8)]
async fn stress_single_map_read_your_own_writes() {
    for repeat in 0..REPEATS {
        run(repeat).await;
    }
}

async fn run(repeat: u32) {
    let dir = tempfile::tempdir().unwrap();
    let raw = RocksDB::open(dir.path(), Plugin::default()).unwrap();
    let db = SlowDb { inner: raw, reads: Arc::default() };

    let map = Arc::new(Map::new(4, db.clone()));
    let writer = Arc::new(WriteBehind::new(&db, 2));

    let mut tasks = Vec::new();

    for me in 0..THREADS {
        let map = map.clone();
        let writer = writer.clone();

        tasks.push(tokio::spawn(async move {
            // key `k` is owned by task `k % THREADS`
            let mut written = vec![None::<u64>; KEYS as usize];
            let mut next_version = vec![1u64; KEYS as usize];
            let mut seen = vec![0u64; KEYS as usize];
            let mut state = u64::from(me) * 0x9E37_79B9 + 1;

            for round in 0..ROUNDS {
                // xorshift
                state ^= state << 13;
                state ^= state >> 7;
                state ^= state << 17;

                let own = state & 0x10 != 0;
                let key = if own {
                    let nth = u32::try_from((state >> 8) % u64::from(KEYS_PER_THREAD)).unwrap();
                    me + nth * THREADS
                } else {
                    u32::try_from((state >> 8) % u64::from(KEYS)).unwrap()
                };

                if key % THREADS == me {
                    let slot = key as usize;

                    // 0: only read; 1, 2: insert the next version; 3: remove
                    let action = (state >> 20) % 4;
                    if action != 0 {
                        let mut batch = writer.new_write_batch();
                        if action == 3 {
                            map.remove(&key, &mut batch).await;
                            written[slot] = None;
                        } else {
                            let version = next_version[slot];
                            next_version[slot] += 1;
                            map.insert(key, Version(version), &mut batch)
                                .await;
                            written[slot] = Some(version);
                        }
                        writer.submit_write_batch(batch);
                    }

                    if state & 0x100 != 0 {
                        tokio::task::yield_now().await;
                    }

                    let got = map.get(&key).await.map(|x| x.0);
                    assert_eq!(
                        got, written[slot],
                        "round {round}: task {me} is the only writer of key \
                         {key} (action {action}), last wrote {:?}, then \
                         read {got:?}",
                        written[slot],
                    );
                } else if let Some(Version(got)) = map.get(&key).await {
                    let slot = key as usize;
                    assert!(
                        got >= seen[slot],
                        "round {round}: task {me} read version {got} of \
                         key {key} after it had read version {}",
                        seen[slot],
                    );
                    seen[slot] = got;
                }
            }
        }));
    }

    let mut failures = Vec::new();
    for task in tasks {
        if let Err(error) = task.await {
            failures.push(error.to_string());
        }
    }

    assert!(failures.is_empty(), "repeat {repeat}: {failures:#?}");
}

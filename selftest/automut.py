#!/usr/bin/env python3
"""Systematic mutation sampling (not a registered command).

Generates syntactic mutants of the repository's protocol code with a handful of classic operators (negated condition,
relational / equality operator replaced, boolean literal flipped, `+ 1` / `- 1` dropped, a statement-level call
deleted, two adjacent same-shaped arguments swapped), runs ALL static checks on each in a scratch copy, and - for the
ones no check reports - runs the repository's own test suite in a scratch worktree to see whether the mutant survives.
`missed + survives` is the interesting residue: either an equivalent mutant or a gap in the rules (triaged by hand in
DESIGN.md 11.8).

usage: selftest/automut.py gen [N]            -> selftest/automut_plan.json (deterministic sample of N mutants)
       selftest/automut.py static [K]         -> runs the checks on the next K unprocessed mutants
       selftest/automut.py survive [K]        -> runs the test suite on the next K missed, compiling mutants
       selftest/automut.py report
"""
import hashlib
import json
import os
import random
import re
import subprocess
import sys
import time

HERE = os.path.dirname(os.path.abspath(__file__))
VERIF = os.path.dirname(HERE)
PLAN = os.path.join(HERE, "automut_plan.json")
RES = os.path.join(HERE, "automut_results.json")
SCRATCH = os.environ.get("QBV_SELFTEST_DIR", "/tmp/qbv-automut")
WT = "/tmp/qbv-automut-wt"

FILES = [
    "crates/qbice/src/engine/computation_graph.rs",
    "crates/qbice/src/engine/computation_graph/repair.rs",
    "crates/qbice/src/engine/computation_graph/fast_path.rs",
    "crates/qbice/src/engine/computation_graph/slow_path.rs",
    "crates/qbice/src/engine/computation_graph/computing.rs",
    "crates/qbice/src/engine/computation_graph/database.rs",
    "crates/qbice/src/engine/computation_graph/database/snapshot.rs",
    "crates/qbice/src/engine/computation_graph/database/sync.rs",
    "crates/qbice/src/engine/computation_graph/dirty_worker.rs",
    "crates/qbice/src/engine/computation_graph/input_session.rs",
    "crates/qbice/src/engine/computation_graph/backward_projection.rs",
    "crates/qbice/src/engine/computation_graph/register_callee.rs",
    "crates/qbice/src/engine/computation_graph/query_lock_manager.rs",
    "crates/storage/src/write_manager/write_behind.rs",
    "crates/storage/src/wide_column_cache.rs",
    "crates/storage/src/key_of_set_map/cache.rs",
    "crates/storage/src/key_of_set_map/in_memory.rs",
    "crates/storage/src/tiny_lfu.rs",
    "crates/storage/src/tiny_lfu/policy.rs",
    "crates/storage/src/tiny_lfu/lru.rs",
    "crates/storage/src/intern.rs",
    "crates/storage/src/kv_database/rocksdb.rs",
    "crates/storage/src/kv_database/fjall.rs",
    "crates/serialize/src/encode.rs",
    "crates/serialize/src/decode.rs",
    "crates/serialize/src/postcard.rs",
    "crates/stable_hash/src/lib.rs",
    "crates/stable_type_id/src/lib.rs",
]
SKIP_LINE = re.compile(r"^\s*(//|#\[|assert|debug_assert|tracing::|panic!|unreachable!|expect\(|\.expect\()")


def candidates(path, text):
    out = []
    lines = text.split("\n")
    in_test = False
    for i, ln in enumerate(lines):
        if re.match(r"\s*#\[cfg\(test\)\]", ln) or re.match(r"\s*mod test", ln):
            in_test = True
        if in_test or SKIP_LINE.match(ln) or '"' in ln and ("{" not in ln):
            continue
        code = ln.split("//")[0]
        # negate a condition
        m = re.match(r"^(\s*(?:\} else )?if )(?!let\b)(.+?)( \{\s*)$", code)
        if m and "matches!" not in m.group(2) or (m and "matches!" in m.group(2)):
            if m:
                out.append((i, "negate-if", m.group(1) + "!(" + m.group(2) + ")" + m.group(3)))
        for a, b in ((" == ", " != "), (" != ", " == "), (" < ", " <= "), (" <= ", " < "), (" > ", " >= "), (" >= ", " > ")):
            if a in code and "=>" not in code and "<'" not in code and "->" not in code and not re.search(r"[A-Za-z_]<[A-Z]", code):
                out.append((i, "relop%s->%s" % (a.strip(), b.strip()), code.replace(a, b, 1)))
        for a, b in (("true", "false"), ("false", "true")):
            if re.search(r"\b%s\b" % a, code) and "=>" not in code:
                out.append((i, "bool-%s" % a, re.sub(r"\b%s\b" % a, b, code, 1)))
        if re.search(r" [+-] 1\b", code) and "usize" not in code:
            out.append((i, "off-by-one", re.sub(r" ([+-]) 1\b", "", code, 1)))
        if re.search(r" [+-]= 1;", code):
            out.append((i, "counter-step-dropped", re.sub(r"^(\s*).*$", r"\1();", code)))
        # delete a single-line statement-level call
        if re.match(r"^\s+[a-z_][A-Za-z0-9_\.\(\)&\*]*\.[a-z_]+\([^;]*\);\s*$", code) and "let " not in code and "return" not in code:
            out.append((i, "delete-call", re.sub(r"^(\s*).*$", r"\1();", code)))
        # swap two adjacent simple arguments
        m = re.search(r"\(([a-z_][a-z0-9_\.\*&]*), ([a-z_][a-z0-9_\.\*&]*)(, |\))", code)
        if m and m.group(1) != m.group(2) and "fn " not in code and "|" not in code:
            out.append((i, "swap-args", code[:m.start(1)] + m.group(2) + ", " + m.group(1) + code[m.end(2):]))
    return [(i, op, new) for i, op, new in out if new != lines[i]]


def cmd_gen(n):
    rnd = random.Random(20260926)
    plan = []
    for f in FILES:
        p = os.path.join("/repo", f)
        if not os.path.exists(p):
            continue
        text = open(p).read()
        cs = candidates(f, text)
        rnd.shuffle(cs)
        for i, op, new in cs:
            plan.append({"file": f, "line": i + 1, "op": op, "old": text.split("\n")[i], "new": new})
    rnd.shuffle(plan)
    # spread over files: round-robin by file
    byf = {}
    for m in plan:
        byf.setdefault(m["file"], []).append(m)
    out = []
    while len(out) < n and any(byf.values()):
        for f in list(byf):
            if byf[f] and len(out) < n:
                out.append(byf[f].pop())
    for k, m in enumerate(out):
        m["id"] = "A%03d" % k
    json.dump(out, open(PLAN, "w"), indent=1)
    print("planned %d mutants over %d files" % (len(out), len({m["file"] for m in out})))


def save_one(mid, fields):
    """read-modify-write of one mutant's record under a file lock (the static and the survival runs work concurrently)"""
    import fcntl
    with open(RES + ".lock", "w") as lk:
        fcntl.flock(lk, fcntl.LOCK_EX)
        res = json.load(open(RES)) if os.path.exists(RES) else {}
        res.setdefault(mid, {}).update(fields)
        json.dump(res, open(RES, "w"), indent=1, sort_keys=True)


def load():
    plan = json.load(open(PLAN))
    res = json.load(open(RES)) if os.path.exists(RES) else {}
    return plan, res


def apply(root, m):
    p = os.path.join(root, m["file"])
    lines = open(p).read().split("\n")
    at = m["line"] - 1
    if at >= len(lines) or lines[at] != m["old"]:
        # the file moved a little since the plan was made (a repair commit): take the nearest identical line within 40 lines
        cand = [i for i in range(max(0, at - 40), min(len(lines), at + 41)) if lines[i] == m["old"]]
        if not cand:
            return False
        at = min(cand, key=lambda i: abs(i - (m["line"] - 1)))
    lines[at] = m["new"]
    open(p, "w").write("\n".join(lines))
    return True


def cmd_static(k):
    import fcntl
    os.makedirs(SCRATCH, exist_ok=True)
    lock = open(os.path.join(SCRATCH, "lock"), "w")
    fcntl.flock(lock, fcntl.LOCK_EX)
    plan, res = load()
    done = 0
    for m in plan:
        if done >= k:
            break
        if m["id"] in res and "static" in res[m["id"]]:
            continue
        dst = os.path.join(SCRATCH, "repo")
        subprocess.check_call(["rsync", "-a", "--delete", "--exclude", "target", "--exclude", ".git", "/repo/", dst + "/"])
        r_ = res.setdefault(m["id"], {})
        if not apply(dst, m):
            save_one(m["id"], {"static": "stale-plan"})
            continue
        t0 = time.time()
        env = dict(os.environ, QBV_REPO=dst, QBV_EVIDENCE_DIR=os.path.join(SCRATCH, "evidence"))
        r = subprocess.run([os.path.join(VERIF, "check"), "all", "quick"], cwd=VERIF, env=env, stdout=subprocess.PIPE, stderr=subprocess.STDOUT, text=True)
        keys = sorted({x.group(1) for x in re.finditer(r": C\d+\.[a-z] \[([^\]]+)\]", r.stdout)})
        if "ENGINE-ERROR" in r.stdout and ("could not compile" in r.stdout or "error[E" in r.stdout or "error:" in r.stdout):
            r_["static"] = "does-not-compile"
        elif keys:
            r_["static"] = "caught"
            r_["keys"] = keys[:6]
        else:
            r_["static"] = "missed"
        r_["static_s"] = round(time.time() - t0)
        done += 1
        print("%s %-60s %-14s %-22s %s" % (m["id"], m["file"].split("/")[-1] + ":" + str(m["line"]), m["op"], r_["static"], ";".join(r_.get("keys", []))[:100]), flush=True)
        save_one(m["id"], {k_: v_ for k_, v_ in r_.items() if k_ in ("static", "keys", "static_s")})


def sh(c):
    return subprocess.run(c, shell=True, stdout=subprocess.PIPE, stderr=subprocess.STDOUT, text=True)


def cmd_survive(k):
    plan, res = load()
    if not os.path.isdir(WT):
        sh("git -C /repo worktree add --detach %s HEAD -q" % WT)
        sh("cp -al /repo/target %s/target" % WT)
        sh("rm -rf %s/target/debug/.fingerprint/qbice* %s/target/debug/deps/*qbice* %s/target/debug/incremental %s/target/debug/build/qbice* %s/target/debug/examples" % ((WT,) * 5))
    done = 0
    for m in plan:
        if done >= k:
            break
        res = json.load(open(RES)) if os.path.exists(RES) else {}
        r_ = res.get(m["id"], {})
        if r_.get("static") != "missed" or "tests" in r_:
            continue
        sh("git -C %s checkout -- ." % WT)
        if not apply(WT, m):
            save_one(m["id"], {"tests": "stale-plan"})
            continue
        t0 = time.time()
        r = sh("cd %s && timeout 1500 cargo test --workspace --no-fail-fast --offline 2>&1" % WT)
        failed = sorted(set(re.findall(r"^test (\S+) \.\.\. FAILED", r.stdout, re.M)))
        failed = [f for f in failed if "asymmetric_diamond_projection_pattern" not in f]
        if "error: could not compile" in r.stdout:
            r_["tests"] = "does-not-compile"
        elif failed or r.returncode == 124 or "SIGABRT" in r.stdout or "SIGSEGV" in r.stdout:
            r_["tests"] = "killed"
            r_["failed"] = failed[:5]
        else:
            r_["tests"] = "SURVIVES"
        r_["tests_s"] = round(time.time() - t0)
        done += 1
        print("%s %-60s %-14s %s %s" % (m["id"], m["file"].split("/")[-1] + ":" + str(m["line"]), m["op"], r_["tests"], r_.get("failed", [])[:2]), flush=True)
        save_one(m["id"], {k_: v_ for k_, v_ in r_.items() if k_ in ("tests", "failed", "tests_s")})
    sh("git -C %s checkout -- ." % WT)


def cmd_recheck(k):
    """Re-evaluates the mutants currently recorded as `missed` (rules change while the sampling runs)."""
    plan, res = load()
    for m in plan:
        r_ = res.get(m["id"], {})
        if r_.get("static") == "missed":
            r_.pop("static", None)
            r_["was_missed"] = True
    json.dump(res, open(RES, "w"), indent=1, sort_keys=True)
    cmd_static(k)


def cmd_ids(ids):
    """Evaluates the named mutants now, in a private scratch dir, without touching the results file."""
    plan, _ = load()
    scratch = SCRATCH + "-ids"
    os.makedirs(scratch, exist_ok=True)
    for m in plan:
        if m["id"] not in ids:
            continue
        dst = os.path.join(scratch, "repo")
        subprocess.check_call(["rsync", "-a", "--delete", "--exclude", "target", "--exclude", ".git", "/repo/", dst + "/"])
        if not apply(dst, m):
            print("%s %-28s %-12s stale-plan (the line is no longer there)" % (m["id"], m["file"].split("/")[-1] + ":" + str(m["line"]), m["op"]), flush=True)
            continue
        env = dict(os.environ, QBV_REPO=dst, QBV_EVIDENCE_DIR=os.path.join(scratch, "evidence"))
        r = subprocess.run([os.path.join(VERIF, "check"), "all", "quick"], cwd=VERIF, env=env, stdout=subprocess.PIPE, stderr=subprocess.STDOUT, text=True)
        keys = sorted({x.group(1) for x in re.finditer(r": C\d+\.[a-z] \[([^\]]+)\]", r.stdout)})
        st = "does-not-compile" if "ENGINE-ERROR" in r.stdout else ("caught" if keys else "missed")
        print("%s %-28s %-12s %-10s %s" % (m["id"], m["file"].split("/")[-1] + ":" + str(m["line"]), m["op"], st, ";".join(keys)[:160]), flush=True)


def cmd_report():
    plan, res = load()
    from collections import Counter
    c = Counter()
    for m in plan:
        r_ = res.get(m["id"], {})
        st = r_.get("static", "-")
        c[st] += 1
        if st == "missed":
            c["missed/" + r_.get("tests", "untested")] += 1
    print(dict(c))
    for m in plan:
        r_ = res.get(m["id"], {})
        if r_.get("static") == "missed" and r_.get("tests") == "SURVIVES":
            print("%s %s:%d %s\n     - %s\n     + %s" % (m["id"], m["file"], m["line"], m["op"], m["old"].strip(), m["new"].strip()))


if __name__ == "__main__":
    a = sys.argv[1] if len(sys.argv) > 1 else "report"
    if a == "ids":
        cmd_ids(set(sys.argv[2].split(",")))
        sys.exit(0)
    n = int(sys.argv[2]) if len(sys.argv) > 2 else 10
    {"gen": cmd_gen, "static": cmd_static, "survive": cmd_survive, "recheck": cmd_recheck, "report": lambda _: cmd_report()}[a](n)

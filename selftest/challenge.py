"""Exploratory mutants: plausible regressions written WITHOUT consulting the rules, run against all checks with
`selftest/run.py --challenge [regex]`.  A MISSED line is a candidate for a new rule class (or an honest `not decided`);
when a rule is added the mutant moves to mutants.py with its expected key."""
CG = "crates/qbice/src/engine/computation_graph/"
ST = "crates/storage/src/"

MUTANTS = [
    dict(id="X04-projection-change-does-not-propagate-backwards", file=CG + "slow_path.rs",
         old="""                    (old_kind.is_firewall() || old_kind.is_projection())
                        && updated,""", new="""                    old_kind.is_firewall() && updated,"""),
    dict(id="X07-backward-projection-done-before-join", file=CG + "backward_projection.rs",
         old="""        while let Some(res) = join_set.join_next().await {""",
         new="""        if let Some(res) = join_set.join_next().await {"""),
    dict(id="X08-tfc-repair-joins-first-chunk-only", file=CG + "repair.rs",
         old="""        while let Some(handle) = join_set.join_next().await {
            handle.unwrap();
        }""", new="""        if let Some(handle) = join_set.join_next().await {
            handle.unwrap();
        }"""),
    dict(id="X09-value-compared-with-tfc-fingerprint", file=CG + "repair.rs",
         old="""                    .get(callee)
                    .unwrap()
                    .seen_value_fingerprint;""", new="""                    .get(callee)
                    .unwrap()
                    .seen_transitive_firewall_callees_fingerprint;"""),
    # ------------------------------------------------------------------ storage
    dict(id="X26-staging-snapshot-after-cache-lookup", file=ST + "key_of_set_map/cache.rs",
         old="""            let staging_snapshot = self.get_staging_snapshot(key);
            let mut spilled = None;

            if let Some(entry) = self.repr.cache.get(key) {
                return (entry, staging_snapshot, spilled);
            }
""", new="""            let mut spilled = None;

            if let Some(entry) = self.repr.cache.get(key) {
                return (entry, self.get_staging_snapshot(key), spilled);
            }

            let staging_snapshot = self.get_staging_snapshot(key);
"""),
    dict(id="X28-too-large-threshold-not-rechecked-after-insert", file=ST + "key_of_set_map/cache.rs",
         old="                if new_set.len() > 1024 {", new="                if new_set.len() > usize::MAX / 2 {"),
    # ------------------------------------------------------------------ query path / sessions
    # ------------------------------------------------------------------ stable hash
    # ------------------------------------------------------------------ interning
    # ------------------------------------------------------------------ lock table
    # ------------------------------------------------------------------ edge roles outside Snapshot
]
